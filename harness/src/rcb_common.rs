//! Shared by c03.rs / c04.rs: input generators for Rcb / Rib, guarded runs
//! under several pool sizes, known-finding class predicates, case writers.
use coupe::nalgebra::SVector;
use coupe::Partition as _;
use std::time::Duration;
use verif_harness::*;

pub const POOLS: [usize; 6] = [1, 2, 3, 4, 8, 16];

pub struct Case {
    pub family: String,
    pub rib: bool,
    pub d: usize,
    pub k: usize,
    pub tol: f64,
    /// input points, `d` coordinates each
    pub pts: Vec<Vec<f64>>,
    pub ws: Vec<i64>,
    pub plen: usize,
    /// weights handed over as f64 (integer-valued) instead of i64
    pub wf64: bool,
}

fn grid(r: &mut Rng, span: i64) -> f64 {
    // multiples of 2^-6 with |x| <= span
    r.range(-span * 64, span * 64) as f64 / 64.0
}

fn arbitrary(r: &mut Rng) -> f64 {
    // arbitrary finite f64 whose f32 image is finite and not huge
    let e = match r.below(10) {
        0 => r.range(-60, 60),
        1 => r.range(-140, 100),
        _ => r.range(-8, 12),
    };
    let m = (r.next() >> 11) as f64 / (1u64 << 53) as f64 + 1.0; // [1,2) with 52 random bits
    let s = if r.chance(1, 2) { -1.0 } else { 1.0 };
    s * m * 2f64.powi(e as i32)
}

fn next_up32(x: f32) -> f32 {
    if x == 0.0 {
        return f32::from_bits(1);
    }
    if x > 0.0 {
        f32::from_bits(x.to_bits() + 1)
    } else {
        f32::from_bits(x.to_bits() - 1)
    }
}

pub fn gen_points(r: &mut Rng, d: usize, n: usize, arb: bool, fam: u64) -> (String, Vec<Vec<f64>>) {
    let c = |r: &mut Rng, span: i64| if arb { arbitrary(r) } else { grid(r, span) };
    let (name, pts): (&str, Vec<Vec<f64>>) = match fam {
        0 => ("uniform", (0..n).map(|_| (0..d).map(|_| c(r, 512)).collect()).collect()),
        1 => {
            // clusters far apart
            let nc = r.range(1, 4) as usize;
            let centres: Vec<Vec<f64>> = (0..nc).map(|_| (0..d).map(|_| c(r, 1000)).collect()).collect();
            (
                "clustered",
                (0..n)
                    .map(|_| {
                        let ce = r.pick(&centres).clone();
                        ce.iter().map(|x| x + r.range(-64, 64) as f64 / 64.0).collect()
                    })
                    .collect(),
            )
        }
        2 => {
            // collinear: along an axis, a diagonal, or a generic direction
            let dir: Vec<f64> = match r.below(3) {
                0 => (0..d).map(|i| if i == 0 { 1.0 } else { 0.0 }).collect(),
                1 => (0..d).map(|_| 1.0).collect(),
                _ => (0..d).map(|_| r.range(-3, 3) as f64).collect(),
            };
            let o: Vec<f64> = (0..d).map(|_| c(r, 16)).collect();
            (
                "collinear",
                (0..n)
                    .map(|_| {
                        let t = r.range(-200, 200) as f64 / 4.0;
                        (0..d).map(|i| o[i] + t * dir[i]).collect()
                    })
                    .collect(),
            )
        }
        3 => {
            let p: Vec<f64> = (0..d).map(|_| c(r, 512)).collect();
            ("coincident", (0..n).map(|_| p.clone()).collect())
        }
        4 => {
            let side = r.range(1, 5);
            (
                "lattice",
                (0..n).map(|_| (0..d).map(|_| r.range(0, side) as f64).collect()).collect(),
            )
        }
        5 => {
            let mut pts: Vec<Vec<f64>> =
                (0..n).map(|_| (0..d).map(|_| r.range(0, 4 * 64) as f64 / 64.0).collect()).collect();
            if n > 0 {
                let i = r.below(n as u64) as usize;
                let far = *r.pick(&[1000.0, -1000.0, 20.0, 65536.0]);
                pts[i] = (0..d).map(|j| if j == 0 || r.chance(1, 2) { far } else { pts[i][j] }).collect();
            }
            ("one_outlier", pts)
        }
        6 => {
            // few distinct points, many duplicates
            let nd = r.range(1, 5) as usize;
            let base: Vec<Vec<f64>> = (0..nd).map(|_| (0..d).map(|_| c(r, 64)).collect()).collect();
            ("duplicates", (0..n).map(|_| r.pick(&base).clone()).collect())
        }
        7 => {
            // two or three adjacent binary32 values on axis 0 (known-finding class rcb-adjacent-floats)
            let x0 = (c(r, 64) as f32).max(-1e30).min(1e30);
            let vals = [x0, next_up32(x0), next_up32(next_up32(x0))];
            (
                "adjacent_floats",
                (0..n)
                    .map(|_| {
                        (0..d)
                            .map(|j| if j == 0 { *r.pick(&vals) as f64 } else { r.range(0, 3) as f64 })
                            .collect()
                    })
                    .collect(),
            )
        }
        8 => {
            // near-duplicates far from the rest (rounded distances tie: class rcb-dist-tie)
            let far = -(2f64.powi(r.range(24, 40) as i32));
            (
                "near_dup_far",
                (0..n)
                    .map(|i| {
                        (0..d)
                            .map(|j| {
                                if j > 0 {
                                    r.range(0, 3) as f64
                                } else if i == 0 || r.chance(1, 4) {
                                    far
                                } else {
                                    r.range(1, 4) as f64
                                }
                            })
                            .collect()
                    })
                    .collect(),
            )
        }
        10 => {
            // signed zeros: -0.0 / +0.0 / values whose f32 image underflows to +-0.0 / tiny
            // subnormals, mixed with ordinary points on both sides, so that cuts land on zero
            // and the pivot is a zero of either sign with the other sign present in the node
            let zeros = [0.0f64, -0.0, 0.0, -0.0, 1e-60, -1e-60, 3e-46, -3e-46, 1e-45, -1e-45, 1e-40, -1e-40];
            let others = [-2.0f64, -1.0, -0.5, 0.5, 1.0, 2.0, 3.0];
            let pz = r.range(3, 7) as u64; // share of zero-like coordinates, out of 8
            (
                "signed_zero",
                (0..n)
                    .map(|_| {
                        (0..d)
                            .map(|_| if r.below(8) < pz { *r.pick(&zeros) } else { *r.pick(&others) })
                            .collect()
                    })
                    .collect(),
            )
        }
        11 => {
            // dense cluster: many distinct binary32 values a few ulps apart (absolute width far
            // below f32::EPSILON near 0, a few 1e-7 near 1, a few ulps near 1e6), plus a few far
            // points; the balanced cut lies inside the cluster
            let mut centres: Vec<f32> = Vec::new();
            for _ in 0..d {
                centres.push(*r.pick(&[0.0f32, 0.0, 1e-3, 0.3, 0.5, 1.0, 1.0, -1.0, 1e6, -1e6]));
            }
            let step = r.range(1, 3);
            let far = r.range(0, 2) as usize;
            (
                "dense_cluster",
                (0..n)
                    .map(|i| {
                        (0..d)
                            .map(|j| {
                                if i < far {
                                    return *r.pick(&[-7.0f64, 5.0, 1e3, -2e6, 4e6]);
                                }
                                let c = centres[j];
                                let k = r.range(0, 24) * step;
                                if c == 0.0 {
                                    // multiples of 1e-9 / 1e-10 around zero, both signs
                                    let unit = if step == 1 { 1e-9f32 } else { 1e-10f32 };
                                    ((k - 12 * step) as f32 * unit) as f64
                                } else if c > 0.0 {
                                    f32::from_bits(c.to_bits() + k as u32) as f64
                                } else {
                                    f32::from_bits(c.to_bits() - 12 + k as u32) as f64
                                }
                            })
                            .collect()
                    })
                    .collect(),
            )
        }
        12 => {
            // finite f64 coordinates beyond the binary32 range (`as f32` would be +-inf; the
            // clamped cast gives +-f32::MAX): one outlier, both ends, every point beyond the
            // range, or mixed with ordinary points
            let mags = [3.5e38f64, 1e39, 1e60, 1e150, 1e300];
            let mode = r.below(4);
            let neg_side = r.chance(1, 2);
            (
                "beyond_f32",
                (0..n)
                    .map(|i| {
                        (0..d)
                            .map(|j| {
                                let ordinary = r.range(-8, 8) as f64;
                                let m = *r.pick(&mags);
                                if j != 0 {
                                    return if mode == 3 && r.chance(1, 8) { m } else { ordinary };
                                }
                                match mode {
                                    0 => if i == 0 { if neg_side { -m } else { m } } else { ordinary },
                                    1 => if i == 0 { m } else if i == 1 { -m } else { ordinary },
                                    2 => if r.chance(1, 2) { m } else { -m },
                                    _ => if r.chance(1, 4) { if r.chance(1, 2) { m } else { -m } } else { ordinary },
                                }
                            })
                            .collect()
                    })
                    .collect(),
            )
        }
        _ => {
            // huge magnitudes: same sign (min + max overflows binary32) or opposite signs
            // (the extent max - min overflows)
            let opposite = r.chance(1, 2);
            (
                "huge",
                (0..n)
                    .map(|_| {
                        (0..d)
                            .map(|_| {
                                let m = (r.range(18, 33) as f64) * 1e37;
                                if opposite && r.chance(1, 2) { -m } else { m }
                            })
                            .collect()
                    })
                    .collect(),
            )
        }
    };
    (name.to_string(), pts)
}

pub fn gen_weights(r: &mut Rng, n: usize) -> (String, Vec<i64>) {
    let (name, ws): (&str, Vec<i64>) = match r.below(6) {
        0 => ("unit", vec![1; n]),
        1 => ("zeros", (0..n).map(|_| if r.chance(1, 2) { 0 } else { r.range(1, 9) }).collect()),
        2 => {
            let mut ws: Vec<i64> = (0..n).map(|_| r.range(1, 10)).collect();
            if n > 0 {
                let i = r.below(n as u64) as usize;
                ws[i] = r.range(100, 5000);
            }
            ("dominant", ws)
        }
        3 => ("skewed", (0..n).map(|_| 1i64 << r.range(0, 12)).collect()),
        4 => ("random", (0..n).map(|_| r.range(0, 100)).collect()),
        _ => ("allzero_or_tiny", (0..n).map(|_| if r.chance(1, 8) { 1 } else { 0 }).collect()),
    };
    (name.to_string(), ws)
}

/// `c04`: emphasise balance (iter_count >= 1, outliers / clusters / skewed weights).
pub fn gen_case(r: &mut Rng, _tier: &str, c04: bool, big: bool) -> Case {
    let d = if r.chance(1, 2) { 2 } else { 3 };
    let n = if big {
        *r.pick(&[8192usize, 8193, 9000])
    } else {
        match r.below(12) {
            0 => r.range(0, 2) as usize,
            1..=7 => r.range(2, 16) as usize,
            _ => r.range(17, 40) as usize,
        }
    };
    let arb = !big && r.chance(2, 5);
    let fam = if big {
        *r.pick(&[0u64, 1, 4, 6])
    } else {
        let f = r.below(if c04 { 59 } else { 51 });
        if f < 28 {
            f % 7
        } else if f < 34 {
            7 + (f - 28) % 3 // the three float-edge families
        } else if f < 41 {
            10 // signed zeros
        } else if f < 48 {
            11 // dense cluster
        } else if f < 51 {
            12 // coordinates beyond the binary32 range
        } else {
            *r.pick(&[1u64, 5, 5, 6])
        }
    };
    let (pname, pts) = gen_points(r, d, n, arb && fam < 7, fam);
    let n = pts.len();
    let (_wname, ws) = gen_weights(r, n);
    let k = if big {
        r.range(1, 2) as usize
    } else if c04 {
        r.range(1, 6) as usize
    } else {
        r.range(0, 6) as usize
    };
    // zero / cluster families: weights that put the cut inside the interesting group
    let ws = if (fam == 10 || fam == 11) && r.chance(1, 2) { vec![1; n] } else { ws };
    let tol = match r.below(6) {
        0 => 0.0,
        1 => 0.05,
        2 => 0.1,
        3 => 0.5,
        _ => r.below(501) as f64 / 1000.0,
    };
    // Rib is not run on magnitudes whose squares overflow f64 (known finding of C01,
    // class obb-coordinate-overflow: the inertia matrix becomes infinite)
    let rib = !big && r.chance(1, 4) && !pts.iter().any(|p| p.iter().any(|x| x.abs() >= 1e150));
    let mut plen = n;
    let mut ws = ws;
    if !big && r.chance(1, 30) {
        // malformed stream (C20 clause): lengths differ
        match r.below(3) {
            0 => plen = n + 1 + r.below(2) as usize,
            1 => plen = n.saturating_sub(1),
            _ => ws.push(1),
        }
    }
    let wf64 = r.chance(1, 6);
    Case {
        family: format!(
            "{}{}{}",
            if rib { "rib:" } else { "" },
            pname,
            if arb && fam < 7 { "/arb" } else { "" }
        ),
        rib,
        d,
        k,
        tol,
        pts,
        ws,
        plen,
        wf64,
    }
}

/// Large structured inputs (n >= 8192: rayon splits the fold of the root node into chunks of
/// >= 4096): every chunk looks partitioned / holds a candidate on its own, the node as a whole
/// does not.  `seq`: running number of the structured case (selects pattern, size, depth).
pub fn gen_big_structured(r: &mut Rng, seq: usize) -> Case {
    let n = [8192usize, 16384, 8193, 12000, 20000][seq % 5];
    let pat = seq % 6;
    let k = 1 + seq % 3;
    let d = 2 + (seq / 6) % 2;
    let m = (n + 1) / 2;
    let x_of = |i: usize| -> f64 {
        match pat {
            0 => (i % m) as f64,              // the sorted list given twice
            1 => (i % 4096) as f64,           // rows of 4096 listed left to right
            2 => {
                // outer quarters of the x range in the first half of the array, inner in the second
                let q = n / 4;
                if i < n / 2 {
                    if i < q { i as f64 } else { (i + n / 2) as f64 }
                } else {
                    (i - n / 2 + q) as f64
                }
            }
            3 => i as f64,                    // strictly increasing
            4 => (n - i) as f64,              // strictly decreasing
            _ => ((i % m) / 3) as f64,        // sorted with duplicates, given twice
        }
    };
    let name = ["sorted_twice", "rows_of_4096", "outer_then_inner", "increasing", "decreasing", "sorted_dups_twice"][pat];
    let pts: Vec<Vec<f64>> = (0..n)
        .map(|i| {
            (0..d)
                .map(|j| match j {
                    0 => x_of(i),
                    1 => if pat == 1 { (i / 4096) as f64 } else { (i % 7) as f64 },
                    _ => (i % 3) as f64,
                })
                .collect()
        })
        .collect();
    let ws: Vec<i64> = if seq % 4 == 3 { (0..n).map(|_| r.range(1, 3)).collect() } else { vec![1; n] };
    Case {
        family: format!("big:{}", name),
        rib: false,
        d,
        k,
        tol: if seq % 2 == 0 { 0.05 } else { 0.0 },
        pts,
        ws,
        plen: n,
        wf64: false,
    }
}

pub struct Outcome {
    pub res: Guarded<Result<Vec<usize>, coupe::Error>>,
    /// the points the model must be run on (Rib: the recorded rotated points)
    pub model_pts: Vec<Vec<f64>>,
    pub pool: usize,
    /// number of pool sizes whose result differed from the first one
    pub pool_diffs: usize,
    pub runs: usize,
}

fn same(a: &Guarded<Result<Vec<usize>, coupe::Error>>, b: &Guarded<Result<Vec<usize>, coupe::Error>>) -> bool {
    json_impl_partition(a) == json_impl_partition(b)
}

macro_rules! run_once_impl {
    ($name:ident, $d:expr) => {
fn $name(c: &Case, pool: usize) -> (Guarded<Result<Vec<usize>, coupe::Error>>, Vec<Vec<f64>>) {
    let pts: Vec<SVector<f64, $d>> = c.pts.iter().map(|p| SVector::<f64, $d>::from_iterator(p.iter().cloned())).collect();
    let ws = c.ws.clone();
    let (k, tol, plen, rib, wf64) = (c.k, c.tol, c.plen, c.rib, c.wf64);
    if rib {
        coupe::verif::drain();
        coupe::verif::trace_enable(true);
    }
    let res = guarded(pool, Duration::from_secs(30), move || {
        let mut p = vec![usize::MAX; plen];
        let r = if rib {
            let mut a = coupe::Rib { iter_count: k, tolerance: tol };
            if wf64 {
                a.partition(&mut p, (&pts[..], ws.iter().map(|w| *w as f64).collect::<Vec<f64>>()))
            } else {
                a.partition(&mut p, (&pts[..], ws))
            }
        } else {
            let mut a = coupe::Rcb { iter_count: k, tolerance: tol };
            if wf64 {
                a.partition(&mut p, (pts, ws.iter().map(|w| *w as f64).collect::<Vec<f64>>()))
            } else {
                a.partition(&mut p, (pts, ws))
            }
        };
        r.map(|()| p)
    });
    let mut model_pts = c.pts.clone();
    if rib {
        coupe::verif::trace_enable(false);
        let rec = coupe::verif::drain();
        if let Some((_, data)) = rec.iter().find(|(kind, _)| *kind == "rib_points") {
            model_pts = data.chunks($d).map(|ch| ch.iter().map(|b| f64::from_bits(*b)).collect()).collect();
        }
    }
    (res, model_pts)
}

    };
}
run_once_impl!(run_once_2, 2);
run_once_impl!(run_once_3, 3);

/// Rcb: every pool size (two for the big inputs); the reported result is the
/// first one that differs from the 1-thread result, if any.  Rib: one pool
/// size per case (the rotated points are per run).
pub fn run_case(c: &Case, idx: usize) -> Outcome {
    let go = |pool: usize| if c.d == 2 { run_once_2(c, pool) } else { run_once_3(c, pool) };
    if c.rib {
        let pool = POOLS[idx % POOLS.len()];
        let (res, model_pts) = go(pool);
        return Outcome { res, model_pts, pool, pool_diffs: 0, runs: 1 };
    }
    // big inputs: two pool sizes; every 4th small case: all six; otherwise 1 thread + two rotating sizes
    let pools: Vec<usize> = if c.pts.len() >= 4096 {
        vec![1, 2, 4, 16]
    } else if idx % 4 == 0 {
        POOLS.to_vec()
    } else {
        vec![1, POOLS[1 + idx % 5], POOLS[1 + (idx / 5 + 2) % 5]]
    };
    let (first, model_pts) = go(pools[0]);
    let mut out = Outcome { res: first, model_pts, pool: pools[0], pool_diffs: 0, runs: 1 };
    let mut chosen: Option<(Guarded<Result<Vec<usize>, coupe::Error>>, usize)> = None;
    for &p in &pools[1..] {
        let (r, _) = go(p);
        out.runs += 1;
        if !same(&r, &out.res) {
            out.pool_diffs += 1;
            if chosen.is_none() {
                chosen = Some((r, p));
            }
        }
    }
    if let Some((r, p)) = chosen {
        out.res = r;
        out.pool = p;
    }
    out
}

// ------------------------------------------------ known-finding classes (input only)

fn ulp32(x: f32) -> f64 {
    // spacing of binary32 at |x| (x finite)
    let a = x.abs();
    if a < f32::MIN_POSITIVE {
        return 2f64.powi(-149);
    }
    let e = ((a.to_bits() >> 23) & 0xff) as i32 - 127;
    2f64.powi(e - 23)
}

/// Float-edge class of the input (the three C04 defects repaired by 241da30,
/// a287019, 6449881 lived here), decided from the points the search runs on
/// (f32 images); informational: recorded in the case JSON and counted.
pub fn kf_class(pts: &[Vec<f64>], d: usize) -> Option<&'static str> {
    let mut tie = false;
    let mut adj = false;
    for a in 0..d {
        let mut col: Vec<f32> = pts.iter().map(|p| p[a] as f32).collect();
        if col.iter().any(|x| x.is_finite() && x.abs() > f32::MAX / 2.0) {
            return Some("rcb-midpoint-overflow");
        }
        if col.iter().any(|x| !x.is_finite()) {
            continue;
        }
        col.sort_by(|x, y| x.partial_cmp(y).unwrap());
        col.dedup_by(|x, y| *x == *y);
        if col.is_empty() {
            continue;
        }
        let lo = col[0];
        for w in col.windows(2) {
            let (x, y) = (w[0], w[1]);
            if next_up32(x) == y {
                adj = true;
            }
            if (y as f64 - x as f64) <= ulp32(y - lo) {
                tie = true;
            }
        }
    }
    if adj {
        Some("rcb-adjacent-floats")
    } else if tie {
        Some("rcb-dist-tie")
    } else {
        None
    }
}

// ------------------------------------------------ writers

/// One f64 as the Coq term `Cz m e` (= m * 2^e, small odd m: cheap to parse) or `Cb bits`.
pub fn coq_coord(x: f64) -> String {
    let bits = x.to_bits();
    if x == 0.0 && bits == 0 {
        return "Cz 0 0".to_string();
    }
    if x.is_finite() && x != 0.0 {
        let e_raw = ((bits >> 52) & 0x7ff) as i64;
        let frac = bits & ((1u64 << 52) - 1);
        let (mut m, mut e) = if e_raw == 0 { (frac, -1074i64) } else { (frac | (1u64 << 52), e_raw - 1075) };
        let tz = m.trailing_zeros() as i64;
        m >>= tz;
        e += tz;
        if m < (1u64 << 31) {
            let sm = if x < 0.0 { format!("(-{})", m) } else { m.to_string() };
            let se = if e < 0 { format!("({})", e) } else { e.to_string() };
            return format!("Cz {} {}", sm, se);
        }
    }
    format!("Cb {}", bits)
}

pub fn coq_points(pts: &[Vec<f64>]) -> String {
    let v: Vec<String> = pts
        .iter()
        .map(|p| format!("[{}]", p.iter().map(|x| coq_coord(*x)).collect::<Vec<_>>().join(";")))
        .collect();
    format!("[{}]", v.join(";"))
}

pub fn coq_case(c: &Case, o: &Outcome) -> String {
    format!(
        "mkR {} {}%nat {}%nat {}%N {} {} {}%nat {}",
        if c.rib { "true" } else { "false" },
        c.d,
        c.k,
        c.tol.to_bits(),
        coq_points(&o.model_pts),
        coq_zlist(c.ws.iter().map(|x| *x as i128)),
        c.plen,
        coq_impl_partition(&o.res)
    )
}

pub fn json_case(c: &Case, o: &Outcome, kf: Option<&str>) -> String {
    let show = |pts: &[Vec<f64>]| {
        let v: Vec<String> = pts
            .iter()
            .take(64)
            .map(|p| format!("[{}]", p.iter().map(|x| format!("{:e}", x)).collect::<Vec<_>>().join(",")))
            .collect();
        format!("[{}]", v.join(","))
    };
    let mut s = format!(
        "{{\"alg\":\"{}\",\"dim\":{},\"iter_count\":{},\"tolerance\":{},\"n\":{},\"points\":{},\"weights\":{},\"weights_as_f64\":{},\"partition_len\":{},\"pool\":{},\"pool_diffs\":{},\"impl\":{}",
        if c.rib { "Rib" } else { "Rcb" },
        c.d,
        c.k,
        c.tol,
        c.pts.len(),
        show(&c.pts),
        json_i64s(&c.ws[..c.ws.len().min(64)]),
        c.wf64,
        c.plen,
        o.pool,
        o.pool_diffs,
        if c.pts.len() > 64 { "\"(long)\"".to_string() } else { json_impl_partition(&o.res) }
    );
    if c.rib {
        s.push_str(&format!(",\"rotated_points\":{}", show(&o.model_pts)));
    }
    if let Some(k) = kf {
        s.push_str(&format!(",\"edge_class\":\"{}\"", k));
    }
    s.push('}');
    s
}

pub fn key_of(c: &Case) -> String {
    format!(
        "{}|{}|{}|{}|{:?}|{:?}|{}",
        c.rib,
        c.d,
        c.k,
        c.tol.to_bits(),
        c.pts.iter().map(|p| p.iter().map(|x| x.to_bits()).collect::<Vec<_>>()).collect::<Vec<_>>(),
        c.ws,
        c.plen
    )
}

/// Driver shared by the two binaries.
pub fn drive(c04: bool, header: &str, run_fn: &str) {
    let a = parse_args();
    quiet_panics();
    let mut rng = Rng::new(a.seed);
    let mut w = CaseWriter::new(&a.out, header, "caseR", run_fn, 125);
    let (mut hangs, mut panics, mut pool_diffs, mut runs, mut kf_cases, mut bigs) = (0usize, 0usize, 0usize, 0usize, 0usize, 0usize);
    for idx in 0..a.cases {
        let mut r = rng.fork();
        // stateless placement (replayable with --only): a structured large input every 250 cases
        // (at most one per shard of 125), a large input of a random family every 750
        let c = if idx % 250 == 60 {
            gen_big_structured(&mut r, idx / 250)
        } else {
            gen_case(&mut r, &a.tier, c04, idx % 750 == 400)
        };
        if let Some(o) = a.only {
            if o != idx {
                continue;
            }
        }
        if c.pts.len() >= 4096 {
            bigs += 1;
        }
        let o = run_case(&c, idx);
        match &o.res {
            Guarded::Hang => hangs += 1,
            Guarded::Panic(_) => panics += 1,
            _ => {}
        }
        pool_diffs += o.pool_diffs;
        runs += o.runs;
        let wellformed = c.plen == c.pts.len() && c.ws.len() == c.pts.len();
        let kf = if wellformed { kf_class(&o.model_pts, c.d) } else { None };
        if kf.is_some() {
            kf_cases += 1;
        }
        // non-trivial: a real bisection happens (>= 3 points, iter_count >= 1, well-formed)
        let nontrivial = wellformed && c.pts.len() >= 3 && c.k >= 1;
        w.push(coq_case(&c, &o), json_case(&c, &o, kf), &key_of(&c), nontrivial, &c.family);
        if hangs > 3 {
            break;
        }
    }
    w.finish(&format!(
        "\"hangs\":{},\"panics\":{},\"pool_diffs\":{},\"implementation_runs\":{},\"float_edge_cases\":{},\"big_cases\":{}",
        hangs, panics, pool_diffs, runs, kf_cases, bigs
    ));
}

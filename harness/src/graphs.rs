//! Graph and partition generators shared by the graph properties (C07, C15):
//! adjacency as sorted rows of (neighbour, weight), built into a CSR matrix
//! with `CsMat::new` (so that trailing isolated vertices have a row).
#![allow(dead_code)]
use verif_harness::Rng;

pub type Adj = Vec<Vec<(usize, i64)>>;

fn add_edge(a: &mut Adj, u: usize, v: usize, w: i64) {
    if u == v {
        return;
    }
    if a[u].iter().any(|(x, _)| *x == v) {
        return;
    }
    a[u].push((v, w));
    a[v].push((u, w));
}

fn sort_rows(a: &mut Adj) {
    for r in a.iter_mut() {
        r.sort();
    }
}

fn edge_w(r: &mut Rng, wmode: u64) -> i64 {
    match wmode {
        0 => 1,
        1 => r.range(1, 3),
        _ => r.range(1, 9),
    }
}

/// A symmetric graph without self-loops, positive integer weights.
/// Returns (family name, adjacency).
pub fn gen_graph(r: &mut Rng, big: bool) -> (&'static str, Adj) {
    let wmode = r.below(3);
    let fam = r.below(9);
    let nmax = if big { 14 } else { 10 };
    let (name, mut a): (&'static str, Adj) = match fam {
        0 => {
            // random symmetric, density varies
            let n = r.range(2, nmax) as usize;
            let mut a = vec![Vec::new(); n];
            let den = r.range(1, 4) as u64;
            for u in 0..n {
                for v in 0..u {
                    if r.chance(den, 5) {
                        let w = edge_w(r, wmode);
                        add_edge(&mut a, u, v, w);
                    }
                }
            }
            ("random", a)
        }
        1 => {
            let nx = r.range(1, 4) as usize;
            let ny = r.range(2, if big { 5 } else { 4 }) as usize;
            let n = nx * ny;
            let mut a = vec![Vec::new(); n];
            for y in 0..ny {
                for x in 0..nx {
                    let i = y * nx + x;
                    if x + 1 < nx {
                        let w = edge_w(r, wmode);
                        add_edge(&mut a, i, i + 1, w);
                    }
                    if y + 1 < ny {
                        let w = edge_w(r, wmode);
                        add_edge(&mut a, i, i + nx, w);
                    }
                }
            }
            ("grid", a)
        }
        2 => {
            let n = r.range(2, nmax + 2) as usize;
            let mut a = vec![Vec::new(); n];
            for i in 0..n - 1 {
                let w = edge_w(r, wmode);
                add_edge(&mut a, i, i + 1, w);
            }
            ("path", a)
        }
        3 => {
            let n = r.range(3, nmax) as usize;
            let c = r.below(n as u64) as usize;
            let mut a = vec![Vec::new(); n];
            for i in 0..n {
                let w = edge_w(r, wmode);
                add_edge(&mut a, c, i, w);
            }
            ("star", a)
        }
        4 => {
            // two or three components
            let n = r.range(4, nmax + 2) as usize;
            let k = r.range(2, 3) as usize;
            let mut a = vec![Vec::new(); n];
            for u in 0..n {
                for v in 0..u {
                    if u % k == v % k && r.chance(3, 5) {
                        let w = edge_w(r, wmode);
                        add_edge(&mut a, u, v, w);
                    }
                }
            }
            ("disconnected", a)
        }
        5 => {
            // isolated vertices, including trailing ones
            let n = r.range(3, nmax) as usize;
            let m = r.range(1, n as i64 - 1) as usize;
            let mut a = vec![Vec::new(); n];
            for u in 0..m {
                for v in 0..u {
                    if r.chance(1, 2) {
                        let w = edge_w(r, wmode);
                        add_edge(&mut a, u, v, w);
                    }
                }
            }
            ("isolated", a)
        }
        6 => {
            let n = r.range(2, 7) as usize;
            let mut a = vec![Vec::new(); n];
            for u in 0..n {
                for v in 0..u {
                    let w = edge_w(r, wmode);
                    add_edge(&mut a, u, v, w);
                }
            }
            ("complete", a)
        }
        7 => {
            // cycle
            let n = r.range(3, nmax + 2) as usize;
            let mut a = vec![Vec::new(); n];
            for i in 0..n {
                let w = edge_w(r, wmode);
                add_edge(&mut a, i, (i + 1) % n, w);
            }
            ("cycle", a)
        }
        _ => {
            // no edge at all / tiny / empty
            let n = r.range(0, 4) as usize;
            let mut a = vec![Vec::new(); n];
            if n >= 2 && r.chance(1, 2) {
                add_edge(&mut a, 0, 1, 1);
            }
            ("tiny", a)
        }
    };
    sort_rows(&mut a);
    (name, a)
}

/// Brute-force edge cut (each undirected edge once).
pub fn cut_of(a: &Adj, p: &[usize]) -> i64 {
    let mut c = 0;
    for (v, row) in a.iter().enumerate() {
        for (u, w) in row {
            if *u < v && p[*u] != p[v] {
                c += *w;
            }
        }
    }
    c
}

/// Two-way partition with ids (a, b); returns (family, ids).
pub fn gen_partition(r: &mut Rng, adj: &Adj, ida: usize, idb: usize) -> (&'static str, Vec<usize>) {
    let n = adj.len();
    let pick = |b: bool| if b { idb } else { ida };
    if n == 0 {
        return ("empty", Vec::new());
    }
    match r.below(7) {
        6 => ("one_sided", vec![if r.chance(1, 2) { ida } else { idb }; n]),
        0 => {
            // balanced, random positions
            let mut idx: Vec<usize> = (0..n).collect();
            for i in (1..n).rev() {
                let j = r.below(i as u64 + 1) as usize;
                idx.swap(i, j);
            }
            let mut p = vec![ida; n];
            for k in 0..n / 2 {
                p[idx[k]] = idb;
            }
            ("balanced", p)
        }
        1 => ("random", (0..n).map(|_| pick(r.chance(1, 2))).collect()),
        2 => {
            // unbalanced: few vertices on one side
            let k = r.range(1, 2) as usize;
            let mut p = vec![ida; n];
            for _ in 0..k {
                let i = r.below(n as u64) as usize;
                p[i] = idb;
            }
            ("unbalanced", p)
        }
        3 => {
            // contiguous halves (locally optimal on paths and grids)
            let h = (n + 1) / 2;
            ("halves", (0..n).map(|i| pick(i >= h)).collect())
        }
        4 => {
            // locally optimal for single moves: greedy descent from a random start
            let mut p: Vec<usize> = (0..n).map(|_| pick(r.chance(1, 2))).collect();
            loop {
                let mut improved = false;
                for v in 0..n {
                    let c0 = cut_of(adj, &p);
                    let old = p[v];
                    p[v] = if old == ida { idb } else { ida };
                    if cut_of(adj, &p) < c0 {
                        improved = true;
                    } else {
                        p[v] = old;
                    }
                }
                if !improved {
                    break;
                }
            }
            ("local_opt", p)
        }
        _ => ("alternating", (0..n).map(|i| pick(i % 2 == 1)).collect()),
    }
}

/// CSR arrays of the adjacency (rows in the given order).
pub fn csr(a: &Adj) -> (Vec<usize>, Vec<usize>, Vec<i64>) {
    let mut indptr = vec![0usize];
    let mut indices = Vec::new();
    let mut data = Vec::new();
    for row in a {
        for (u, w) in row {
            indices.push(*u);
            data.push(*w);
        }
        indptr.push(indices.len());
    }
    (indptr, indices, data)
}

pub fn coq_graph(a: &Adj) -> String {
    let rows: Vec<String> = a
        .iter()
        .map(|row| {
            let es: Vec<String> = row
                .iter()
                .map(|(u, w)| format!("({}%nat,{}%Z)", u, verif_harness::coq_z(*w as i128)))
                .collect();
            format!("[{}]", es.join(";"))
        })
        .collect();
    format!("[{}]", rows.join(";"))
}

pub fn json_graph(a: &Adj) -> String {
    let rows: Vec<String> = a
        .iter()
        .map(|row| {
            let es: Vec<String> = row.iter().map(|(u, w)| format!("[{},{}]", u, w)).collect();
            format!("[{}]", es.join(","))
        })
        .collect();
    format!("[{}]", rows.join(","))
}

pub fn coq_opt_n(x: Option<usize>) -> String {
    match x {
        Some(v) => format!("(Some {}%N)", v),
        None => "None".to_string(),
    }
}
pub fn json_opt(x: Option<usize>) -> String {
    match x {
        Some(v) => v.to_string(),
        None => "null".to_string(),
    }
}

//! Shared input generators (point sets, weights, graphs, partitions).
//! Pulled into the binaries with `#[path = "../gen.rs"] mod gen;`.
#![allow(dead_code)]
use verif_harness::Rng;

/// Families of point sets (DESIGN §4). Coordinates are integers (or dyadic
/// fractions) in the first six families so that sums are exact.
pub fn points(r: &mut Rng, n: usize, d: usize) -> (&'static str, Vec<Vec<f64>>) {
    let fam = r.below(8);
    let mut pts: Vec<Vec<f64>> = Vec::with_capacity(n);
    let name = match fam {
        0 => {
            for _ in 0..n {
                pts.push((0..d).map(|_| r.range(0, 99) as f64).collect());
            }
            "uniform_int"
        }
        1 => {
            let k = 1 + r.below(3) as usize;
            let centres: Vec<Vec<i64>> = (0..k)
                .map(|_| (0..d).map(|_| r.range(-1000, 1000)).collect())
                .collect();
            for _ in 0..n {
                let c = &centres[r.below(k as u64) as usize];
                pts.push((0..d).map(|j| (c[j] + r.range(-3, 3)) as f64).collect());
            }
            "clustered"
        }
        2 => {
            let axis = r.below(d as u64) as usize;
            let fixed: Vec<i64> = (0..d).map(|_| r.range(-5, 5)).collect();
            for _ in 0..n {
                let t = r.range(0, 50);
                pts.push(
                    (0..d)
                        .map(|j| if j == axis { t as f64 } else { fixed[j] as f64 })
                        .collect(),
                );
            }
            "collinear"
        }
        3 => {
            let p: Vec<f64> = (0..d).map(|_| r.range(-9, 9) as f64).collect();
            for _ in 0..n {
                pts.push(p.clone());
            }
            "coincident"
        }
        4 => {
            let side = 1 + r.below(5) as i64;
            for i in 0..n as i64 {
                pts.push(
                    (0..d)
                        .map(|j| ((i / side.pow(j as u32)) % side) as f64)
                        .collect(),
                );
            }
            "lattice"
        }
        5 => {
            for i in 0..n {
                if i == 0 {
                    pts.push((0..d).map(|_| r.range(5000, 9000) as f64).collect());
                } else {
                    pts.push((0..d).map(|_| r.range(0, 9) as f64).collect());
                }
            }
            "one_outlier"
        }
        6 => {
            // duplicates of a few distinct points
            let k = 1 + r.below(4) as usize;
            let base: Vec<Vec<f64>> = (0..k)
                .map(|_| (0..d).map(|_| r.range(0, 20) as f64).collect())
                .collect();
            for _ in 0..n {
                pts.push(base[r.below(k as u64) as usize].clone());
            }
            "duplicates"
        }
        _ => {
            // arbitrary finite f64 (mixed magnitudes)
            for _ in 0..n {
                pts.push(
                    (0..d)
                        .map(|_| {
                            let m = r.range(-1_000_000, 1_000_000) as f64;
                            let e = r.range(-20, 20);
                            m * (2f64).powi(e as i32)
                        })
                        .collect(),
                );
            }
            "arbitrary_f64"
        }
    };
    (name, pts)
}

/// Non-negative integer weights with positive total (when n > 0).
pub fn weights(r: &mut Rng, n: usize) -> (&'static str, Vec<i64>) {
    if n == 0 {
        return ("empty", vec![]);
    }
    let fam = r.below(6);
    let (name, mut w): (&'static str, Vec<i64>) = match fam {
        0 => ("uniform", vec![1; n]),
        1 => ("random", (0..n).map(|_| r.range(1, 20)).collect()),
        2 => ("with_zeros", (0..n).map(|_| if r.chance(1, 2) { 0 } else { r.range(1, 9) }).collect()),
        3 => {
            let mut w: Vec<i64> = (0..n).map(|_| r.range(1, 3)).collect();
            let i = r.below(n as u64) as usize;
            w[i] = r.range(100, 1000);
            ("one_heavy", w)
        }
        4 => ("skewed", (0..n).map(|i| 1 + (i as i64 * i as i64) % 37).collect()),
        _ => {
            let v = r.range(1, 5);
            ("ties", (0..n).map(|_| if r.chance(2, 3) { v } else { r.range(1, 5) }).collect())
        }
    };
    if w.iter().sum::<i64>() == 0 {
        w[0] = 1;
    }
    (name, w)
}

/// Symmetric graph as CSR (indptr, indices, data) with positive integer edge
/// weights, no self loops, sorted rows.
pub fn graph(r: &mut Rng, n: usize) -> (&'static str, Vec<usize>, Vec<usize>, Vec<i64>) {
    let fam = r.below(6);
    let mut rows: Vec<Vec<(usize, i64)>> = vec![vec![]; n];
    let mut add = |rows: &mut Vec<Vec<(usize, i64)>>, a: usize, b: usize, w: i64| {
        if a != b && !rows[a].iter().any(|(j, _)| *j == b) {
            rows[a].push((b, w));
            rows[b].push((a, w));
        }
    };
    let name = match fam {
        0 => {
            let dens = 20 + r.below(50);
            for a in 0..n {
                for b in 0..a {
                    if r.below(100) < dens {
                        let w = r.range(1, 4);
                        add(&mut rows, a, b, w);
                    }
                }
            }
            "random"
        }
        1 => {
            let wdt = 1 + r.below(4) as usize;
            for a in 0..n {
                if (a + 1) % wdt != 0 && a + 1 < n {
                    add(&mut rows, a, a + 1, 1);
                }
                if a + wdt < n {
                    add(&mut rows, a, a + wdt, 1);
                }
            }
            "grid"
        }
        2 => {
            for a in 1..n {
                let w = r.range(1, 3);
                add(&mut rows, a - 1, a, w);
            }
            "path"
        }
        3 => {
            for a in 1..n {
                add(&mut rows, 0, a, 1);
            }
            "star"
        }
        4 => {
            // two components + isolated vertices
            let h = n / 2;
            for a in 1..h {
                add(&mut rows, a - 1, a, r.range(1, 3));
            }
            for a in h + 2..n {
                add(&mut rows, a - 1, a, r.range(1, 3));
            }
            "disconnected"
        }
        _ => {
            for a in 0..n {
                add(&mut rows, a, (a + 1) % n.max(1), r.range(1, 5));
            }
            "cycle"
        }
    };
    let mut indptr = vec![0usize];
    let mut indices = vec![];
    let mut data = vec![];
    for row in rows.iter_mut() {
        row.sort();
        for (j, w) in row.iter() {
            indices.push(*j);
            data.push(*w);
        }
        indptr.push(indices.len());
    }
    (name, indptr, indices, data)
}

/// A valid partition: every id from 0 to the maximum is used (when n >= k).
pub fn valid_partition(r: &mut Rng, n: usize, k: usize) -> Vec<usize> {
    let k = k.max(1).min(n.max(1));
    let mut p: Vec<usize> = (0..n).map(|_| r.below(k as u64) as usize).collect();
    // make sure every id is used
    for id in 0..k.min(n) {
        if !p.contains(&id) {
            // overwrite a position whose id occurs at least twice
            for i in 0..n {
                let c = p.iter().filter(|x| **x == p[i]).count();
                if c > 1 {
                    p[i] = id;
                    break;
                }
            }
        }
    }
    p
}

pub fn json_points(pts: &[Vec<f64>]) -> String {
    let v: Vec<String> = pts
        .iter()
        .map(|p| {
            let c: Vec<String> = p.iter().map(|x| format!("{:?}", x)).collect();
            format!("[{}]", c.join(","))
        })
        .collect();
    format!("[{}]", v.join(","))
}

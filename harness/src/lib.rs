//! Common parts of the correspondence harness: PRNG, Coq term writers,
//! guarded execution (catch_unwind + watchdog), rayon pools, case files.
use std::fmt::Write as _;
use std::io::Write as _;
use std::panic::{catch_unwind, AssertUnwindSafe};
use std::sync::mpsc;
use std::time::Duration;

/// xorshift64* — every random choice of a run derives from one state.
#[derive(Clone)]
pub struct Rng(pub u64);
impl Rng {
    pub fn new(seed: u64) -> Rng {
        let mut r = Rng(seed ^ 0x9E37_79B9_7F4A_7C15);
        if r.0 == 0 {
            r.0 = 0x2545_F491_4F6C_DD1D;
        }
        for _ in 0..4 {
            r.next();
        }
        r
    }
    pub fn next(&mut self) -> u64 {
        let mut x = self.0;
        x ^= x >> 12;
        x ^= x << 25;
        x ^= x >> 27;
        self.0 = x;
        x.wrapping_mul(0x2545_F491_4F6C_DD1D)
    }
    /// uniform in 0..n (n > 0)
    pub fn below(&mut self, n: u64) -> u64 {
        self.next() % n
    }
    pub fn range(&mut self, lo: i64, hi: i64) -> i64 {
        lo + (self.next() % ((hi - lo + 1) as u64)) as i64
    }
    pub fn chance(&mut self, num: u64, den: u64) -> bool {
        self.below(den) < num
    }
    pub fn pick<'a, T>(&mut self, xs: &'a [T]) -> &'a T {
        &xs[self.below(xs.len() as u64) as usize]
    }
    pub fn fork(&mut self) -> Rng {
        Rng::new(self.next())
    }
}

/// Outcome of running the implementation under catch_unwind and a watchdog.
pub enum Guarded<T> {
    Done(T),
    Panic(String),
    Hang,
}

/// Install a silent panic hook (backtraces make panicking runs ~20x slower).
pub fn quiet_panics() {
    std::panic::set_hook(Box::new(|_| {}));
}

/// Run `f` in a fresh thread inside a rayon pool of `threads` workers
/// (0 = no dedicated pool), give up after `timeout`.
/// A hung run leaks its thread (and pool); callers count hangs and stop early.
pub fn guarded<T: Send + 'static>(
    threads: usize,
    timeout: Duration,
    f: impl FnOnce() -> T + Send + 'static,
) -> Guarded<T> {
    let (tx, rx) = mpsc::channel();
    std::thread::Builder::new()
        .stack_size(64 << 20)
        .spawn(move || {
            let r = catch_unwind(AssertUnwindSafe(|| {
                if threads == 0 {
                    f()
                } else {
                    let pool = coupe::rayon::ThreadPoolBuilder::new()
                        .num_threads(threads)
                        .build()
                        .unwrap();
                    pool.install(f)
                }
            }));
            let _ = tx.send(match r {
                Ok(v) => Guarded::Done(v),
                Err(e) => {
                    let msg = if let Some(s) = e.downcast_ref::<&str>() {
                        s.to_string()
                    } else if let Some(s) = e.downcast_ref::<String>() {
                        s.clone()
                    } else {
                        "panic".to_string()
                    };
                    Guarded::Panic(msg)
                }
            });
        })
        .unwrap();
    match rx.recv_timeout(timeout) {
        Ok(g) => g,
        Err(_) => Guarded::Hang,
    }
}

// ---------------------------------------------------------------- Coq terms

pub fn coq_z(x: i128) -> String {
    if x < 0 {
        format!("({})", x)
    } else {
        format!("{}", x)
    }
}
pub fn coq_zlist<I: IntoIterator<Item = i128>>(xs: I) -> String {
    let v: Vec<String> = xs.into_iter().map(coq_z).collect();
    format!("[{}]%Z", v.join(";"))
}
pub fn coq_nlist<I: IntoIterator<Item = u128>>(xs: I) -> String {
    let v: Vec<String> = xs.into_iter().map(|x| x.to_string()).collect();
    format!("[{}]%N", v.join(";"))
}
pub fn coq_natlist<I: IntoIterator<Item = usize>>(xs: I) -> String {
    let v: Vec<String> = xs.into_iter().map(|x| x.to_string()).collect();
    format!("[{}]%nat", v.join(";"))
}
pub fn coq_bool(b: bool) -> &'static str {
    if b {
        "true"
    } else {
        "false"
    }
}

/// The implementation's observable result of a partition call, as the Coq
/// constructor `IOk ids | IErr code a b | IPanic | IHang` (Lib/Report.v).
pub fn coq_impl_partition(r: &Guarded<Result<Vec<usize>, coupe::Error>>) -> String {
    match r {
        Guarded::Done(Ok(p)) => format!("(IOk {})", coq_nlist(p.iter().map(|x| *x as u128))),
        Guarded::Done(Err(e)) => coq_err(e),
        Guarded::Panic(_) => "IPanic".to_string(),
        Guarded::Hang => "IHang".to_string(),
    }
}
pub fn coq_err(e: &coupe::Error) -> String {
    match e {
        coupe::Error::NotFound => "(IErr 0 0 0)".to_string(),
        coupe::Error::InputLenMismatch { expected, actual } => {
            format!("(IErr 1 {} {})", expected, actual)
        }
        coupe::Error::NegativeValues => "(IErr 2 0 0)".to_string(),
        coupe::Error::BiPartitioningOnly => "(IErr 3 0 0)".to_string(),
        _ => "(IErr 99 0 0)".to_string(),
    }
}

// ---------------------------------------------------------------- case files

/// Writes the sharded `cases_<k>.v` files plus `cases.jsonl` (one JSON object
/// per case, for replays and evidence samples) and `meta.json`.
pub struct CaseWriter {
    dir: String,
    header: String,
    case_ty: String,
    run_fn: String,
    per_shard: usize,
    cur: Vec<String>,
    shard: usize,
    pub total: usize,
    jsonl: std::fs::File,
    distinct: std::collections::HashSet<u64>,
    pub nontrivial_distinct: usize,
    pub dist: std::collections::BTreeMap<String, usize>,
}

impl CaseWriter {
    /// `header`: the `From Coupe Require Import ...` line(s); `case_ty`: Coq
    /// type of one case; `run_fn`: Coq function `list case -> report`.
    pub fn new(dir: &str, header: &str, case_ty: &str, run_fn: &str, per_shard: usize) -> Self {
        std::fs::create_dir_all(dir).unwrap();
        // remove stale shards
        for e in std::fs::read_dir(dir).unwrap().flatten() {
            let n = e.file_name().to_string_lossy().to_string();
            if n.starts_with("cases_") || n == "cases.jsonl" || n == "meta.json" {
                let _ = std::fs::remove_file(e.path());
            }
        }
        CaseWriter {
            dir: dir.to_string(),
            header: header.to_string(),
            case_ty: case_ty.to_string(),
            run_fn: run_fn.to_string(),
            per_shard,
            cur: Vec::new(),
            shard: 0,
            total: 0,
            jsonl: std::fs::File::create(format!("{dir}/cases.jsonl")).unwrap(),
            distinct: Default::default(),
            nontrivial_distinct: 0,
            dist: Default::default(),
        }
    }
    /// `coq`: the case as a Coq term; `json`: the same case as a JSON object
    /// (text); `key`: canonical input text used to count distinct cases;
    /// `nontrivial`: by the property's stated rule; `family`: generator family.
    pub fn push(&mut self, coq: String, json: String, key: &str, nontrivial: bool, family: &str) {
        use std::hash::{Hash, Hasher};
        let mut h = std::collections::hash_map::DefaultHasher::new();
        key.hash(&mut h);
        if self.distinct.insert(h.finish()) && nontrivial {
            self.nontrivial_distinct += 1;
        }
        *self.dist.entry(family.to_string()).or_insert(0) += 1;
        writeln!(
            self.jsonl,
            "{{\"index\":{},\"shard\":{},\"pos\":{},\"family\":\"{}\",\"case\":{}}}",
            self.total,
            self.shard,
            self.cur.len(),
            family,
            json
        )
        .unwrap();
        self.cur.push(coq);
        self.total += 1;
        if self.cur.len() >= self.per_shard {
            self.flush();
        }
    }
    fn flush(&mut self) {
        if self.cur.is_empty() {
            return;
        }
        let mut s = String::new();
        writeln!(s, "{}", self.header).unwrap();
        writeln!(s, "Definition cases : list ({}) := [", self.case_ty).unwrap();
        writeln!(s, "{}", self.cur.join(";\n")).unwrap();
        writeln!(s, "].").unwrap();
        writeln!(s, "Set Printing Width 1000000.").unwrap();
        writeln!(s, "Set Printing Depth 1000000.").unwrap();
        writeln!(s, "Eval vm_compute in ({} cases).", self.run_fn).unwrap();
        std::fs::write(format!("{}/cases_{}.v", self.dir, self.shard), s).unwrap();
        self.cur.clear();
        self.shard += 1;
    }
    /// `extra`: further JSON members (without braces), e.g. `"hangs":0`.
    pub fn finish(mut self, extra: &str) {
        self.flush();
        let dist: Vec<String> = self
            .dist
            .iter()
            .map(|(k, v)| format!("\"{}\":{}", k, v))
            .collect();
        let mut m = format!(
            "{{\"cases\":{},\"shards\":{},\"distinct\":{},\"distinct_nontrivial\":{},\"families\":{{{}}}",
            self.total,
            self.shard,
            self.distinct.len(),
            self.nontrivial_distinct,
            dist.join(",")
        );
        if !extra.is_empty() {
            m.push(',');
            m.push_str(extra);
        }
        m.push('}');
        std::fs::write(format!("{}/meta.json", self.dir), m).unwrap();
        self.jsonl.flush().unwrap();
    }
}

pub fn json_i64s(xs: &[i64]) -> String {
    let v: Vec<String> = xs.iter().map(|x| x.to_string()).collect();
    format!("[{}]", v.join(","))
}
pub fn json_usizes(xs: &[usize]) -> String {
    let v: Vec<String> = xs.iter().map(|x| x.to_string()).collect();
    format!("[{}]", v.join(","))
}
pub fn json_str(s: &str) -> String {
    let mut o = String::from("\"");
    for c in s.chars() {
        match c {
            '"' => o.push_str("\\\""),
            '\\' => o.push_str("\\\\"),
            '\n' => o.push_str("\\n"),
            c if (c as u32) < 0x20 => o.push(' '),
            c => o.push(c),
        }
    }
    o.push('"');
    o
}
pub fn json_impl_partition(r: &Guarded<Result<Vec<usize>, coupe::Error>>) -> String {
    match r {
        Guarded::Done(Ok(p)) => format!("{{\"ok\":{}}}", json_usizes(p)),
        Guarded::Done(Err(e)) => format!("{{\"err\":{}}}", json_str(&format!("{:?}", e))),
        Guarded::Panic(m) => format!("{{\"panic\":{}}}", json_str(m)),
        Guarded::Hang => "{\"hang\":true}".to_string(),
    }
}

/// Common command line: --seed N --cases N --out DIR [--replay FILE] [--threads a,b,c]
pub struct Args {
    pub seed: u64,
    pub cases: usize,
    pub out: String,
    pub replay: Option<String>,
    pub tier: String,
    /// run only the case with this index (replay)
    pub only: Option<usize>,
}
pub fn parse_args() -> Args {
    let mut a = Args {
        seed: 1,
        cases: 100,
        out: ".".into(),
        replay: None,
        tier: "quick".into(),
        only: None,
    };
    let v: Vec<String> = std::env::args().collect();
    let mut i = 1;
    while i < v.len() {
        match v[i].as_str() {
            "--seed" => {
                a.seed = v[i + 1].parse().unwrap();
                i += 2
            }
            "--cases" => {
                a.cases = v[i + 1].parse().unwrap();
                i += 2
            }
            "--out" => {
                a.out = v[i + 1].clone();
                i += 2
            }
            "--replay" => {
                a.replay = Some(v[i + 1].clone());
                i += 2
            }
            "--only" => {
                a.only = Some(v[i + 1].parse().unwrap());
                i += 2
            }
            "--tier" => {
                a.tier = v[i + 1].clone();
                i += 2
            }
            _ => i += 1,
        }
    }
    a
}

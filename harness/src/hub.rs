//! High-valence "hub" graphs with many parts around the hub: the hub of a
//! star / wheel / complete bipartite graph has 9..40 neighbours ("spokes") that
//! lie in 9 or more DISTINCT parts other than its own -- every spoke (or every
//! second spoke) alone in its own part.  Symmetric CSR with positive integer
//! edge weights, no self loops, sorted rows; the partition is valid (every id
//! from 0 to the maximum is used).  Reusable: `#[path = "../hub.rs"] mod hub;`.
use verif_harness::Rng;

pub struct Hub {
    pub name: &'static str,
    pub n: usize,
    pub indptr: Vec<usize>,
    pub indices: Vec<usize>,
    pub data: Vec<i64>,
    pub partition: Vec<usize>,
    /// number of distinct parts
    pub part_count: usize,
}

pub fn hub(r: &mut Rng) -> Hub {
    let shape = r.below(3);
    // every spoke in its own part (9..40 spokes), or every second spoke (18..40 spokes)
    let every_second = r.chance(1, 3);
    let spokes = if every_second { r.range(18, 40) as usize } else { r.range(9, 40) as usize };
    let hubs = if shape == 2 { r.range(2, 3) as usize } else { 1 };
    let n = hubs + spokes;
    let mut rows: Vec<Vec<(usize, i64)>> = vec![Vec::new(); n];
    let mut add = |rows: &mut Vec<Vec<(usize, i64)>>, a: usize, b: usize, w: i64| {
        if a != b && !rows[a].iter().any(|(x, _)| *x == b) {
            rows[a].push((b, w));
            rows[b].push((a, w));
        }
    };
    let heavy = r.chance(1, 4);
    for h in 0..hubs {
        for s in 0..spokes {
            let w = if heavy { r.range(1, 50) } else { r.range(1, 5) };
            add(&mut rows, h, hubs + s, w);
        }
    }
    if shape == 1 {
        // wheel: the spokes form a ring
        for s in 0..spokes {
            let w = r.range(1, 5);
            add(&mut rows, hubs + s, hubs + (s + 1) % spokes, w);
        }
    }
    let name = match (shape, every_second) {
        (0, false) => "hub_star",
        (0, true) => "hub_star_half",
        (1, false) => "hub_wheel",
        (1, true) => "hub_wheel_half",
        (_, false) => "hub_bipartite",
        (_, true) => "hub_bipartite_half",
    };
    // the hub(s) in part 0; own-part spokes get ids 1, 2, ... in order
    let mut partition = vec![0usize; n];
    let mut next = 1;
    for s in 0..spokes {
        if !every_second || s % 2 == 0 {
            partition[hubs + s] = next;
            next += 1;
        }
    }
    let mut indptr = vec![0usize];
    let mut indices = Vec::new();
    let mut data = Vec::new();
    for row in rows.iter_mut() {
        row.sort();
        for (j, w) in row.iter() {
            indices.push(*j);
            data.push(*w);
        }
        indptr.push(indices.len());
    }
    Hub { name, n, indptr, indices, data, partition, part_count: next }
}

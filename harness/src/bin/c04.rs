//! C04: Rcb / Rib vs Model/Rcb.v — same runs as C03 with generators biased
//! towards outliers, clusters and skewed weights; the certified checker
//! `check_balance` judges every bisection of the implementation's partition.
#[path = "../rcb_common.rs"]
mod rcb_common;

fn main() {
    rcb_common::drive(
        true,
        "From Coupe Require Import Lib.Prelude Lib.Report Run.RunC03 Run.RunC04.",
        "run04",
    );
}

//! C02: partition-improving algorithms keep a valid partition valid: no panic,
//! no hang, same length, no id above the largest input id, for every pool size.
use coupe::sprs::CsMat;
use coupe::Partition as _;
use coupe::{Point2D, Point3D};
use std::time::Duration;
use verif_harness::*;

#[path = "../gen.rs"]
mod gen;
#[path = "../hub.rs"]
mod hub;

const POOLS: [usize; 6] = [1, 2, 3, 4, 8, 16];
const ALGS: [&str; 7] = ["vnbest", "vnfirst", "kmeans2", "kmeans3", "fm", "kl", "arcswap"];

fn jo<T: std::fmt::Display>(x: Option<T>) -> String {
    match x {
        Some(v) => v.to_string(),
        None => "null".to_string(),
    }
}

fn main() {
    let a = parse_args();
    quiet_panics();
    let mut rng = Rng::new(a.seed);
    let mut w = CaseWriter::new(
        &a.out,
        "From Coupe Require Import Lib.Prelude Lib.Report Run.RunC02.",
        "case02",
        "run02",
        500,
    );
    let (mut hangs, mut panics) = (0usize, 0usize);
    for idx in 0..a.cases {
        let mut r = rng.fork();
        let alg = ALGS[idx % ALGS.len()];
        let threads = POOLS[r.below(6) as usize];
        let n = match r.below(10) {
            0 => 1,
            1 => 2,
            2 => r.range(25, 50) as usize,
            _ => r.range(2, 20) as usize,
        };
        if let Some(o) = a.only {
            if o != idx {
                continue;
            }
        }
        // hub family: a high-valence vertex on the cut whose 9..40 neighbours lie in 9 or more distinct
        // parts (10..41 parts), for the algorithms that take k-way partitions: about 1 ArcSwap case in 12,
        // and now and then VnBest / VnFirst / KMeans with that many parts
        let hubcase = match alg {
            "arcswap" => r.chance(1, 12),
            "vnbest" | "vnfirst" | "kmeans2" | "kmeans3" => r.chance(1, 40),
            _ => false,
        };
        let hubg = if hubcase { Some(hub::hub(&mut r)) } else { None };
        let n = match &hubg {
            Some(h) => h.n,
            None => n,
        };
        let (wfam, ws) = gen::weights(&mut r, n);
        let two_way = matches!(alg, "fm" | "kl");
        let k = if two_way {
            // KernighanLin on more than two parts is a documented limitation (known finding)
            if alg == "kl" && r.chance(1, 15) { 3 } else if r.chance(1, 12) { 1 } else { 2 }
        } else {
            r.range(1, 8) as usize
        };
        let mut p0 = gen::valid_partition(&mut r, n, k);
        if let Some(h) = &hubg {
            p0 = h.partition.clone();
        }
        // families of initial partitions: one-sided / locally optimal-ish / unbalanced
        if hubg.is_none() && r.chance(1, 6) && n >= 2 && k >= 2 {
            for x in p0.iter_mut().skip(1) {
                *x = 0;
            }
            p0[0] = 1; // all but one element in part 0 (still valid for k = 2)
            if k > 2 {
                p0 = gen::valid_partition(&mut r, n, k);
            }
        }
        let max_id = p0.iter().cloned().max().unwrap_or(0);
        let distinct = {
            let mut d = p0.clone();
            d.sort();
            d.dedup();
            d.len()
        };
        let mut params = String::new();
        let mut input = format!("\"weights\":{},\"partition\":{}", json_i64s(&ws), json_usizes(&p0));
        let mut kf: Option<&str> = None;
        let fam: String;
        type R = Result<Vec<usize>, String>;
        let p0c = p0.clone();
        let run: Box<dyn FnOnce() -> R + Send> = match alg {
            "vnbest" | "vnfirst" => {
                fam = if hubcase { format!("hubparts/{wfam}") } else { wfam.to_string() };
                let fw = r.chance(1, 3);
                params = format!("\"f64_weights\":{fw}");
                let best = alg == "vnbest";
                Box::new(move || {
                    let mut p = p0c;
                    let wf: Vec<f64> = ws.iter().map(|x| *x as f64).collect();
                    let res = match (best, fw) {
                        (true, false) => coupe::VnBest.partition(&mut p, ws.iter().cloned()).map(|_| ()),
                        (true, true) => coupe::VnBest.partition(&mut p, wf.iter().cloned()).map(|_| ()),
                        (false, false) => coupe::VnFirst.partition(&mut p, &ws[..]).map(|_| ()),
                        (false, true) => coupe::VnFirst.partition(&mut p, &wf[..]).map(|_| ()),
                    };
                    res.map_err(|e| format!("{e:?}")).map(|()| p)
                })
            }
            "kmeans2" | "kmeans3" => {
                let d = if alg == "kmeans2" { 2 } else { 3 };
                let (pf, pts) = gen::points(&mut r, n, d);
                fam = if hubcase { format!("hubparts:{pf}/{wfam}") } else { format!("{pf}/{wfam}") };
                let max_iter = *r.pick(&[0usize, 1, 2, 5, 20]);
                let max_balance_iter = *r.pick(&[0usize, 1, 2, 5]);
                let imbalance_tol = *r.pick(&[0.01, 5.0, 50.0]);
                let delta = *r.pick(&[0.0, 0.01, 1.0]);
                params = format!("\"max_iter\":{max_iter},\"max_balance_iter\":{max_balance_iter},\"imbalance_tol\":{imbalance_tol},\"delta_threshold\":{delta}");
                input = format!("{},\"points\":{}", input, gen::json_points(&pts));
                Box::new(move || {
                    let mut p = p0c;
                    let wf: Vec<f64> = ws.iter().map(|x| *x as f64).collect();
                    let mut km = coupe::KMeans {
                        imbalance_tol,
                        delta_threshold: delta,
                        max_iter,
                        max_balance_iter,
                        ..Default::default()
                    };
                    if d == 2 {
                        let pts: Vec<Point2D> = pts.iter().map(|q| Point2D::new(q[0], q[1])).collect();
                        km.partition(&mut p, (&pts[..], &wf[..])).unwrap();
                    } else {
                        let pts: Vec<Point3D> = pts.iter().map(|q| Point3D::new(q[0], q[1], q[2])).collect();
                        km.partition(&mut p, (&pts[..], &wf[..])).unwrap();
                    }
                    Ok(p)
                })
            }
            _ => {
                let (gf, indptr, indices, data) = match hubg {
                    Some(h) => (h.name, h.indptr, h.indices, h.data),
                    None => gen::graph(&mut r, n),
                };
                fam = format!("{gf}/{wfam}");
                input = format!(
                    "{},\"indptr\":{},\"indices\":{},\"edge_weights\":{}",
                    input,
                    json_usizes(&indptr),
                    json_usizes(&indices),
                    json_i64s(&data)
                );
                match alg {
                    "fm" => {
                        let mp = *r.pick(&[None, Some(0usize), Some(1), Some(3)]);
                        let mm = *r.pick(&[None, Some(0usize), Some(2), Some(10)]);
                        let mi = *r.pick(&[None, Some(0.0), Some(0.1), Some(0.5)]);
                        let mb = r.range(0, 3) as usize;
                        params = format!("\"max_passes\":{},\"max_moves_per_pass\":{},\"max_imbalance\":{},\"max_bad_move_in_a_row\":{mb}", jo(mp), jo(mm), jo(mi));
                        Box::new(move || {
                            let g: CsMat<i64> = CsMat::new((n, n), indptr, indices, data);
                            let mut p = p0c;
                            coupe::FiducciaMattheyses {
                                max_passes: mp,
                                max_moves_per_pass: mm,
                                max_imbalance: mi,
                                max_bad_move_in_a_row: mb,
                            }
                            .partition(&mut p, (g.view(), &ws[..]))
                            .map_err(|e| format!("{e:?}"))
                            .map(|_| p)
                        })
                    }
                    "kl" => {
                        if distinct > 2 {
                            kf = Some("kl-not-two-parts");
                        }
                        let mp = *r.pick(&[None, Some(0usize), Some(1), Some(3)]);
                        let mf = *r.pick(&[None, Some(0usize), Some(1), Some(5)]);
                        let mb = r.range(0, 3) as usize;
                        params = format!("\"max_passes\":{},\"max_flips_per_pass\":{},\"max_bad_move_in_a_row\":{mb}", jo(mp), jo(mf));
                        Box::new(move || {
                            let g: CsMat<f64> =
                                CsMat::new((n, n), indptr, indices, data.iter().map(|x| *x as f64).collect());
                            let wf: Vec<f64> = ws.iter().map(|x| *x as f64).collect();
                            let mut p = p0c;
                            coupe::KernighanLin {
                                max_passes: mp,
                                max_flips_per_pass: mf,
                                max_imbalance_per_flip: None,
                                max_bad_move_in_a_row: mb,
                            }
                            .partition(&mut p, (g.view(), &wf[..]))
                            .unwrap();
                            Ok(p)
                        })
                    }
                    _ => {
                        let mi = *r.pick(&[None, Some(0.0), Some(0.1), Some(0.5), Some(2.0)]);
                        params = format!("\"max_imbalance\":{}", jo(mi));
                        Box::new(move || {
                            let g: CsMat<i64> = CsMat::new((n, n), indptr, indices, data);
                            let mut p = p0c;
                            coupe::ArcSwap { max_imbalance: mi }
                                .partition(&mut p, (g.view(), &ws[..]))
                                .map_err(|e| format!("{e:?}"))
                                .map(|_| p)
                        })
                    }
                }
            }
        };
        let res = guarded(threads, Duration::from_secs(90), run);
        let (coq_res, json_res) = match &res {
            Guarded::Done(Ok(p)) => (
                format!("(IOk {})", coq_nlist(p.iter().map(|x| *x as u128))),
                format!("{{\"ok\":{}}}", json_usizes(p)),
            ),
            Guarded::Done(Err(e)) => ("(IErr 99 0 0)".to_string(), format!("{{\"err\":{}}}", json_str(e))),
            Guarded::Panic(m) => {
                panics += 1;
                ("IPanic".to_string(), format!("{{\"panic\":{}}}", json_str(m)))
            }
            Guarded::Hang => {
                hangs += 1;
                ("IHang".to_string(), "{\"hang\":true}".to_string())
            }
        };
        let alg_code = ALGS.iter().position(|x| *x == alg).unwrap();
        // two-way algorithms must stay within {0,1}; the others within 0..=max input id
        let bound = if two_way && max_id <= 1 { 1 } else { max_id };
        let coq = format!("mk02 {} {} {} {}", alg_code, bound, n, coq_res);
        let kfj = match kf {
            Some(k) => format!(",\"kf\":\"{k}\""),
            None => String::new(),
        };
        let json = format!(
            "{{\"alg\":\"{alg}\",\"threads\":{threads},{params}{}{input},\"impl\":{json_res}{kfj}}}",
            if params.is_empty() { "" } else { "," }
        );
        let key = format!("{alg}|{threads}|{params}|{input}");
        let nontrivial = n >= 3 && distinct >= 2;
        w.push(coq, json, &key, nontrivial, &format!("{alg}:{fam}"));
        if hangs > 2 {
            break;
        }
    }
    w.finish(&format!("\"hangs\":{},\"panics\":{}", hangs, panics));
}

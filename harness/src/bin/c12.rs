//! C12: Greedy and KarmarkarKarp vs Model/Greedy.v, Model/Kk.v — case generator and runner.
use coupe::Partition as _;
use std::time::Duration;
use verif_harness::*;

/// weights: the families named by the property's quantifier (ties, zeros, one dominant weight) and more
fn gen_weights(r: &mut Rng, big: bool) -> (&'static str, Vec<i64>) {
    let maxn = if big { 40 } else { 24 };
    match r.below(11) {
        0 => {
            let n = r.range(0, 7) as usize;
            ("small_alphabet", (0..n).map(|_| r.range(0, 3)).collect())
        }
        1 => {
            let n = r.range(2, maxn) as usize;
            ("random", (0..n).map(|_| r.range(0, 100)).collect())
        }
        2 => {
            let n = r.range(2, maxn) as usize;
            let v = r.range(1, 9);
            ("ties", (0..n).map(|_| if r.chance(4, 5) { v } else { r.range(0, 9) }).collect())
        }
        3 => {
            let n = r.range(2, 16) as usize;
            let mut ws: Vec<i64> = (0..n).map(|_| r.range(0, 10)).collect();
            let i = r.below(n as u64) as usize;
            ws[i] = r.range(50, 1000);
            ("one_dominant", ws)
        }
        4 => {
            let n = r.range(1, 16) as usize;
            ("zeros", (0..n).map(|_| if r.chance(2, 3) { 0 } else { r.range(0, 5) }).collect())
        }
        5 => {
            let n = r.range(1, 12) as usize;
            let v = r.range(0, 7);
            ("all_equal", vec![v; n])
        }
        6 => {
            let n = r.range(0, 3) as usize;
            ("tiny", (0..n).map(|_| r.range(0, 5)).collect())
        }
        7 => {
            let n = r.range(2, 14) as usize;
            ("large_values", (0..n).map(|_| r.range(0, 1 << 40)).collect())
        }
        8 => {
            // few distinct values: many ties between partial sums as well
            let n = r.range(3, maxn) as usize;
            let a = r.range(1, 4);
            let b = a * r.range(2, 3);
            ("two_values", (0..n).map(|_| if r.chance(1, 2) { a } else { b }).collect())
        }
        9 => {
            // powers of two: differencing produces exact ties
            let n = r.range(2, 14) as usize;
            ("powers_of_two", (0..n).map(|_| 1i64 << r.range(0, 6)).collect())
        }
        _ => {
            // a negative weight: outside the contract (model and implementation must still agree)
            let n = r.range(1, 8) as usize;
            let mut ws: Vec<i64> = (0..n).map(|_| r.range(0, 9)).collect();
            let i = r.below(n as u64) as usize;
            ws[i] = -r.range(1, 9);
            ("negative", ws)
        }
    }
}

fn gen_case(r: &mut Rng, tier: &str) -> (String, u64, Vec<i64>, usize, usize) {
    let big = tier == "thorough";
    let alg = r.below(2);
    if r.chance(1, 30) {
        // mid-size inputs: beyond the small-slice paths of the standard library's sort (> 20 elements),
        // many parts (Greedy: up to 64; KarmarkarKarp: up to 12, rows stay below 20 entries)
        let (n, k) = if alg == 0 {
            (r.range(64, 300) as usize, r.range(2, 64) as usize)
        } else {
            (r.range(30, 100) as usize, r.range(2, 12) as usize)
        };
        let ws: Vec<i64> = match r.below(3) {
            0 => (0..n).map(|_| r.range(0, 1000)).collect(),
            1 => (0..n).map(|_| r.range(1, 6)).collect(),
            _ => (0..n).map(|i| if i % 17 == 0 { r.range(500, 5000) } else { r.range(0, 20) }).collect(),
        };
        return ("mid_size".to_string(), alg, ws, k, n);
    }
    let (name, ws) = gen_weights(r, big);
    let n = ws.len();
    // part counts: mostly 2..8, sometimes 0, 1, more parts than elements
    let k = match r.below(12) {
        0 => r.below(2) as usize,
        1 => n + 1 + r.below(3) as usize,
        2 => 9 + r.below(4) as usize,
        3 | 4 => 2,
        _ => r.range(2, 8) as usize,
    };
    // malformed stream: partition length differs (shorter, longer, empty)
    let mut plen = n;
    if r.chance(1, 14) {
        plen = match r.below(3) {
            0 => 0,
            1 => n + 1 + r.below(3) as usize,
            _ => n.saturating_sub(1 + r.below(2) as usize),
        };
    }
    (name.to_string(), alg, ws, k, plen)
}

/// genuine binary64 weights: decimal fractions, mixed magnitudes, sums that round, subnormals, ties
fn gen_f64_weights(r: &mut Rng, big: bool) -> (&'static str, Vec<f64>) {
    let maxn = if big { 30 } else { 18 };
    match r.below(8) {
        0 => {
            let n = r.range(1, maxn) as usize;
            ("f64_tenths", (0..n).map(|_| r.range(0, 30) as f64 / 10.0).collect())
        }
        1 => {
            let n = r.range(2, maxn) as usize;
            ("f64_mixed_magnitudes", (0..n).map(|_| (r.range(0, 1000) as f64 / 1000.0) * 10f64.powi(r.range(-12, 12) as i32)).collect())
        }
        2 => {
            let n = r.range(2, maxn) as usize;
            ("f64_random_bits", (0..n).map(|_| f64::from_bits(0x3FF0_0000_0000_0000 + (r.next() >> 12)) - 1.0).collect())
        }
        3 => {
            // ties between sums: 0.1 + 0.2 vs 0.3, repeated values
            let n = r.range(3, maxn) as usize;
            ("f64_ties", (0..n).map(|_| *r.pick(&[0.1, 0.2, 0.3, 0.30000000000000004, 0.7, 0.0, 1.1])).collect())
        }
        4 => {
            let n = r.range(2, 12) as usize;
            let mut ws: Vec<f64> = (0..n).map(|_| r.range(0, 100) as f64 / 7.0).collect();
            let i = r.below(n as u64) as usize;
            ws[i] = 1e15 + r.range(0, 1000) as f64 / 3.0; // one dominant: the small ones are partly absorbed
            ("f64_one_dominant", ws)
        }
        5 => {
            let n = r.range(1, 10) as usize;
            ("f64_subnormal", (0..n).map(|_| f64::from_bits(r.below(1 << 20)) * if r.chance(1, 3) { 0.0 } else { 1.0 }).collect())
        }
        6 => {
            let n = r.range(2, maxn) as usize;
            ("f64_thirds", (0..n).map(|_| r.range(0, 12) as f64 / 3.0).collect())
        }
        _ => {
            // outside the contract: a negative fraction or -0.0
            let n = r.range(1, 8) as usize;
            let mut ws: Vec<f64> = (0..n).map(|_| r.range(0, 9) as f64 / 4.0).collect();
            let i = r.below(n as u64) as usize;
            ws[i] = if r.chance(1, 3) { -0.0 } else { -(r.range(1, 9) as f64) / 8.0 };
            ("f64_negative", ws)
        }
    }
}

/// 2^e as an f64, exactly (normal or subnormal)
fn pow2(e: i32) -> f64 {
    if e >= -1022 {
        f64::from_bits(((e + 1023) as u64) << 52)
    } else {
        f64::from_bits(1u64 << (e + 1074))
    }
}

/// the exponents of the SCALE family: integer weights times 2^s are exact f64 values and so are all their
/// sums and differences, so the integer model applies unchanged (as partitions)
fn pick_scale(r: &mut Rng) -> i32 {
    match r.below(12) {
        0 => -1074 + r.range(4, 10) as i32, // subnormal
        1 => -1000,
        2 => -300,
        3 => -70,
        4 => -53,
        5 => -52,
        6 => -10,
        7 => 0,
        8 => 10,
        9 => 52,
        10 => 300,
        _ => 900,
    }
}

/// Greedy / KarmarkarKarp on float weights: through `coupe::Real` (the Ord wrapper; the only way to give
/// float weights to KarmarkarKarp) or as plain f64 (Greedy only)
fn call_float(alg: u64, k: usize, real: bool, wf: Vec<f64>, p0: Vec<usize>) -> Guarded<Result<Vec<usize>, coupe::Error>> {
    guarded(0, Duration::from_secs(20), move || {
        let mut p = p0;
        let r = if real {
            let wr: Vec<coupe::Real> = wf.iter().map(|x| coupe::Real::from(*x)).collect();
            if alg == 0 {
                coupe::Greedy { part_count: k }.partition(&mut p, wr.iter().cloned())
            } else {
                coupe::KarmarkarKarp { part_count: k }.partition(&mut p, wr.iter().cloned())
            }
        } else {
            coupe::Greedy { part_count: k }.partition(&mut p, wf.iter().cloned())
        };
        r.map(|()| p)
    })
}

/// weights of a given length for the reuse stream (values: random, ties, zeros, small alphabet, powers of two)
fn gen_values(r: &mut Rng, n: usize) -> Vec<i64> {
    match r.below(6) {
        0 => (0..n).map(|_| r.range(0, 100)).collect(),
        1 => {
            let v = r.range(1, 9);
            (0..n).map(|_| if r.chance(4, 5) { v } else { r.range(0, 9) }).collect()
        }
        2 => (0..n).map(|_| if r.chance(1, 2) { 0 } else { r.range(0, 5) }).collect(),
        3 => (0..n).map(|_| r.range(0, 3)).collect(),
        4 => (0..n).map(|_| 1i64 << r.range(0, 6)).collect(),
        _ => (0..n).map(|_| r.range(1, 9)).collect(),
    }
}

/// One call of a partitioner VALUE that outlives the call (`Partition::partition` takes `&mut self`):
/// the value goes in and comes back out, so that whatever the call did to it is seen by the next call.
#[derive(Clone, Copy)]
enum Part {
    G(coupe::Greedy),
    K(coupe::KarmarkarKarp),
}

fn call(part: Part, buf: Vec<usize>, ws: Vec<i64>, flt: bool) -> Guarded<(Result<Vec<usize>, coupe::Error>, Part)> {
    guarded(0, Duration::from_secs(20), move || {
        let mut p = buf;
        match part {
            Part::G(mut g) => {
                let r = if flt {
                    let wf: Vec<f64> = ws.iter().map(|x| *x as f64).collect();
                    g.partition(&mut p, wf.iter().cloned())
                } else {
                    g.partition(&mut p, ws.iter().cloned())
                };
                (r.map(|()| p), Part::G(g))
            }
            Part::K(mut k) => {
                let r = k.partition(&mut p, ws.iter().cloned());
                (r.map(|()| p), Part::K(k))
            }
        }
    })
}

fn main() {
    let a = parse_args();
    quiet_panics();
    let mut rng = Rng::new(a.seed);
    let mut w = CaseWriter::new(
        &a.out,
        "From Coupe Require Import Lib.Prelude Lib.Report Run.RunC12.",
        "case12",
        "run12",
        250,
    );
    let mut hangs = 0usize;
    let mut panics = 0usize;
    let mut f64_runs = 0usize;
    let mut reuse_sequences = 0usize;
    let mut reuse_calls = 0usize;
    let mut f64_genuine = 0usize;
    let mut scaled = 0usize;
    let mut idx = 0usize;
    while idx < a.cases {
        let mut r = rng.fork();
        if r.chance(1, 6) {
            // ---- reuse stream: ONE partitioner value, a short sequence of calls with different inputs
            // (fewer weights than parts first, then more; other lengths; the output buffer of one call,
            // resized, is the dirty buffer of the next).  Every call is a case of its own: the model runs on
            // that call's input with the ORIGINAL part count, the checker judges that call's output.
            reuse_sequences += 1;
            let alg = r.below(2);
            let k = match r.below(10) {
                0 => r.below(2) as usize,
                1 => 9 + r.below(4) as usize,
                _ => r.range(2, 8) as usize,
            };
            let ncalls = r.range(2, 4) as usize;
            let mut part = if alg == 0 {
                Part::G(coupe::Greedy { part_count: k })
            } else {
                Part::K(coupe::KarmarkarKarp { part_count: k })
            };
            let mut buf: Vec<usize> = Vec::new();
            let mut earlier: Vec<String> = Vec::new();
            let mut alive = true;
            for pos in 0..ncalls {
                if idx >= a.cases {
                    break;
                }
                let n = if pos == 0 && r.chance(2, 3) {
                    r.below(k.max(1) as u64) as usize // fewer weights than parts
                } else if r.chance(3, 4) {
                    k + 1 + r.below(12) as usize // more weights than parts
                } else {
                    r.below(10) as usize
                };
                let ws = gen_values(&mut r, n);
                let flt = alg == 0 && r.chance(1, 4);
                // the buffer: what the previous call left, resized (garbage in the new entries)
                let mut plen = n;
                if r.chance(1, 12) {
                    plen = if r.chance(1, 2) { n + 1 } else { n.saturating_sub(1) };
                }
                let fill = *r.pick(&[usize::MAX, 0usize, 1, 7, 1000]);
                if pos == 0 {
                    buf = vec![usize::MAX; plen];
                } else {
                    buf.resize(plen, fill);
                }
                let p0 = buf.clone();
                let (res, coq_res): (Guarded<Result<Vec<usize>, coupe::Error>>, String) = if alive {
                    match call(part, buf.clone(), ws.clone(), flt) {
                        Guarded::Done((r1, part1)) => {
                            part = part1;
                            if let Ok(p) = &r1 {
                                buf = p.clone();
                            }
                            let g = Guarded::Done(r1);
                            let c = coq_impl_partition(&g);
                            (g, c)
                        }
                        Guarded::Panic(m) => {
                            panics += 1;
                            alive = false;
                            (Guarded::Panic(m), "IPanic".to_string())
                        }
                        Guarded::Hang => {
                            hangs += 1;
                            alive = false;
                            (Guarded::Hang, "IHang".to_string())
                        }
                    }
                } else {
                    break; // the value was lost in a panic / hang: the sequence ends
                };
                if flt {
                    f64_runs += 1;
                }
                reuse_calls += 1;
                let this_call = format!(
                    "{{\"weights\":{},\"buffer\":{},\"f64\":{}}}",
                    json_i64s(&ws),
                    json_usizes(&p0),
                    flt
                );
                if a.only.map_or(true, |o| o == idx) {
                    let coq = format!(
                        "mk12 {}%N {} {}%nat {} {} None",
                        alg,
                        coq_zlist(ws.iter().map(|x| *x as i128)),
                        k,
                        coq_nlist(p0.iter().map(|x| *x as u128)),
                        coq_res
                    );
                    let json = format!(
                        "{{\"algorithm\":\"{}\",\"weights\":{},\"part_count\":{},\"partition_len\":{},\"buffer\":{},\"f64\":{},\"impl\":{},\"reuse\":{{\"position\":{},\"note\":\"same partitioner value as the earlier calls\",\"earlier_calls\":[{}]}}}}",
                        if alg == 0 { "Greedy" } else { "KarmarkarKarp" },
                        json_i64s(&ws),
                        k,
                        plen,
                        json_usizes(&p0),
                        flt,
                        json_impl_partition(&res),
                        pos,
                        earlier.join(",")
                    );
                    let key = format!("reuse|{}|{:?}|{}|{:?}|{}", alg, ws, k, p0, earlier.len());
                    let nontrivial = plen == ws.len() && k >= 2 && ws.len() >= 3 && ws.iter().any(|x| *x != 0);
                    let fam = format!("{}:reuse", if alg == 0 { "greedy" } else { "kk" });
                    w.push(coq, json, &key, nontrivial, &fam);
                }
                earlier.push(this_call);
                idx += 1;
            }
            if hangs > 3 {
                break;
            }
            continue;
        }
        if r.chance(1, 6) {
            // ---- SCALE family: the integer families times 2^s (subnormal .. 2^900), every value, sum and
            // difference exact, so the integer model must be matched partition for partition -- through
            // coupe::Real for both algorithms and as plain f64 for Greedy.  1 case in 8 uses a scale that is
            // not a power of two (1e-21, 1e-300): values round, so Greedy is compared with the binary64
            // model (mk12f) and KarmarkarKarp is judged by the checker only (mk12kf).
            let (fam, alg, ws, k, plen) = gen_case(&mut r, &a.tier);
            let this = idx;
            idx += 1;
            if let Some(o) = a.only {
                if o != this {
                    continue;
                }
            }
            let p0: Vec<usize> = vec![usize::MAX; plen];
            let exact = !r.chance(1, 8) || ws.iter().any(|x| x.abs() >= 1 << 44);
            let (scale, scale_txt): (f64, String) = if exact {
                let e = pick_scale(&mut r);
                (pow2(e), format!("\"2^{}\"", e))
            } else if r.chance(1, 2) {
                (1e-21, "\"1e-21\"".to_string())
            } else {
                (1e-300, "\"1e-300\"".to_string())
            };
            let wf: Vec<f64> = ws.iter().map(|x| *x as f64 * scale).collect();
            scaled += 1;
            let real_for_greedy = r.chance(2, 3);
            let res = call_float(alg, k, alg == 1 || real_for_greedy, wf.clone(), p0.clone());
            // Greedy: the other float type as well (exact scales: both must be the integer model's partition)
            let resf = if alg == 0 && exact {
                Some(call_float(0, k, !real_for_greedy, wf.clone(), p0.clone()))
            } else {
                None
            };
            for g in std::iter::once(&res).chain(resf.iter()) {
                match g {
                    Guarded::Hang => hangs += 1,
                    Guarded::Panic(_) => panics += 1,
                    _ => {}
                }
            }
            let bits: Vec<u128> = wf.iter().map(|x| x.to_bits() as u128).collect();
            let coq = if exact {
                format!(
                    "mk12 {}%N {} {}%nat {} {} {}",
                    alg,
                    coq_zlist(ws.iter().map(|x| *x as i128)),
                    k,
                    coq_nlist(p0.iter().map(|x| *x as u128)),
                    coq_impl_partition(&res),
                    match &resf {
                        None => "None".to_string(),
                        Some(g) => format!("(Some {})", coq_impl_partition(g)),
                    }
                )
            } else {
                format!(
                    "{} {} {}%nat {} {}",
                    if alg == 0 { "mk12f" } else { "mk12kf" },
                    coq_nlist(bits.iter().cloned()),
                    k,
                    coq_nlist(p0.iter().map(|x| *x as u128)),
                    coq_impl_partition(&res)
                )
            };
            let wtxt: Vec<String> = wf.iter().map(|x| format!("{:e}", x)).collect();
            let btxt: Vec<String> = bits.iter().map(|x| x.to_string()).collect();
            let json = format!(
                "{{\"algorithm\":\"{}\",\"weight_type\":\"{}\",\"integer_weights\":{},\"scale\":{},\"weights_f64\":[{}],\"weights_bits\":[{}],\"part_count\":{},\"partition_len\":{},\"impl\":{},\"impl_other_float_type\":{}}}",
                if alg == 0 { "Greedy" } else { "KarmarkarKarp" },
                if alg == 1 || real_for_greedy { "coupe::Real" } else { "f64" },
                json_i64s(&ws),
                scale_txt,
                wtxt.join(","),
                btxt.join(","),
                k,
                plen,
                json_impl_partition(&res),
                match &resf {
                    None => "null".to_string(),
                    Some(g) => json_impl_partition(g),
                }
            );
            let key = format!("scale|{}|{:?}|{}|{}|{}", alg, bits, k, plen, real_for_greedy);
            let nontrivial = plen == ws.len() && k >= 2 && ws.len() >= 3 && ws.iter().any(|x| *x != 0);
            let fam = format!("{}:scaled{}:{}", if alg == 0 { "greedy" } else { "kk" }, if exact { "" } else { "_inexact" }, fam);
            w.push(coq, json, &key, nontrivial, &fam);
            if hangs > 3 {
                break;
            }
            continue;
        }
        if r.chance(1, 5) {
            // ---- genuine f64 weights (Greedy only: KkWeight needs Ord), compared bit-for-bit with the
            // SpecFloat instance of the generic model; the checker replays LPT in the rounded arithmetic
            let (fam, wf) = gen_f64_weights(&mut r, a.tier == "thorough");
            let n = wf.len();
            let k = match r.below(12) {
                0 => r.below(2) as usize,
                1 => n + 1 + r.below(3) as usize,
                2 | 3 => 2,
                _ => r.range(2, 8) as usize,
            };
            let plen = if r.chance(1, 14) { if r.chance(1, 2) { n + 1 } else { n.saturating_sub(1) } } else { n };
            let this = idx;
            idx += 1;
            if let Some(o) = a.only {
                if o != this {
                    continue;
                }
            }
            let p0: Vec<usize> = vec![usize::MAX; plen];
            let wf2 = wf.clone();
            let p02 = p0.clone();
            let res = guarded(0, Duration::from_secs(20), move || {
                let mut p = p02;
                coupe::Greedy { part_count: k }.partition(&mut p, wf2.iter().cloned()).map(|()| p)
            });
            match &res {
                Guarded::Hang => hangs += 1,
                Guarded::Panic(_) => panics += 1,
                _ => {}
            }
            f64_genuine += 1;
            let bits: Vec<u128> = wf.iter().map(|x| x.to_bits() as u128).collect();
            let coq = format!(
                "mk12f {} {}%nat {} {}",
                coq_nlist(bits.iter().cloned()),
                k,
                coq_nlist(p0.iter().map(|x| *x as u128)),
                coq_impl_partition(&res)
            );
            let wtxt: Vec<String> = wf.iter().map(|x| format!("{:?}", x)).collect();
            let btxt: Vec<String> = bits.iter().map(|x| x.to_string()).collect();
            let json = format!(
                "{{\"algorithm\":\"Greedy\",\"weight_type\":\"f64\",\"weights_f64\":[{}],\"weights_bits\":[{}],\"part_count\":{},\"partition_len\":{},\"impl\":{}}}",
                wtxt.join(","),
                btxt.join(","),
                k,
                plen,
                json_impl_partition(&res)
            );
            let key = format!("f64|{:?}|{}|{}", bits, k, plen);
            let nontrivial = plen == n && k >= 2 && n >= 3 && wf.iter().any(|x| *x != 0.0);
            w.push(coq, json, &key, nontrivial, &format!("greedy:{}", fam));
            continue;
        }
        let (fam, alg, ws, k, plen) = gen_case(&mut r, &a.tier);
        let this = idx;
        idx += 1;
        if let Some(o) = a.only {
            if o != this {
                continue;
            }
        }
        let p0: Vec<usize> = vec![usize::MAX; plen];
        let ws2 = ws.clone();
        let p02 = p0.clone();
        let res = guarded(0, Duration::from_secs(20), move || {
            let mut p = p02;
            if alg == 0 {
                coupe::Greedy { part_count: k }.partition(&mut p, ws2.iter().cloned()).map(|()| p)
            } else {
                coupe::KarmarkarKarp { part_count: k }.partition(&mut p, ws2.iter().cloned()).map(|()| p)
            }
        });
        // Greedy accepts f64 weights: the same integer-valued data, through the same model
        let resf = if alg == 0 && r.chance(1, 2) {
            f64_runs += 1;
            let wf: Vec<f64> = ws.iter().map(|x| *x as f64).collect();
            let p02 = p0.clone();
            Some(guarded(0, Duration::from_secs(20), move || {
                let mut p = p02;
                coupe::Greedy { part_count: k }.partition(&mut p, wf.iter().cloned()).map(|()| p)
            }))
        } else {
            None
        };
        for g in std::iter::once(&res).chain(resf.iter()) {
            match g {
                Guarded::Hang => hangs += 1,
                Guarded::Panic(_) => panics += 1,
                _ => {}
            }
        }
        let coq = format!(
            "mk12 {}%N {} {}%nat {} {} {}",
            alg,
            coq_zlist(ws.iter().map(|x| *x as i128)),
            k,
            coq_nlist(p0.iter().map(|x| *x as u128)),
            coq_impl_partition(&res),
            match &resf {
                None => "None".to_string(),
                Some(g) => format!("(Some {})", coq_impl_partition(g)),
            }
        );
        let json = format!(
            "{{\"algorithm\":\"{}\",\"weights\":{},\"part_count\":{},\"partition_len\":{},\"impl\":{},\"impl_f64\":{}}}",
            if alg == 0 { "Greedy" } else { "KarmarkarKarp" },
            json_i64s(&ws),
            k,
            plen,
            json_impl_partition(&res),
            match &resf {
                None => "null".to_string(),
                Some(g) => json_impl_partition(g),
            }
        );
        let key = format!("{}|{:?}|{}|{}", alg, ws, k, plen);
        // non-trivial: matching lengths, at least 2 parts and 3 weights, not all weights equal to zero
        let nontrivial = plen == ws.len() && k >= 2 && ws.len() >= 3 && ws.iter().any(|x| *x != 0);
        let fam = format!("{}:{}", if alg == 0 { "greedy" } else { "kk" }, fam);
        w.push(coq, json, &key, nontrivial, &fam);
        if hangs > 3 {
            break;
        }
    }
    w.finish(&format!(
        "\"hangs\":{},\"panics\":{},\"f64_runs\":{},\"f64_genuine\":{},\"reuse_sequences\":{},\"reuse_calls\":{},\"scaled\":{}",
        hangs, panics, f64_runs, f64_genuine, reuse_sequences, reuse_calls, scaled
    ));
}

//! C18: tools' `dual`, `barycentres`, `used_element_count` vs Model/Dual.v —
//! mesh generator and runner.
use mesh_io::{ElementType, Mesh};
use std::time::Duration;
use verif_harness::*;

type El = (ElementType, Vec<usize>);

const ALL: [ElementType; 7] = [
    ElementType::Vertex,
    ElementType::Edge,
    ElementType::Triangle,
    ElementType::Quadrangle,
    ElementType::Quadrilateral,
    ElementType::Tetrahedron,
    ElementType::Hexahedron,
];

/// `k` pairwise-distinct nodes out of 0..nn (k <= nn)
fn distinct_nodes(r: &mut Rng, nn: usize, k: usize) -> Vec<usize> {
    let mut pool: Vec<usize> = (0..nn).collect();
    let mut out = Vec::with_capacity(k);
    for _ in 0..k {
        let i = r.below(pool.len() as u64) as usize;
        out.push(pool.swap_remove(i));
    }
    out
}

fn shuffle<T>(r: &mut Rng, v: &mut [T]) {
    for i in (1..v.len()).rev() {
        let j = r.below(i as u64 + 1) as usize;
        v.swap(i, j);
    }
}

/// an element of type `t` sharing exactly `k` nodes with `base` (others fresh, from nn..)
fn sharing(r: &mut Rng, t: ElementType, base: &[usize], k: usize, fresh: &mut usize) -> Vec<usize> {
    let npe = t.node_count();
    let k = k.min(npe).min(base.len());
    let mut b: Vec<usize> = base.to_vec();
    shuffle(r, &mut b);
    let mut nodes: Vec<usize> = b[..k].to_vec();
    while nodes.len() < npe {
        nodes.push(*fresh);
        *fresh += 1;
    }
    shuffle(r, &mut nodes);
    nodes
}

fn top_types(dim: usize) -> &'static [ElementType] {
    match dim {
        2 => &[ElementType::Triangle, ElementType::Quadrangle, ElementType::Quadrilateral],
        _ => &[ElementType::Tetrahedron, ElementType::Hexahedron],
    }
}
fn low_types(dim: usize) -> &'static [ElementType] {
    match dim {
        2 => &[ElementType::Vertex, ElementType::Edge],
        _ => &[
            ElementType::Vertex,
            ElementType::Edge,
            ElementType::Triangle,
            ElementType::Quadrangle,
            ElementType::Quadrilateral,
        ],
    }
}

/// Group a list of elements into blocks: block order random, several blocks of
/// one type allowed, the order of elements inside a type preserved or shuffled.
fn into_blocks(r: &mut Rng, mut els: Vec<El>, extra_empty: bool) -> Vec<(ElementType, Vec<usize>)> {
    if r.chance(1, 2) {
        shuffle(r, &mut els);
    }
    let mut blocks: Vec<(ElementType, Vec<usize>)> = Vec::new();
    let split = r.chance(1, 2); // allow a type to appear in several blocks
    for (t, nodes) in els {
        let mut target = None;
        if split {
            if let Some(last) = blocks.last() {
                if last.0 == t {
                    target = Some(blocks.len() - 1);
                }
            }
        } else {
            target = blocks.iter().position(|b| b.0 == t);
        }
        match target {
            Some(i) => blocks[i].1.extend(nodes),
            None => blocks.push((t, nodes)),
        }
    }
    if extra_empty {
        for _ in 0..r.range(1, 2) {
            let t = *r.pick(&ALL);
            let at = r.below(blocks.len() as u64 + 1) as usize;
            blocks.insert(at, (t, Vec::new()));
        }
    }
    if !split {
        shuffle(r, &mut blocks);
    }
    blocks
}

struct Case {
    fam: &'static str,
    nn: usize,
    cdim: usize, // coordinate dimension of the mesh (2 or 3)
    blocks: Vec<(ElementType, Vec<usize>)>,
}

/// High-valence meshes: fans of many triangles around a hub node, wheels of many tetrahedra
/// around an axis edge -- one element's nodes are incident to hundreds of elements, so the
/// candidate list of a row is long (the regular families never exceed a few dozen candidates).
/// A few hubs per mesh, mixed with ordinary and lower-dimensional elements.
fn gen_high_valence(r: &mut Rng, big: bool) -> Case {
    let tets = r.chance(1, 3);
    let dim = if tets { 3 } else { 2 };
    let mut budget: i64 = if big { 400 } else { 330 };
    let mut els: Vec<El> = Vec::new();
    let mut nn = 0usize;
    let hubs = r.range(1, 3);
    for h in 0..hubs {
        // the first hub is always beyond 128 incident elements; further ones are of any size
        let lo: i64 = if h == 0 { 130 } else { 8 };
        let hi: i64 = if tets { 200 } else { 300 };
        if budget < lo {
            break;
        }
        let k = r.range(lo, hi.min(budget)) as usize;
        budget -= k as i64;
        let closed = r.chance(1, 2);
        // where the hub / axis nodes stand in each element's node list: 0 first, 1 last, 2 anywhere
        let place = r.below(3);
        let ring = if closed { k } else { k + 1 };
        let hub0 = nn;
        let nhub = if tets { 2 } else { 1 };
        let ring0 = nn + nhub;
        nn += nhub + ring;
        for i in 0..k {
            let a = ring0 + i;
            let b = ring0 + (i + 1) % ring;
            let hubn: Vec<usize> = (hub0..hub0 + nhub).collect();
            let mut rim = vec![a, b];
            if r.chance(1, 2) {
                rim.swap(0, 1);
            }
            let mut nodes: Vec<usize> = match place {
                0 => hubn.iter().cloned().chain(rim).collect(),
                1 => rim.into_iter().chain(hubn.iter().cloned()).collect(),
                _ => {
                    let mut v: Vec<usize> = hubn.iter().cloned().chain(rim).collect();
                    shuffle(r, &mut v);
                    v
                }
            };
            if place != 2 && tets && r.chance(1, 2) {
                // the two axis nodes in either order
                let (x, y) = if place == 0 { (0, 1) } else { (2, 3) };
                nodes.swap(x, y);
            }
            els.push((if tets { ElementType::Tetrahedron } else { ElementType::Triangle }, nodes));
        }
    }
    // ordinary elements over the same nodes (some attached to a hub), and lower-dimensional ones
    for _ in 0..r.range(0, 8) {
        let t = *r.pick(top_types(dim));
        if nn >= t.node_count() {
            els.push((t, distinct_nodes(r, nn, t.node_count())));
        }
    }
    for _ in 0..r.range(0, 6) {
        let t = *r.pick(low_types(dim));
        els.push((t, distinct_nodes(r, nn, t.node_count())));
    }
    if r.chance(1, 4) {
        nn += r.range(1, 3) as usize; // unused nodes
    }
    let extra_empty = r.chance(1, 6);
    let blocks = into_blocks(r, els, extra_empty);
    Case { fam: "high_valence", nn, cdim: dim, blocks }
}

fn gen_case(r: &mut Rng, tier: &str) -> Case {
    let big = tier == "thorough";
    if r.chance(1, 100) {
        return gen_high_valence(r, big);
    }
    let cap = if big { 34 } else { 22 }; // bound on the number of top-dimensional elements
    let fam = r.below(13);
    let dim = if r.chance(1, 2) { 2 } else { 3 };
    let mut els: Vec<El> = Vec::new();
    let mut nn: usize;
    let name: &'static str;
    let mut extra_empty = r.chance(1, 6);
    match fam {
        0 | 1 => {
            // random elements over a small node pool: many accidental coincidences
            name = "random_small_pool";
            nn = r.range(8, 14) as usize;
            let ne = r.range(1, cap as i64) as usize;
            for _ in 0..ne {
                let t = *r.pick(top_types(dim));
                els.push((t, distinct_nodes(r, nn, t.node_count())));
            }
            for _ in 0..r.range(0, 6) {
                let t = *r.pick(low_types(dim));
                els.push((t, distinct_nodes(r, nn, t.node_count())));
            }
        }
        2 => {
            // conforming 2-D grid of quadrilaterals, some cut into two triangles
            name = "conforming_2d";
            let nx = r.range(1, 4) as usize;
            let ny = r.range(1, if big { 5 } else { 4 }) as usize;
            nn = (nx + 1) * (ny + 1);
            let id = |i: usize, j: usize| j * (nx + 1) + i;
            let quad = if r.chance(1, 2) { ElementType::Quadrilateral } else { ElementType::Quadrangle };
            for j in 0..ny {
                for i in 0..nx {
                    let q = [id(i, j), id(i + 1, j), id(i + 1, j + 1), id(i, j + 1)];
                    if r.chance(1, 3) {
                        els.push((ElementType::Triangle, vec![q[0], q[1], q[2]]));
                        els.push((ElementType::Triangle, vec![q[0], q[2], q[3]]));
                    } else {
                        els.push((quad, q.to_vec()));
                    }
                }
            }
            for i in 0..nx {
                if r.chance(1, 2) {
                    els.push((ElementType::Edge, vec![id(i, 0), id(i + 1, 0)]));
                }
            }
            for _ in 0..r.range(0, 3) {
                els.push((ElementType::Vertex, vec![r.below(nn as u64) as usize]));
            }
        }
        3 => {
            // conforming 3-D grid of hexahedra, some replaced by tetrahedra on their corners
            name = "conforming_3d";
            let nx = r.range(1, 3) as usize;
            let ny = r.range(1, 3) as usize;
            let nz = r.range(1, if big { 3 } else { 2 }) as usize;
            nn = (nx + 1) * (ny + 1) * (nz + 1);
            let id = |i: usize, j: usize, k: usize| (k * (ny + 1) + j) * (nx + 1) + i;
            for k in 0..nz {
                for j in 0..ny {
                    for i in 0..nx {
                        let h = [
                            id(i, j, k),
                            id(i + 1, j, k),
                            id(i + 1, j + 1, k),
                            id(i, j + 1, k),
                            id(i, j, k + 1),
                            id(i + 1, j, k + 1),
                            id(i + 1, j + 1, k + 1),
                            id(i, j + 1, k + 1),
                        ];
                        if r.chance(1, 4) {
                            // five tetrahedra of a cube
                            for t in [[0, 1, 3, 4], [1, 2, 3, 6], [1, 4, 5, 6], [3, 4, 6, 7], [1, 3, 4, 6]] {
                                els.push((ElementType::Tetrahedron, t.iter().map(|x| h[*x]).collect()));
                            }
                        } else {
                            els.push((ElementType::Hexahedron, h.to_vec()));
                        }
                        if r.chance(1, 4) {
                            // a boundary face / edge as lower-dimensional elements
                            els.push((ElementType::Quadrilateral, vec![h[0], h[1], h[2], h[3]]));
                            els.push((ElementType::Triangle, vec![h[0], h[1], h[2]]));
                            els.push((ElementType::Edge, vec![h[0], h[1]]));
                        }
                    }
                }
            }
        }
        4 | 5 => {
            // pairs built to share exactly dim-1 / dim / dim+1 / all nodes
            name = "shared_exact";
            let npairs = r.range(1, (cap / 2) as i64) as usize;
            nn = 0;
            let mut fresh = 0usize;
            let mut prev: Option<Vec<usize>> = None;
            for _ in 0..npairs {
                let ta = *r.pick(top_types(dim));
                // the base element: fresh nodes, or attached to the previous pair
                let a: Vec<usize> = match (&prev, r.chance(1, 2)) {
                    (Some(p), true) => {
                        let k = *r.pick(&[dim - 1, dim, 1]);
                        sharing(r, ta, p, k, &mut fresh)
                    }
                    _ => {
                        let v: Vec<usize> = (fresh..fresh + ta.node_count()).collect();
                        fresh += ta.node_count();
                        v
                    }
                };
                let tb = *r.pick(top_types(dim));
                let k = match r.below(5) {
                    0 => dim - 1,
                    1 => dim,
                    2 => dim + 1,
                    3 => tb.node_count(),
                    _ => r.range(0, tb.node_count() as i64) as usize,
                };
                let b = sharing(r, tb, &a, k, &mut fresh);
                prev = Some(b.clone());
                els.push((ta, a));
                els.push((tb, b));
            }
            for _ in 0..r.range(0, 4) {
                let t = *r.pick(low_types(dim));
                els.push((t, distinct_nodes(r, fresh.max(8), t.node_count())));
            }
            nn = nn.max(fresh.max(8));
        }
        6 => {
            // the same node set several times (same order or permuted), among others
            name = "repeated_node_sets";
            nn = r.range(8, 12) as usize;
            let ne = r.range(1, (cap / 2) as i64) as usize;
            for _ in 0..ne {
                let t = *r.pick(top_types(dim));
                let nodes = distinct_nodes(r, nn, t.node_count());
                for _ in 0..r.range(1, 3) {
                    let mut n2 = nodes.clone();
                    if r.chance(1, 2) {
                        shuffle(r, &mut n2);
                    }
                    els.push((t, n2));
                }
            }
        }
        7 => {
            // highest dimension 1 or 0, or no block at all (outside the 2-D/3-D quantifier)
            name = "low_dimension";
            nn = r.range(2, 10) as usize;
            let only_vertices = r.chance(1, 4);
            if !r.chance(1, 8) {
                for _ in 0..r.range(1, 10) {
                    let t = if only_vertices || r.chance(1, 3) { ElementType::Vertex } else { ElementType::Edge };
                    els.push((t, distinct_nodes(r, nn, t.node_count())));
                }
            } else {
                extra_empty = false;
            }
        }
        8 => {
            // an element with a repeated node (outside the contract: shared counts are not symmetric)
            name = "repeated_node_in_element";
            nn = r.range(8, 12) as usize;
            let ne = r.range(2, 10) as usize;
            for _ in 0..ne {
                let t = *r.pick(top_types(dim));
                let mut nodes = distinct_nodes(r, nn, t.node_count());
                if r.chance(1, 2) {
                    let i = r.below(nodes.len() as u64) as usize;
                    let j = r.below(nodes.len() as u64) as usize;
                    nodes[i] = nodes[j];
                }
                els.push((t, nodes));
            }
        }
        9 => {
            // a node id beyond the mesh's node count (outside the contract: panics)
            name = "node_out_of_range";
            nn = r.range(8, 12) as usize;
            let ne = r.range(1, 8) as usize;
            for _ in 0..ne {
                let t = *r.pick(&ALL);
                els.push((t, distinct_nodes(r, nn, t.node_count())));
            }
            let i = r.below(els.len() as u64) as usize;
            let j = r.below(els[i].1.len() as u64) as usize;
            els[i].1[j] = nn + r.below(3) as usize;
        }
        10 => {
            // the highest-dimensional block is empty: the graph has no vertex
            name = "empty_top_block";
            nn = r.range(6, 10) as usize;
            for _ in 0..r.range(0, 6) {
                let t = *r.pick(low_types(dim));
                els.push((t, distinct_nodes(r, nn, t.node_count())));
            }
            let mut blocks = into_blocks(r, els, false);
            let at = r.below(blocks.len() as u64 + 1) as usize;
            blocks.insert(at, (*r.pick(top_types(dim)), Vec::new()));
            return Case { fam: name, nn, cdim: dim, blocks };
        }
        11 => {
            // non-conforming 2-D: some quadrilaterals of a grid refined into four, their neighbours
            // not (hanging nodes: a coarse cell shares one node with each fine cell across the edge)
            name = "nonconforming_2d";
            let nx = r.range(1, 3) as usize;
            let ny = r.range(1, 3) as usize;
            nn = (nx + 1) * (ny + 1);
            let id = |i: usize, j: usize| j * (nx + 1) + i;
            let mut mid: std::collections::BTreeMap<(usize, usize), usize> = Default::default();
            let tri_too = r.chance(1, 2);
            for j in 0..ny {
                for i in 0..nx {
                    let q = [id(i, j), id(i + 1, j), id(i + 1, j + 1), id(i, j + 1)];
                    if r.chance(1, 2) {
                        let mut m = [0usize; 4];
                        for k in 0..4 {
                            let (a, b) = (q[k], q[(k + 1) % 4]);
                            let key = (a.min(b), a.max(b));
                            m[k] = *mid.entry(key).or_insert_with(|| {
                                nn += 1;
                                nn - 1
                            });
                        }
                        let c = nn;
                        nn += 1;
                        for k in 0..4 {
                            let sub = vec![q[k], m[k], c, m[(k + 3) % 4]];
                            if tri_too && r.chance(1, 3) {
                                els.push((ElementType::Triangle, vec![sub[0], sub[1], sub[2]]));
                                els.push((ElementType::Triangle, vec![sub[0], sub[2], sub[3]]));
                            } else {
                                els.push((ElementType::Quadrilateral, sub));
                            }
                        }
                    } else {
                        els.push((ElementType::Quadrilateral, q.to_vec()));
                    }
                }
            }
            for _ in 0..r.range(0, 3) {
                els.push((ElementType::Edge, distinct_nodes(r, nn, 2)));
            }
        }
        _ => {
            // any types, any dimension mix, larger pool
            name = "random_any";
            nn = r.range(8, 30) as usize;
            let ne = r.range(0, cap as i64) as usize;
            for _ in 0..ne {
                let t = *r.pick(&ALL);
                els.push((t, distinct_nodes(r, nn, t.node_count())));
            }
        }
    }
    let blocks = if els.is_empty() && !extra_empty { Vec::new() } else { into_blocks(r, els, extra_empty) };
    Case { fam: name, nn, cdim: if r.chance(1, 5) { 5 - dim } else { dim }, blocks }
}

fn name(t: ElementType) -> String {
    format!("{:?}", t)
}

/// what the harness needs to know about the input alone
struct Facts {
    max_dim: Option<usize>,
    in_range: bool,
    distinct_nodes: bool,
    top_count: usize,
}
fn facts(c: &Case) -> Facts {
    let max_dim = c.blocks.iter().map(|b| b.0.dimension()).max();
    let in_range = c.blocks.iter().all(|b| b.1.iter().all(|v| *v < c.nn));
    let mut distinct = true;
    let mut top = 0;
    for (t, nodes) in &c.blocks {
        if Some(t.dimension()) == max_dim {
            for e in nodes.chunks_exact(t.node_count()) {
                top += 1;
                let mut s = e.to_vec();
                s.sort_unstable();
                s.dedup();
                distinct &= s.len() == e.len();
            }
        }
    }
    Facts { max_dim, in_range, distinct_nodes: distinct, top_count: top }
}

fn obs_coq<T>(g: &Guarded<T>, f: impl Fn(&T) -> String) -> String {
    match g {
        Guarded::Done(v) => format!("(OOk {})", f(v)),
        Guarded::Panic(_) => "OPanic".to_string(),
        Guarded::Hang => "OHang".to_string(),
    }
}
fn obs_json<T>(g: &Guarded<T>, f: impl Fn(&T) -> String) -> String {
    match g {
        Guarded::Done(v) => format!("{{\"ok\":{}}}", f(v)),
        Guarded::Panic(m) => format!("{{\"panic\":{}}}", json_str(m)),
        Guarded::Hang => "{\"hang\":true}".to_string(),
    }
}

type Csr = (usize, usize, Vec<usize>, Vec<usize>, Vec<u64>);

fn main() {
    let a = parse_args();
    quiet_panics();
    let mut rng = Rng::new(a.seed);
    let mut w = CaseWriter::new(
        &a.out,
        "From Coupe Require Import Lib.Prelude Lib.Report Gen.MeshTables Model.Dual Run.RunC18.",
        "case18",
        "run18",
        250,
    );
    let (mut hangs, mut panics) = (0usize, 0usize);
    let (mut dim1, mut dim1_disagree, mut in_contract, mut with_edges) = (0usize, 0usize, 0usize, 0usize);
    let mut pool_hist = [0usize; 17];
    for idx in 0..a.cases {
        let mut r = rng.fork();
        let c = gen_case(&mut r, &a.tier);
        let threads = if a.tier == "thorough" || r.chance(2, 3) {
            r.range(1, 16) as usize
        } else {
            *r.pick(&[1usize, 2, 3, 4, 8, 16])
        };
        if let Some(o) = a.only {
            if o != idx {
                continue;
            }
        }
        pool_hist[threads] += 1;
        let fx = facts(&c);
        // coordinates: arbitrary small dyadic values; they do not influence what is compared
        let coords: Vec<f64> = (0..c.nn * c.cdim).map(|_| r.range(-8, 8) as f64 * 0.25).collect();
        let mk = {
            let (cdim, nn, blocks) = (c.cdim, c.nn, c.blocks.clone());
            move || {
                let topo: Vec<(ElementType, Vec<usize>, Vec<isize>)> = blocks
                    .iter()
                    .map(|(t, n)| (*t, n.clone(), vec![1isize; n.len() / t.node_count()]))
                    .collect();
                Mesh::from_raw_parts(cdim, coords.clone(), vec![0isize; nn], topo)
            }
        };
        let mk1 = mk.clone();
        let dual: Guarded<Csr> = guarded(threads, Duration::from_secs(20), move || {
            let mesh = mk1();
            let g = coupe_tools::dual(&mesh);
            let (rows, cols) = (g.rows(), g.cols());
            let (indptr, indices, data) = g.into_raw_storage();
            (rows, cols, indptr, indices, data.iter().map(|x| x.to_bits()).collect())
        });
        let mk2 = mk.clone();
        let cdim = c.cdim;
        let bary: Guarded<usize> = guarded(threads, Duration::from_secs(20), move || {
            let mesh = mk2();
            if cdim == 2 {
                coupe_tools::barycentres::<2>(&mesh).len()
            } else {
                coupe_tools::barycentres::<3>(&mesh).len()
            }
        });
        let mk3 = mk.clone();
        let used: Guarded<usize> = guarded(threads, Duration::from_secs(20), move || {
            let mesh = mk3();
            coupe_tools::used_element_count(&mesh)
        });
        for g in [matches!(dual, Guarded::Hang), matches!(bary, Guarded::Hang), matches!(used, Guarded::Hang)] {
            if g {
                hangs += 1;
            }
        }
        for g in [matches!(dual, Guarded::Panic(_)), matches!(bary, Guarded::Panic(_)), matches!(used, Guarded::Panic(_))] {
            if g {
                panics += 1;
            }
        }
        let contract = matches!(fx.max_dim, Some(2) | Some(3)) && fx.in_range && fx.distinct_nodes;
        if contract {
            in_contract += 1;
        }
        if fx.max_dim == Some(1) && fx.in_range {
            dim1 += 1;
            if let (Guarded::Done(d), Guarded::Done(b), Guarded::Done(u)) = (&dual, &bary, &used) {
                if d.0 != *u || b != u {
                    dim1_disagree += 1;
                }
            }
        }
        if let Guarded::Done(d) = &dual {
            if contract && !d.3.is_empty() {
                with_edges += 1;
            }
        }
        let blocks_coq: Vec<String> =
            c.blocks.iter().map(|(t, n)| format!("({}, {})", name(*t), coq_natlist(n.iter().cloned()))).collect();
        let coq = format!(
            "mk18 (mkMesh {} [{}]) {} {} {}",
            c.nn,
            blocks_coq.join("; "),
            obs_coq(&dual, |d| format!(
                "(mkCsr {} {} {} {} {})",
                d.0,
                d.1,
                coq_natlist(d.2.iter().cloned()),
                coq_natlist(d.3.iter().cloned()),
                format!(
                    "[{}]%N",
                    d.4.iter()
                        .map(|x| if *x == 1.0f64.to_bits() { "o1".to_string() } else { x.to_string() })
                        .collect::<Vec<_>>()
                        .join(";")
                )
            )),
            obs_coq(&bary, |b| b.to_string()),
            obs_coq(&used, |u| u.to_string()),
        );
        let blocks_json: Vec<String> =
            c.blocks.iter().map(|(t, n)| format!("[\"{}\",{}]", name(*t), json_usizes(n))).collect();
        let json = format!(
            "{{\"node_count\":{},\"coordinate_dimension\":{},\"blocks\":[{}],\"threads\":{},\"dual\":{},\"barycentres\":{},\"used_element_count\":{}}}",
            c.nn,
            c.cdim,
            blocks_json.join(","),
            threads,
            obs_json(&dual, |d| format!(
                "{{\"shape\":[{},{}],\"indptr\":{},\"indices\":{},\"data_all_one\":{}}}",
                d.0,
                d.1,
                json_usizes(&d.2),
                json_usizes(&d.3),
                d.4.iter().all(|x| *x == 1.0f64.to_bits())
            )),
            obs_json(&bary, |b| b.to_string()),
            obs_json(&used, |u| u.to_string()),
        );
        let key = format!("{}|{}", c.nn, blocks_json.join(","));
        // non-trivial: inside the contract, at least 3 elements of the highest dimension, at least 2 blocks
        let nontrivial = contract && fx.top_count >= 3 && c.blocks.len() >= 2;
        w.push(coq, json, &key, nontrivial, c.fam);
        if hangs > 3 {
            break;
        }
    }
    let pools: Vec<String> = (1..=16).map(|t| format!("\"pool_{}\":{}", t, pool_hist[t])).collect();
    w.finish(&format!(
        "\"hangs\":{},\"panics\":{},\"in_contract\":{},\"in_contract_with_graph_edges\":{},\"highest_dimension_1\":{},\"highest_dimension_1_counts_disagree\":{},{}",
        hangs,
        panics,
        in_contract,
        with_edges,
        dim1,
        dim1_disagree,
        pools.join(",")
    ));
}

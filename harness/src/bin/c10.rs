//! C10: Grid::rcb vs Model/GridRcb.v — case generator and runner.
//!
//! Consecutive cases share one input and run it under the rayon pools
//! 1,2,3,4,8,16 (quick) / 1..16 (thorough) (the median search reads
//! `rayon::current_num_threads()`).
//!
//! Three kinds of input:
//!  * i64 weights (exact stream): the Coq side runs the model with the same T
//!    and compares the ids exactly; checker with the "+1 unit" clause;
//!  * f64 weights that are multiples of 2^-k (exact stream: every sum the code
//!    forms is exact whatever rayon's association): weights are written as the
//!    integers z with the scale k; model compared exactly; checker with the
//!    f64 clause (no unit slack);
//!  * arbitrary f64 fractions (checker-only stream): the code's sums are rounded
//!    and their association depends on the pool, so there is no model run; every
//!    f64 is still z * 2^-k exactly, and the checker judges the ids against
//!    these exact weights (no unit slack, relative allowance 2^-30).
use std::num::NonZeroUsize;
use std::time::Duration;
use verif_harness::*;

const POOLS_QUICK: [usize; 6] = [1, 2, 3, 4, 8, 16];
const POOLS_THOROUGH: [usize; 16] = [1, 2, 3, 4, 5, 6, 7, 8, 9, 10, 11, 12, 13, 14, 15, 16];

#[derive(Clone)]
enum Weights {
    I64(Vec<i64>),
    /// the f64 values handed to the implementation; `z[i] * 2^-k == f[i]` exactly
    F64 { f: Vec<f64>, z: Vec<i128>, k: u32, exact: bool },
}

#[derive(Clone)]
struct Input {
    fam: String,
    dims: Vec<usize>,
    w: Weights,
    k: usize,
}

fn gen_dims(r: &mut Rng, big: bool) -> Vec<usize> {
    let three = r.chance(1, 2);
    let max_cells: usize = if big { 1728 } else { 600 };
    loop {
        let d: Vec<usize> = if three {
            match r.below(8) {
                0 => vec![1, 1, r.range(1, 12) as usize],
                1 => vec![r.range(1, 12) as usize, 1, 1],
                2 => vec![1, r.range(1, 12) as usize, r.range(1, 12) as usize],
                3 => {
                    let s = r.range(1, 8) as usize;
                    vec![s, s, s]
                }
                _ => vec![
                    r.range(1, 12) as usize,
                    r.range(1, 12) as usize,
                    r.range(1, 12) as usize,
                ],
            }
        } else {
            match r.below(10) {
                0 => vec![1, r.range(1, 12) as usize],
                1 => vec![r.range(1, 12) as usize, 1],
                2 => {
                    let s = r.range(1, 12) as usize;
                    vec![s, s]
                }
                3 => vec![r.range(1, 3) as usize, r.range(1, 3) as usize],
                // long thin grids (3 x 100, 4 x 64, 8 x 48, ...): coarse chunks at small pools
                4 | 5 => {
                    let a = r.range(1, 8) as usize;
                    let b = r.range(13, 100) as usize;
                    if r.chance(1, 2) {
                        vec![a, b]
                    } else {
                        vec![b, a]
                    }
                }
                _ => vec![r.range(1, 12) as usize, r.range(1, 12) as usize],
            }
        };
        if d.iter().product::<usize>() <= max_cells {
            return d;
        }
    }
}

/// the integer families (also used, as f64 holding integers, with scale 0)
fn gen_int_weights(r: &mut Rng, n: usize, allow_giant: bool) -> (&'static str, Vec<i64>) {
    let fam = r.below(if allow_giant { 11 } else { 10 });
    match fam {
        0 => {
            let v = *r.pick(&[1i64, 1, 2, 7, 100]);
            ("uniform", vec![v; n])
        }
        1 => {
            let den = *r.pick(&[4u64, 8, 16]);
            ("sparse", (0..n).map(|_| if r.chance(1, den) { r.range(1, 50) } else { 0 }).collect())
        }
        2 => ("skewed", (0..n).map(|_| if r.chance(1, 10) { r.range(100, 5000) } else { r.range(0, 3) }).collect()),
        3 => ("all_zero", vec![0; n]),
        4 => {
            let mut ws: Vec<i64> = (0..n).map(|_| r.range(0, 2)).collect();
            let i = r.below(n as u64) as usize;
            ws[i] = r.range(1000, 1_000_000);
            ("one_dominant", ws)
        }
        5 => ("random", (0..n).map(|_| r.range(0, 100)).collect()),
        6 => {
            let up = r.chance(1, 2);
            ("gradient", (0..n).map(|i| if up { i as i64 } else { (n - i) as i64 * 3 }).collect())
        }
        7 => {
            let a = (n / 5).max(1);
            ("two_clusters", (0..n).map(|i| if i < a || i + a >= n { r.range(1, 20) } else { 0 }).collect())
        }
        8 => ("large_values", (0..n).map(|_| r.range(0, 1 << 35)).collect()),
        9 => {
            // total between 2^46 and 2^52: beyond the i64 balance theorem (correspondence only
            // for i64; inside the f64 theorem, whose range is 2^53)
            let per = ((1u64 << 52) / n as u64) as i64;
            ("huge_values", (0..n).map(|_| r.range(per / 2, per - 1)).collect())
        }
        _ => {
            // the total (up to 2^61) is not exactly representable in f64: thresholds from the
            // ROUNDED total; correspondence only, i64 only
            let per = ((1u64 << 61) / n as u64) as i64;
            ("giant_i64", (0..n).map(|_| r.range(per / 3, per - 1)).collect())
        }
    }
}

/// f64 weights that are multiples of 2^-k: (family, z, k)
fn gen_dyadic(r: &mut Rng, n: usize) -> (&'static str, Vec<i128>, u32) {
    match r.below(7) {
        0 => {
            // uniform in [0,1) on a grid of 2^-k
            let k = *r.pick(&[8u32, 16, 24, 30]);
            ("frac_unit", (0..n).map(|_| r.below(1u64 << k) as i128).collect(), k)
        }
        1 | 2 => {
            // normalised: the weights sum to exactly 1.0
            let k = *r.pick(&[10u32, 16, 20, 30]);
            let total: u64 = 1u64 << k;
            let mut raw: Vec<u64> = (0..n).map(|_| if r.chance(1, 6) { 0 } else { 1 + r.below(1000) }).collect();
            if r.chance(1, 3) {
                // skewed loads
                for x in raw.iter_mut() {
                    if r.chance(1, 10) {
                        *x *= 50;
                    }
                }
            }
            let s: u64 = raw.iter().sum::<u64>().max(1);
            let mut z: Vec<u64> = raw.iter().map(|x| (*x as u128 * total as u128 / s as u128) as u64).collect();
            let have: u64 = z.iter().sum();
            let i = r.below(n as u64) as usize;
            z[i] += total - have; // exact sum 2^k
            ("frac_norm1", z.into_iter().map(|x| x as i128).collect(), k)
        }
        3 => {
            // tiny loads around 1e-6
            let k = 40u32;
            ("frac_tiny", (0..n).map(|_| r.range(1 << 19, 1 << 21) as i128).collect(), k)
        }
        4 => {
            // mixed magnitudes: 2^-45 .. 2^-5
            let k = 45u32;
            (
                "frac_mixed",
                (0..n).map(|_| if r.chance(1, 8) { 0 } else { (r.range(1, 15) as i128) << r.below(37) }).collect(),
                k,
            )
        }
        5 => {
            // sparse fractions
            let k = 12u32;
            ("frac_sparse", (0..n).map(|_| if r.chance(1, 8) { r.below(1 << 12) as i128 } else { 0 }).collect(), k)
        }
        _ => {
            // all equal to 2^-j: sums to a small total such as n/1024
            let k = *r.pick(&[3u32, 7, 10]);
            ("frac_equal", vec![1i128; n], k)
        }
    }
}

/// exact decomposition of finite non-negative f64 values: f[i] = z[i] * 2^-k
fn decompose(f: &[f64]) -> (Vec<i128>, u32) {
    let parts: Vec<(u64, i32)> = f
        .iter()
        .map(|x| {
            let b = x.to_bits();
            let e = ((b >> 52) & 0x7ff) as i32;
            let m = b & ((1u64 << 52) - 1);
            if e == 0 {
                (m, -1074)
            } else {
                (m | (1u64 << 52), e - 1075)
            }
        })
        .collect();
    let emin = parts.iter().filter(|(m, _)| *m != 0).map(|(_, e)| *e).min().unwrap_or(0).min(0);
    let k = (-emin) as u32;
    let z = parts
        .iter()
        .map(|(m, e)| {
            if *m == 0 {
                0
            } else {
                let sh = (*e + k as i32) as u32;
                assert!(sh <= 70);
                (*m as i128) << sh
            }
        })
        .collect();
    (z, k)
}

/// arbitrary f64 fractions (full 53-bit mantissas)
fn gen_arbitrary(r: &mut Rng, n: usize) -> (&'static str, Vec<f64>) {
    let unit = |r: &mut Rng| -> f64 {
        let x = (r.next() >> 11) as f64 / (1u64 << 53) as f64;
        if x < 1e-9 {
            0.0
        } else {
            x
        }
    };
    match r.below(4) {
        0 => ("arb_unit", (0..n).map(|_| unit(r)).collect()),
        1 => {
            let mut v: Vec<f64> = (0..n).map(|_| if r.chance(1, 6) { 0.0 } else { unit(r) }).collect();
            if r.chance(1, 3) {
                for x in v.iter_mut() {
                    if r.chance(1, 10) {
                        *x *= 37.0;
                    }
                }
            }
            let s: f64 = v.iter().sum();
            if s > 0.0 {
                for x in v.iter_mut() {
                    *x /= s;
                    if *x < 1e-12 {
                        *x = 0.0;
                    }
                }
            }
            ("arb_norm1", v)
        }
        2 => ("arb_tiny", (0..n).map(|_| unit(r) * 1e-6).map(|x| if x < 1e-15 { 0.0 } else { x }).collect()),
        _ => (
            "arb_mixed",
            (0..n)
                .map(|_| {
                    let x = unit(r) * 10f64.powi(-(r.below(9) as i32));
                    if x < 1e-12 {
                        0.0
                    } else {
                        x
                    }
                })
                .collect(),
        ),
    }
}

/// i64 inputs built so that a chunk boundary lands on the very edge of the band the code accepts,
/// for a total of 2^57..2^62: the prefix sum equals min_part_weight (lower edge) or
/// max_part_weight (upper edge) as the code computes them in f64, and these are tens to hundreds
/// of units outside the exact "1% of half + 1 unit"; a 1-unit slab next to the cut keeps the
/// half-weight mark away from the cut.  (The thresholds are recomputed here with the same f64
/// expression as rcb.rs; the Coq side does not rely on it.)
fn gen_band_edge(r: &mut Rng, three: bool) -> (Vec<usize>, Vec<i64>) {
    loop {
        let e = r.range(57, 62) as u32;
        let tot: i64 = (1i64 << (e - 1)) + r.below(1u64 << (e - 1)) as i64;
        let ideal = tot as f64 / 2.0;
        let mn = (ideal * (1.0 - 0.01)) as i64;
        let mx = (ideal * (1.0 + 0.01)) as i64;
        let t = tot as i128;
        if r.chance(1, 2) {
            if 200 * (mn as i128) < 99 * t - 200 {
                let ws = vec![mn, 1, tot - mn - 1];
                return (if three { vec![1, 3, 1] } else { vec![1, 3] }, ws);
            }
        } else if 200 * (mx as i128) > 101 * t + 200 {
            // chunk size 2 for pools 1 and 2: boundaries at slabs 0 and 2, prefix(2) = mx
            let rest = tot - mx;
            let r1 = r.range(0, rest);
            let ws = vec![mx - 1, 1, r1, rest - r1];
            return (if three { vec![1, 4, 1] } else { vec![1, 4] }, ws);
        }
    }
}

/// Thin long grids: one axis has MORE THAN 1024 slabs (1 x N, 2 x N, N x 1, 1 x 1 x N with N in
/// 1025..6000), so that the median search really narrows a wide window over several chunked
/// passes before it ends -- a search path that only exists for wide windows (a sequential finish
/// below some threshold, a different chunking) is only exercised here.  Weights whose half-weight
/// mark is away from the first chunk and from the chunk boundaries: ramp, decaying, skewed,
/// random, sparse, one heavy.  `force_ramp`: the first long input of a run is an i64 ramp on 1 x N.
fn gen_long(r: &mut Rng, force_ramp: bool) -> Input {
    let n_axis: usize = if force_ramp {
        *r.pick(&[1025usize, 2049, 4097, 4099])
    } else {
        match r.below(8) {
            0 => 1025,
            1 => 2049,
            2 => 4097,
            3 => 4099,
            4 => 5000,
            5 => 6000,
            _ => r.range(1025, 6000) as usize,
        }
    };
    let shape = if force_ramp { 0 } else { r.below(5) };
    let (dims, k): (Vec<usize>, usize) = match shape {
        0 | 1 => (vec![1, n_axis], r.range(1, 3) as usize),
        2 => (vec![2, n_axis.min(3000)], r.range(1, 3) as usize),
        // the long axis is cut second: needs two iterations
        3 => (vec![n_axis, 1], r.range(2, 3) as usize),
        _ => (vec![1, 1, n_axis], r.range(2, 3) as usize),
    };
    let n: usize = dims.iter().product();
    let len = *dims.iter().max().unwrap();
    // position along the long axis of cell i (row-major: x fastest)
    let along = |i: usize| -> usize {
        if dims.len() == 2 && dims[0] == 2 {
            i / 2
        } else {
            i % len.max(1)
        }
    };
    let fam = if force_ramp { 0 } else { r.below(7) };
    let heavy_at = len * 4 / 5;
    let (name, z): (&str, Vec<i64>) = match fam {
        0 => ("ramp_up", (0..n).map(|i| along(i) as i64 + 1).collect()),
        1 => ("ramp_down", (0..n).map(|i| (len - along(i)) as i64).collect()),
        2 => ("skewed", (0..n).map(|_| if r.chance(1, 20) { r.range(200, 2000) } else { r.range(0, 3) }).collect()),
        3 => ("random", (0..n).map(|_| r.range(0, 100)).collect()),
        4 => ("sparse", (0..n).map(|_| if r.chance(1, 16) { r.range(1, 50) } else { 0 }).collect()),
        5 => ("decaying", (0..n).map(|i| 1_000_000 / (1 + along(i) as i64)).collect()),
        _ => ("one_heavy", (0..n).map(|i| if along(i) == heavy_at { len as i64 } else { 1 }).collect()),
    };
    let wt = if force_ramp { 0 } else { r.below(4) };
    let (tname, w) = match wt {
        0 | 1 => ("i64", Weights::I64(z)),
        2 => {
            // exact dyadic f64: z * 2^-k
            let k = *r.pick(&[0u32, 4, 10]);
            let scale = 2f64.powi(-(k as i32));
            let f: Vec<f64> = z.iter().map(|x| *x as f64 * scale).collect();
            ("f64", Weights::F64 { f, z: z.iter().map(|x| *x as i128).collect(), k, exact: true })
        }
        _ => {
            // arbitrary f64 fractions (checker only)
            let f: Vec<f64> = z.iter().map(|x| *x as f64 * 0.1).collect();
            let (zz, k) = decompose(&f);
            ("f64arb", Weights::F64 { f, z: zz, k, exact: false })
        }
    };
    Input { fam: format!("long_{}_{}", tname, name), dims, w, k }
}

fn gen_input(r: &mut Rng, tier: &str) -> Input {
    let big = tier == "thorough";
    let mut dims = gen_dims(r, big);
    let n: usize = dims.iter().product();
    let (fam, w) = match r.below(21) {
        20 => {
            let (d, ws) = gen_band_edge(r, dims.len() == 3);
            dims = d;
            ("i64_band_edge".to_string(), Weights::I64(ws))
        }
        0..=7 => {
            let (name, ws) = gen_int_weights(r, n, true);
            (format!("i64_{}", name), Weights::I64(ws))
        }
        8..=10 => {
            // f64 holding integers (scale 0)
            let (name, ws) = gen_int_weights(r, n, false);
            let f = ws.iter().map(|w| *w as f64).collect();
            let z = ws.iter().map(|w| *w as i128).collect();
            (format!("f64int_{}", name), Weights::F64 { f, z, k: 0, exact: true })
        }
        11..=16 => {
            let (name, z, k) = gen_dyadic(r, n);
            let scale = 2f64.powi(-(k as i32));
            let f: Vec<f64> = z.iter().map(|x| *x as f64 * scale).collect();
            debug_assert!(z.iter().sum::<i128>() < (1i128 << 53));
            (format!("f64_{}", name), Weights::F64 { f, z, k, exact: true })
        }
        _ => {
            let (name, f) = gen_arbitrary(r, n);
            let (z, k) = decompose(&f);
            (format!("f64_{}", name), Weights::F64 { f, z, k, exact: false })
        }
    };
    let k = if fam == "i64_band_edge" {
        r.range(1, 2) as usize
    } else {
        match r.below(10) {
            0 => 0,
            1 => 6,
            _ => r.range(0, 6) as usize,
        }
    };
    Input { fam, dims, w, k }
}

fn nz(x: usize) -> NonZeroUsize {
    NonZeroUsize::new(x).unwrap()
}

fn run_impl(inp: &Input, threads: usize) -> Guarded<Vec<usize>> {
    let inp = inp.clone();
    guarded(threads, Duration::from_secs(10), move || {
        let n: usize = inp.dims.iter().product();
        let mut p = vec![usize::MAX; n];
        let d = &inp.dims;
        match &inp.w {
            Weights::F64 { f, .. } => {
                if d.len() == 2 {
                    coupe::Grid::new_2d(nz(d[0]), nz(d[1])).rcb(&mut p, f, inp.k);
                } else {
                    coupe::Grid::new_3d(nz(d[0]), nz(d[1]), nz(d[2])).rcb(&mut p, f, inp.k);
                }
            }
            Weights::I64(ws) => {
                if d.len() == 2 {
                    coupe::Grid::new_2d(nz(d[0]), nz(d[1])).rcb(&mut p, ws, inp.k);
                } else {
                    coupe::Grid::new_3d(nz(d[0]), nz(d[1]), nz(d[2])).rcb(&mut p, ws, inp.k);
                }
            }
        }
        p
    })
}

fn main() {
    let a = parse_args();
    quiet_panics();
    let mut rng = Rng::new(a.seed);
    let mut w = CaseWriter::new(
        &a.out,
        "From Coupe Require Import Lib.Prelude Lib.Report Model.GridRcb Run.RunC10.",
        "case10",
        "run10",
        150,
    );
    let mut hangs = 0usize;
    let mut panics = 0usize;
    let mut n_i64 = 0usize;
    let mut n_f64_exact = 0usize;
    let mut n_f64_arb = 0usize;
    let pools: &[usize] = if a.tier == "thorough" { &POOLS_THOROUGH } else { &POOLS_QUICK };
    let mut by_pool = [0usize; 17];
    let mut cur: Option<Input> = None;
    // An i64 input whose total is >= 2^46 is run twice, in two consecutive groups of pools:
    // first tagged with the known-finding class (computed from the input alone) and judged by the
    // LITERAL clause of the property, then as an untagged twin judged by the proved clause, so
    // that a failure that is not the known finding is never suppressed.
    let mut pending_twin: Option<Input> = None;
    let mut twin = false;
    let mut n_twins = 0usize;
    // long thin grids: a few groups per quick run (in different shards), one group in 45 in the
    // thorough tier; a group that is due while a twin is pending waits for the next fresh group
    let mut long_due = 0usize;
    let mut n_long = 0usize;
    let mut n_long_cases = 0usize;
    for idx in 0..a.cases {
        let mut r = rng.fork();
        if idx % pools.len() == 0 || cur.is_none() {
            let g = idx / pools.len();
            if (a.tier != "thorough" && (g == 7 || g == 160)) || (a.tier == "thorough" && g % 45 == 7) {
                long_due += 1;
            }
            if let Some(t) = pending_twin.take() {
                cur = Some(t);
                twin = true;
            } else {
                twin = false;
                let inp = if idx == 0 {
                    // the witness of the known finding, in every run: 1 x 3 grid, total ~2^61.4
                    Input {
                        fam: "i64_band_edge_witness".to_string(),
                        dims: vec![1, 3],
                        w: Weights::I64(vec![1480445131096389888, 1, 1510353113542781918]),
                        k: 1,
                    }
                } else if long_due > 0 {
                    long_due -= 1;
                    n_long += 1;
                    gen_long(&mut r, n_long == 1)
                } else {
                    gen_input(&mut r, &a.tier)
                };
                if let Weights::I64(ws) = &inp.w {
                    if ws.iter().map(|x| *x as i128).sum::<i128>() >= (1i128 << 46) {
                        pending_twin = Some(inp.clone());
                    }
                }
                cur = Some(inp);
            }
        }
        let inp = cur.clone().unwrap();
        let threads = pools[idx % pools.len()];
        if let Some(o) = a.only {
            if o != idx {
                continue;
            }
        }
        let res = run_impl(&inp, threads);
        by_pool[threads] += 1;
        if inp.fam.starts_with("long_") {
            n_long_cases += 1;
        }
        let (coq_impl, json_impl) = match &res {
            Guarded::Done(p) => (
                format!("(IOk {})", coq_nlist(p.iter().map(|x| *x as u128))),
                format!("{{\"ok\":{}}}", json_usizes(p)),
            ),
            Guarded::Panic(m) => {
                panics += 1;
                ("IPanic".to_string(), format!("{{\"panic\":{}}}", json_str(m)))
            }
            Guarded::Hang => {
                hangs += 1;
                ("IHang".to_string(), "{\"hang\":true}".to_string())
            }
        };
        let (zs, wty_coq, wty_json, exact): (Vec<i128>, String, String, bool) = match &inp.w {
            Weights::I64(ws) => {
                n_i64 += 1;
                let tot: i128 = ws.iter().map(|x| *x as i128).sum();
                // class predicate (from the input alone) of the finding "the literal 1% + 1 unit
                // can fail by float rounding of the thresholds": i64 weights, total >= 2^46
                let tag = if tot >= (1i128 << 46) && !twin {
                    "\"weight_type\":\"i64\",\"kf\":\"gridrcb-i64-total-ge-2p46-band-rounding\""
                } else if twin {
                    n_twins += 1;
                    "\"weight_type\":\"i64\",\"untagged_twin_judged_by_proved_clause\":true"
                } else {
                    "\"weight_type\":\"i64\""
                };
                (ws.iter().map(|x| *x as i128).collect(), "I64".into(), tag.into(), true)
            }
            Weights::F64 { f, z, k, exact } => {
                if *exact {
                    n_f64_exact += 1
                } else {
                    n_f64_arb += 1
                }
                let bits: Vec<String> = f.iter().map(|x| x.to_bits().to_string()).collect();
                (
                    z.clone(),
                    format!("(F64 {})", k),
                    format!(
                        "\"weight_type\":\"f64\",\"scale_log2\":{},\"sums_exact\":{},\"weights_f64_bits\":[{}]",
                        k,
                        exact,
                        bits.join(",")
                    ),
                    *exact,
                )
            }
        };
        let coq = format!(
            "mk10 {} {} {} {} {} {} {}",
            coq_natlist(inp.dims.iter().cloned()),
            coq_zlist(zs.iter().cloned()),
            inp.k,
            threads,
            wty_coq,
            if !exact { 1 } else if twin { 2 } else { 0 },
            coq_impl
        );
        let zj: Vec<String> = zs.iter().map(|x| x.to_string()).collect();
        let json = format!(
            "{{\"dims\":{},\"weights\":[{}],{},\"iter_count\":{},\"threads\":{},\"impl\":{}}}",
            json_usizes(&inp.dims),
            zj.join(","),
            wty_json,
            inp.k,
            threads,
            json_impl
        );
        let key = format!("{:?}|{:?}|{}|{}|{}|{}", inp.dims, zs, wty_coq, inp.k, threads, twin);
        let n: usize = inp.dims.iter().product();
        let nontrivial = n >= 4 && inp.k >= 1 && zs.iter().any(|w| *w != 0);
        let fam = format!("{}d_{}{}", inp.dims.len(), inp.fam, if twin { "_twin" } else { "" });
        w.push(coq, json, &key, nontrivial, &fam);
        if hangs > 3 {
            break;
        }
    }
    let mut extra = format!(
        "\"hangs\":{},\"panics\":{},\"cases_long_axis_over_1024\":{},\"cases_i64\":{},\"cases_i64_untagged_twins\":{},\"cases_f64_exact_dyadic\":{},\"cases_f64_arbitrary_checker_only\":{}",
        hangs, panics, n_long_cases, n_i64, n_twins, n_f64_exact, n_f64_arb
    );
    for (t, n) in by_pool.iter().enumerate() {
        if *n > 0 {
            extra.push_str(&format!(",\"pool_{}\":{}", t, n));
        }
    }
    w.finish(&extra);
}

//! C10: Grid::rcb vs Model/GridRcb.v — case generator and runner.
//!
//! Consecutive cases share one input and run it under the rayon pools
//! 1,2,3,4,8,16 (quick) / 1..16 (thorough) (the median search reads
//! `rayon::current_num_threads()`); the
//! Coq side runs the model with the same T and compares the ids exactly.
use std::num::NonZeroUsize;
use std::time::Duration;
use verif_harness::*;

const POOLS_QUICK: [usize; 6] = [1, 2, 3, 4, 8, 16];
const POOLS_THOROUGH: [usize; 16] = [1, 2, 3, 4, 5, 6, 7, 8, 9, 10, 11, 12, 13, 14, 15, 16];

#[derive(Clone)]
struct Input {
    fam: String,
    dims: Vec<usize>,
    ws: Vec<i64>,
    k: usize,
    fw: bool,
}

fn gen_dims(r: &mut Rng, big: bool) -> Vec<usize> {
    let three = r.chance(1, 2);
    let max_cells: usize = if big { 1728 } else { 600 };
    loop {
        let d: Vec<usize> = if three {
            match r.below(8) {
                0 => vec![1, 1, r.range(1, 12) as usize],
                1 => vec![r.range(1, 12) as usize, 1, 1],
                2 => vec![1, r.range(1, 12) as usize, r.range(1, 12) as usize],
                3 => {
                    let s = r.range(1, 8) as usize;
                    vec![s, s, s]
                }
                _ => vec![
                    r.range(1, 12) as usize,
                    r.range(1, 12) as usize,
                    r.range(1, 12) as usize,
                ],
            }
        } else {
            match r.below(8) {
                0 => vec![1, r.range(1, 12) as usize],
                1 => vec![r.range(1, 12) as usize, 1],
                2 => {
                    let s = r.range(1, 12) as usize;
                    vec![s, s]
                }
                3 => vec![r.range(1, 3) as usize, r.range(1, 3) as usize],
                _ => vec![r.range(1, 12) as usize, r.range(1, 12) as usize],
            }
        };
        if d.iter().product::<usize>() <= max_cells {
            return d;
        }
    }
}

fn gen_input(r: &mut Rng, tier: &str) -> Input {
    let big = tier == "thorough";
    let dims = gen_dims(r, big);
    let n: usize = dims.iter().product();
    let fam = r.below(11);
    let (name, ws): (&str, Vec<i64>) = match fam {
        0 => {
            let v = *r.pick(&[1i64, 1, 2, 7, 100]);
            ("uniform", vec![v; n])
        }
        1 => {
            // sparse: most cells are empty
            let den = *r.pick(&[4u64, 8, 16]);
            ("sparse", (0..n).map(|_| if r.chance(1, den) { r.range(1, 50) } else { 0 }).collect())
        }
        2 => {
            // skewed: a few heavy cells among light ones
            ("skewed", (0..n).map(|_| if r.chance(1, 10) { r.range(100, 5000) } else { r.range(0, 3) }).collect())
        }
        3 => ("all_zero", vec![0; n]),
        4 => {
            let mut ws: Vec<i64> = (0..n).map(|_| r.range(0, 2)).collect();
            let i = r.below(n as u64) as usize;
            ws[i] = r.range(1000, 1_000_000);
            ("one_dominant", ws)
        }
        5 => ("random", (0..n).map(|_| r.range(0, 100)).collect()),
        6 => {
            // gradient along the memory order (heavy end / light end)
            let up = r.chance(1, 2);
            ("gradient", (0..n).map(|i| if up { i as i64 } else { (n - i) as i64 * 3 }).collect())
        }
        7 => {
            // two clusters at the two ends of the memory order, nothing between
            let a = (n / 5).max(1);
            ("two_clusters", (0..n).map(|i| if i < a || i + a >= n { r.range(1, 20) } else { 0 }).collect())
        }
        8 => {
            // large values (total below 2^46: inside the range of theorem C10_thresholds)
            ("large_values", (0..n).map(|_| r.range(0, 1 << 35)).collect())
        }
        10 => {
            // giant i64 values: the total (up to 2^61) is not exactly representable in f64, the
            // thresholds come from the ROUNDED total (`as f64`); correspondence only, i64 only
            let per = ((1u64 << 61) / n as u64) as i64;
            ("giant_i64", (0..n).map(|_| r.range(per / 3, per - 1)).collect())
        }
        _ => {
            // huge values: total between 2^46 and 2^52 -- outside the proved range of the
            // threshold facts, run for the model/implementation correspondence only
            let per = ((1u64 << 52) / n as u64) as i64;
            ("huge_values", (0..n).map(|_| r.range(per / 2, per - 1)).collect())
        }
    };
    let k = match r.below(10) {
        0 => 0,
        1 => 6,
        _ => r.range(0, 6) as usize,
    };
    let fw = name != "giant_i64" && r.chance(1, 3);
    Input { fam: name.to_string(), dims, ws, k, fw }
}

fn nz(x: usize) -> NonZeroUsize {
    NonZeroUsize::new(x).unwrap()
}

fn run_impl(inp: &Input, threads: usize) -> Guarded<Vec<usize>> {
    let inp = inp.clone();
    guarded(threads, Duration::from_secs(10), move || {
        let n: usize = inp.dims.iter().product();
        let mut p = vec![usize::MAX; n];
        if inp.fw {
            let ws: Vec<f64> = inp.ws.iter().map(|w| *w as f64).collect();
            if inp.dims.len() == 2 {
                coupe::Grid::new_2d(nz(inp.dims[0]), nz(inp.dims[1])).rcb(&mut p, &ws, inp.k);
            } else {
                coupe::Grid::new_3d(nz(inp.dims[0]), nz(inp.dims[1]), nz(inp.dims[2])).rcb(&mut p, &ws, inp.k);
            }
        } else if inp.dims.len() == 2 {
            coupe::Grid::new_2d(nz(inp.dims[0]), nz(inp.dims[1])).rcb(&mut p, &inp.ws, inp.k);
        } else {
            coupe::Grid::new_3d(nz(inp.dims[0]), nz(inp.dims[1]), nz(inp.dims[2])).rcb(&mut p, &inp.ws, inp.k);
        }
        p
    })
}

fn main() {
    let a = parse_args();
    quiet_panics();
    let mut rng = Rng::new(a.seed);
    let mut w = CaseWriter::new(
        &a.out,
        "From Coupe Require Import Lib.Prelude Lib.Report Run.RunC10.",
        "case10",
        "run10",
        150,
    );
    let mut hangs = 0usize;
    let mut panics = 0usize;
    let pools: &[usize] = if a.tier == "thorough" { &POOLS_THOROUGH } else { &POOLS_QUICK };
    let mut by_pool = [0usize; 17];
    let mut cur: Option<Input> = None;
    for idx in 0..a.cases {
        let mut r = rng.fork();
        if idx % pools.len() == 0 || cur.is_none() {
            cur = Some(gen_input(&mut r, &a.tier));
        }
        let inp = cur.clone().unwrap();
        let threads = pools[idx % pools.len()];
        if let Some(o) = a.only {
            if o != idx {
                continue;
            }
        }
        let res = run_impl(&inp, threads);
        by_pool[threads] += 1;
        let (coq_impl, json_impl) = match &res {
            Guarded::Done(p) => (
                format!("(IOk {})", coq_nlist(p.iter().map(|x| *x as u128))),
                format!("{{\"ok\":{}}}", json_usizes(p)),
            ),
            Guarded::Panic(m) => {
                panics += 1;
                ("IPanic".to_string(), format!("{{\"panic\":{}}}", json_str(m)))
            }
            Guarded::Hang => {
                hangs += 1;
                ("IHang".to_string(), "{\"hang\":true}".to_string())
            }
        };
        let coq = format!(
            "mk10 {} {} {} {} {} {}",
            coq_natlist(inp.dims.iter().cloned()),
            coq_zlist(inp.ws.iter().map(|x| *x as i128)),
            inp.k,
            threads,
            coq_bool(inp.fw),
            coq_impl
        );
        let json = format!(
            "{{\"dims\":{},\"weights\":{},\"weight_type\":\"{}\",\"iter_count\":{},\"threads\":{},\"impl\":{}}}",
            json_usizes(&inp.dims),
            json_i64s(&inp.ws),
            if inp.fw { "f64" } else { "i64" },
            inp.k,
            threads,
            json_impl
        );
        let key = format!("{:?}|{:?}|{}|{}|{}", inp.dims, inp.ws, inp.fw, inp.k, threads);
        let n: usize = inp.dims.iter().product();
        let nontrivial = n >= 4 && inp.k >= 1 && inp.ws.iter().any(|w| *w != 0);
        let fam = format!("{}d_{}", inp.dims.len(), inp.fam);
        w.push(coq, json, &key, nontrivial, &fam);
        if hangs > 3 {
            break;
        }
    }
    let mut extra = format!("\"hangs\":{},\"panics\":{}", hangs, panics);
    for (t, n) in by_pool.iter().enumerate() {
        if *n > 0 {
            extra.push_str(&format!(",\"pool_{}\":{}", t, n));
        }
    }
    w.finish(&extra);
}

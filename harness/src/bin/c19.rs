//! C19: partition / weight / MEDIT files vs Model/Formats.v, Model/Medit.v —
//! case generator and runner.  Everything goes through in-memory writers and
//! readers (Vec<u8>, byte slices).
use mesh_io::weight::Array;
use std::time::Duration;
use verif_harness::*;

const T: Duration = Duration::from_secs(20);

// ------------------------------------------------------------------ helpers

/// a Coq list literal; long lists are split into chunks joined by `++` (a single literal of
/// tens of thousands of elements overflows coqc's stack)
fn coq_list(items: &[String], scope: &str) -> String {
    if items.len() <= 2000 {
        return format!("[{}]%{}", items.join(";"), scope);
    }
    let parts: Vec<String> = items.chunks(2000).map(|c| format!("[{}]%{}", c.join(";"), scope)).collect();
    format!("({})", parts.join(" ++ "))
}

/// bytes cross into Coq packed 7 per primitive 63-bit integer (little endian) with the
/// length: `(len, [w0;w1;...]%uint63)`; coqc parses this ~8x faster than a `list N` literal
fn coq_bytes(b: &[u8]) -> String {
    let ws: Vec<String> = b
        .chunks(7)
        .map(|c| {
            let mut w: u64 = 0;
            for (i, x) in c.iter().enumerate() {
                w |= (*x as u64) << (8 * i);
            }
            w.to_string()
        })
        .collect();
    format!("({}, {})", b.len(), coq_list(&ws, "uint63"))
}
fn coq_opt_bytes(b: &Option<Vec<u8>>) -> String {
    match b {
        Some(b) => format!("(Some {})", coq_bytes(b)),
        None => "None".to_string(),
    }
}
fn hex(b: &[u8]) -> String {
    let mut s = String::with_capacity(2 * b.len());
    for x in b {
        s.push_str(&format!("{:02x}", x));
    }
    s
}
fn json_opt_hex(b: &Option<Vec<u8>>) -> String {
    match b {
        Some(b) => format!("\"{}\"", hex(b)),
        None => "null".to_string(),
    }
}

/// outcome of an implementation reader: Ok(coq term, json) | Err(code) | panic | hang
enum Rd {
    Ok(String, String),
    Err(u32, String),
    Panic(String),
    Hang,
}
impl Rd {
    fn coq(&self) -> String {
        match self {
            Rd::Ok(c, _) => format!("(IROk {})", c),
            Rd::Err(c, _) => format!("(IRErr {})", c),
            Rd::Panic(_) => "IRPanic".into(),
            Rd::Hang => "IRHang".into(),
        }
    }
    fn json(&self) -> String {
        match self {
            Rd::Ok(_, j) => format!("{{\"ok\":{}}}", j),
            Rd::Err(c, m) => format!("{{\"err\":{},\"msg\":{}}}", c, json_str(m)),
            Rd::Panic(m) => format!("{{\"panic\":{}}}", json_str(m)),
            Rd::Hang => "{\"hang\":true}".into(),
        }
    }
}

fn interesting_u64(r: &mut Rng) -> u64 {
    match r.below(10) {
        0 => 0,
        1 => u64::MAX,
        2 => 1 << 63,
        3 => (1 << 63) - 1,
        4 => 1 << 32,
        5 => r.below(4),
        6 => r.below(256) << (8 * r.below(8)),
        7 => r.below(1000),
        _ => r.next(),
    }
}

fn interesting_f64_bits(r: &mut Rng) -> u64 {
    match r.below(16) {
        0 => 0,                                                // +0
        1 => 1 << 63,                                          // -0
        2 => 0x7ff0_0000_0000_0000,                            // +inf
        3 => 0xfff0_0000_0000_0000,                            // -inf
        4 => 0x7ff8_0000_0000_0000,                            // canonical quiet NaN
        5 => 0x7ff0_0000_0000_0000 | (1 + r.below((1 << 51) - 1)), // signalling NaN, payload
        6 => 0xfff8_0000_0000_0000 | r.below(1 << 51),         // negative quiet NaN, payload
        7 => 1 + r.below(1 << 20),                             // small subnormal
        8 => 0x000f_ffff_ffff_ffff,                            // largest subnormal
        9 => 0x7fef_ffff_ffff_ffff,                            // f64::MAX
        10 => 0x0010_0000_0000_0000,                           // f64::MIN_POSITIVE
        11 => (r.range(-1000, 1000) as f64).to_bits(),
        12 => ((r.range(-100000, 100000) as f64) / 1000.0).to_bits(),
        13 => (r.next() as f64 * if r.chance(1, 2) { 1.0 } else { -1e-300 }).to_bits(),
        _ => r.next(),
    }
}

fn interesting_i64(r: &mut Rng) -> i64 {
    match r.below(10) {
        0 => 0,
        1 => -1,
        2 => i64::MIN,
        3 => i64::MAX,
        4 => r.range(-5, 5),
        5 => r.range(-1000, 1000),
        6 => 1 << r.below(63),
        7 => -(1 << r.below(63)),
        _ => r.next() as i64,
    }
}

// ------------------------------------------------------------------ partition files

fn read_part(bytes: Vec<u8>) -> Rd {
    let g = guarded(0, T, move || mesh_io::partition::read(&bytes[..]));
    match g {
        Guarded::Done(Ok(v)) => Rd::Ok(
            coq_nlist(v.iter().map(|x| *x as u128)),
            json_usizes(&v),
        ),
        Guarded::Done(Err(e)) => {
            let code = match e {
                mesh_io::partition::Error::BadHeader => 0,
                mesh_io::partition::Error::UnsupportedVersion => 1,
                mesh_io::partition::Error::Io(_) => 2,
            };
            Rd::Err(code, format!("{:?}", e))
        }
        Guarded::Panic(m) => Rd::Panic(m),
        Guarded::Hang => Rd::Hang,
    }
}

fn case_partition(r: &mut Rng, big: bool) -> (String, String, String, bool, &'static str) {
    let fam = r.below(5);
    let maxn = if big { 60 } else { 24 };
    let (name, ids): (&'static str, Vec<usize>) = match fam {
        0 => ("part_empty", vec![]),
        1 => {
            let n = r.range(1, maxn) as usize;
            let k = r.range(1, 9) as u64;
            ("part_small_ids", (0..n).map(|_| r.below(k) as usize).collect())
        }
        2 => {
            let n = r.range(1, maxn) as usize;
            ("part_extreme_ids", (0..n).map(|_| interesting_u64(r) as usize).collect())
        }
        3 => ("part_single", vec![interesting_u64(r) as usize]),
        _ => {
            let n = r.range(1, maxn) as usize;
            ("part_random_ids", (0..n).map(|_| r.next() as usize).collect())
        }
    };
    let ids2 = ids.clone();
    let w = guarded(0, T, move || {
        let mut buf: Vec<u8> = Vec::new();
        mesh_io::partition::write(&mut buf, ids2.iter().cloned()).map(|()| buf)
    });
    let wbytes = match w {
        Guarded::Done(Ok(b)) => Some(b),
        _ => None,
    };
    let rb = match &wbytes {
        Some(b) => read_part(b.clone()),
        None => Rd::Panic("write failed".into()),
    };
    let coq = format!(
        "KPart {} {} {}",
        coq_nlist(ids.iter().map(|x| *x as u128)),
        coq_opt_bytes(&wbytes),
        rb.coq()
    );
    let json = format!(
        "{{\"kind\":\"partition\",\"ids\":{},\"written\":{},\"read_back\":{}}}",
        json_usizes(&ids),
        json_opt_hex(&wbytes),
        rb.json()
    );
    let key = format!("P{:?}", ids);
    (coq, json, key, ids.len() >= 2, name)
}

/// read-only stream: truncated / corrupted / foreign partition files
fn case_partition_read(r: &mut Rng) -> (String, String, String, bool, &'static str) {
    let n = r.range(0, 12) as usize;
    let ids: Vec<usize> = (0..n).map(|_| interesting_u64(r) as usize).collect();
    let mut buf: Vec<u8> = Vec::new();
    mesh_io::partition::write(&mut buf, ids.iter().cloned()).unwrap();
    let name: &'static str = match r.below(7) {
        0 => {
            let k = r.below(buf.len() as u64 + 1) as usize;
            buf.truncate(k);
            "part_rd_truncated"
        }
        1 => {
            let i = r.below(4) as usize;
            buf[i] ^= 1 << r.below(8);
            "part_rd_bad_magic"
        }
        2 => {
            for _ in 0..r.range(1, 20) {
                buf.push(r.next() as u8);
            }
            "part_rd_trailing"
        }
        3 => {
            // count larger than what follows (small enough to allocate)
            let c = (n as u64) + 1 + r.below(1000);
            buf[4..12].copy_from_slice(&c.to_le_bytes());
            "part_rd_count_too_large"
        }
        4 => {
            // 8*count > isize::MAX: Vec::with_capacity panics (capacity overflow)
            let c = (1u64 << 60) + (r.next() >> 5);
            buf[4..12].copy_from_slice(&c.to_le_bytes());
            "part_rd_capacity_overflow"
        }
        5 => {
            // count smaller than the data
            let c = r.below(n as u64 + 1);
            buf[4..12].copy_from_slice(&c.to_le_bytes());
            "part_rd_count_smaller"
        }
        _ => {
            let k = r.below(30) as usize;
            buf = (0..k).map(|_| r.next() as u8).collect();
            "part_rd_garbage"
        }
    };
    let rd = read_part(buf.clone());
    let coq = format!("KPartRead {} {}", coq_bytes(&buf), rd.coq());
    let json = format!(
        "{{\"kind\":\"partition_read\",\"bytes\":\"{}\",\"read\":{}}}",
        hex(&buf),
        rd.json()
    );
    let key = format!("PR{}", hex(&buf));
    (coq, json, key, buf.len() >= 12, name)
}

// ------------------------------------------------------------------ weight files

#[derive(Clone)]
enum WArr {
    I(Vec<Vec<i64>>),
    F(Vec<Vec<u64>>), // bit patterns
}

fn warr_coq(a: &WArr) -> String {
    match a {
        WArr::I(rows) => {
            let v: Vec<String> = rows
                .iter()
                .map(|r| {
                    let w: Vec<String> = r.iter().map(|x| coq_z(*x as i128)).collect();
                    coq_list(&w, "Z")
                })
                .collect();
            format!("(WInts [{}])", v.join(";"))
        }
        WArr::F(rows) => {
            let v: Vec<String> = rows
                .iter()
                .map(|r| {
                    let w: Vec<String> = r.iter().map(|x| x.to_string()).collect();
                    coq_list(&w, "N")
                })
                .collect();
            format!("(WFloats [{}])", v.join(";"))
        }
    }
}
fn warr_json(a: &WArr) -> String {
    match a {
        WArr::I(rows) => {
            let v: Vec<String> = rows.iter().map(|r| json_i64s(r)).collect();
            format!("{{\"integers\":[{}]}}", v.join(","))
        }
        WArr::F(rows) => {
            let v: Vec<String> = rows
                .iter()
                .map(|r| {
                    let w: Vec<String> = r.iter().map(|x| format!("\"{:016x}\"", x)).collect();
                    format!("[{}]", w.join(","))
                })
                .collect();
            format!("{{\"float_bits\":[{}]}}", v.join(","))
        }
    }
}

fn read_weights(bytes: Vec<u8>) -> Rd {
    let g = guarded(0, T, move || mesh_io::weight::read(&bytes[..]));
    match g {
        Guarded::Done(Ok(a)) => {
            let w = match a {
                Array::Integers(v) => WArr::I(v),
                Array::Floats(v) => {
                    WArr::F(v.iter().map(|r| r.iter().map(|x| x.to_bits()).collect()).collect())
                }
            };
            Rd::Ok(warr_coq(&w), warr_json(&w))
        }
        Guarded::Done(Err(e)) => {
            let code = match e {
                mesh_io::weight::Error::BadHeader => 0,
                mesh_io::weight::Error::UnsupportedVersion => 1,
                mesh_io::weight::Error::Io(_) => 2,
            };
            Rd::Err(code, format!("{:?}", e))
        }
        Guarded::Panic(m) => Rd::Panic(m),
        Guarded::Hang => Rd::Hang,
    }
}

fn write_weights(a: &WArr) -> Option<Vec<u8>> {
    let a = a.clone();
    let g = guarded(0, T, move || {
        let mut buf: Vec<u8> = Vec::new();
        let r = match &a {
            WArr::I(rows) => {
                mesh_io::weight::write_integers(&mut buf, rows.iter().map(|r| r.iter().cloned()))
            }
            WArr::F(rows) => mesh_io::weight::write_floats(
                &mut buf,
                rows.iter().map(|r| r.iter().map(|b| f64::from_bits(*b))),
            ),
        };
        r.map(|()| buf)
    });
    match g {
        Guarded::Done(Ok(b)) => Some(b),
        _ => None,
    }
}

fn gen_warr(r: &mut Rng, big: bool) -> (&'static str, WArr) {
    let is_int = r.chance(1, 2);
    let fam = r.below(12);
    // (name, rows, criteria); ragged handled below
    let (name, n, c): (&'static str, usize, usize) = match fam {
        0 => (if is_int { "w_int_empty" } else { "w_float_empty" }, 0, 1),
        1 => ("w_zero_criteria", r.range(1, 4) as usize, 0),
        2 => ("w_many_criteria", r.range(1, 2) as usize, *r.pick(&[5usize, 7, 16, 17, 64, 255, 256, 257, 300])),
        3 => ("w_one_row", 1, r.range(1, 4) as usize),
        4 => ("w_ragged", r.range(2, 6) as usize, r.range(1, 4) as usize),
        _ => (
            if is_int { "w_int" } else { "w_float" },
            r.range(1, if big { 40 } else { 14 }) as usize,
            r.range(1, 4) as usize,
        ),
    };
    let mut lens: Vec<usize> = vec![c; n];
    if name == "w_ragged" {
        let i = r.range(1, n as i64 - 1) as usize;
        lens[i] = if r.chance(1, 2) { c + 1 + r.below(2) as usize } else { c - 1 };
        if r.chance(1, 4) {
            lens[0] = c + 1;
        }
    }
    let a = if is_int {
        WArr::I(lens.iter().map(|l| (0..*l).map(|_| interesting_i64(r)).collect()).collect())
    } else {
        WArr::F(lens.iter().map(|l| (0..*l).map(|_| interesting_f64_bits(r)).collect()).collect())
    };
    (name, a)
}

/// the largest criterion count the 16-bit header field holds (65535), and one more (the writer's
/// assertion): one row of small integers, so that the case stays small in the Coq file
fn case_weights_limit(r: &mut Rng, over: bool) -> (String, String, String, bool, &'static str) {
    let c = if over { 65536 } else { 65535 };
    let row: Vec<i64> = (0..c).map(|_| r.range(-3, 3)).collect();
    let name = if over { "w_65536_criteria" } else { "w_65535_criteria" };
    case_weights_of(name, WArr::I(vec![row]))
}

fn case_weights(r: &mut Rng, big: bool) -> (String, String, String, bool, &'static str) {
    let (name, a) = gen_warr(r, big);
    case_weights_of(name, a)
}

fn case_weights_of(name: &'static str, a: WArr) -> (String, String, String, bool, &'static str) {
    let wbytes = write_weights(&a);
    let rb = match &wbytes {
        Some(b) => read_weights(b.clone()),
        None => Rd::Panic("write failed".into()),
    };
    let coq = format!("KWeights {} {} {}", warr_coq(&a), coq_opt_bytes(&wbytes), rb.coq());
    let json = format!(
        "{{\"kind\":\"weights\",\"array\":{},\"written\":{},\"read_back\":{}}}",
        warr_json(&a),
        json_opt_hex(&wbytes),
        rb.json()
    );
    let key = format!("W{}", warr_json(&a));
    let nrows = match &a {
        WArr::I(v) => v.len(),
        WArr::F(v) => v.len(),
    };
    (coq, json, key, nrows >= 1, name)
}

fn case_weights_read(r: &mut Rng) -> (String, String, String, bool, &'static str) {
    let (_, a) = loop {
        let (n, a) = gen_warr(r, false);
        if n != "w_many_criteria" {
            break (n, a);
        }
    };
    let mut buf = write_weights(&a).unwrap_or_default();
    if buf.len() < 16 {
        buf = vec![b'M', b'e', b'W', b'e', 1, 0, 0, 0, 0, 0, 0, 0, 0, 0, 0, 0];
    }
    let name: &'static str = match r.below(9) {
        0 => {
            let k = r.below(buf.len() as u64 + 1) as usize;
            buf.truncate(k);
            "w_rd_truncated"
        }
        1 => {
            let i = r.below(4) as usize;
            buf[i] ^= 1 << r.below(8);
            "w_rd_bad_magic"
        }
        2 => {
            buf[4] = r.next() as u8;
            "w_rd_version"
        }
        3 => {
            // unspecified flag bits set; integer bit flipped
            buf[5] = r.next() as u8;
            "w_rd_flags"
        }
        4 => {
            let c = r.below(6) as u16;
            buf[6..8].copy_from_slice(&c.to_le_bytes());
            "w_rd_criterion_count"
        }
        5 => {
            let c = r.below(40);
            buf[8..16].copy_from_slice(&c.to_le_bytes());
            "w_rd_row_count"
        }
        6 => {
            // 24*count > isize::MAX: capacity overflow
            let c = (1u64 << 59) + (r.next() >> 6);
            buf[8..16].copy_from_slice(&c.to_le_bytes());
            "w_rd_capacity_overflow"
        }
        7 => {
            for _ in 0..r.range(1, 20) {
                buf.push(r.next() as u8);
            }
            "w_rd_trailing"
        }
        _ => {
            let k = r.below(40) as usize;
            buf = (0..k).map(|_| r.next() as u8).collect();
            if r.chance(1, 2) && k >= 5 {
                buf[..4].copy_from_slice(b"MeWe");
                buf[4] = 1;
                // a random row count in (len, isize::MAX/24] is an allocation failure = abort
                // of the whole process (not a panic): keep the count small or overflowing
                if k >= 16 {
                    let c = if r.chance(1, 2) { r.below(8) } else { u64::MAX - r.below(1 << 40) };
                    buf[8..16].copy_from_slice(&c.to_le_bytes());
                }
            }
            "w_rd_garbage"
        }
    };
    let rd = read_weights(buf.clone());
    let coq = format!("KWeightsRead {} {}", coq_bytes(&buf), rd.coq());
    let json = format!(
        "{{\"kind\":\"weights_read\",\"bytes\":\"{}\",\"read\":{}}}",
        hex(&buf),
        rd.json()
    );
    let key = format!("WR{}", hex(&buf));
    (coq, json, key, buf.len() >= 16, name)
}

// ------------------------------------------------------------------ MEDIT meshes

use mesh_io::{ElementType, Mesh};

const ETYPES: [ElementType; 7] = [
    ElementType::Vertex,
    ElementType::Edge,
    ElementType::Triangle,
    ElementType::Quadrangle,
    ElementType::Quadrilateral,
    ElementType::Tetrahedron,
    ElementType::Hexahedron,
];

/// a mesh as plain data (Mesh has no PartialEq / Clone)
#[derive(Clone, PartialEq, Debug)]
struct MeshData {
    dim: usize,
    coords: Vec<u64>, // bit patterns
    nrefs: Vec<isize>,
    topo: Vec<(ElementType, Vec<usize>, Vec<isize>)>,
}
impl MeshData {
    fn of(m: &Mesh) -> MeshData {
        MeshData {
            dim: m.dimension(),
            coords: m.coordinates().iter().map(|x| x.to_bits()).collect(),
            nrefs: m.node_refs().to_vec(),
            topo: m.topology().to_vec(),
        }
    }
    fn build(&self) -> Mesh {
        Mesh::from_raw_parts(
            self.dim,
            self.coords.iter().map(|b| f64::from_bits(*b)).collect(),
            self.nrefs.clone(),
            self.topo.clone(),
        )
    }
    fn coq(&self) -> String {
        let blocks: Vec<String> = self
            .topo
            .iter()
            .map(|(t, ns, rs)| {
                format!(
                    "mkblock {:?} {} {}",
                    t,
                    coq_nlist_hex(ns.iter().map(|x| *x as u64)),
                    coq_zlist(rs.iter().map(|x| *x as i128))
                )
            })
            .collect();
        format!(
            "(mkmesh {} {} {} [{}])",
            self.dim,
            coq_nlist_hex(self.coords.iter().cloned()),
            coq_zlist(self.nrefs.iter().map(|x| *x as i128)),
            blocks.join("; ")
        )
    }
    fn json(&self) -> String {
        let blocks: Vec<String> = self
            .topo
            .iter()
            .map(|(t, ns, rs)| {
                format!(
                    "{{\"type\":\"{:?}\",\"nodes\":{},\"refs\":{}}}",
                    t,
                    json_usizes(ns),
                    json_i64s(&rs.iter().map(|x| *x as i64).collect::<Vec<_>>())
                )
            })
            .collect();
        let cs: Vec<String> = self.coords.iter().map(|x| format!("\"{:016x}\"", x)).collect();
        format!(
            "{{\"dimension\":{},\"coordinate_bits\":[{}],\"node_refs\":{},\"topology\":[{}]}}",
            self.dim,
            cs.join(","),
            json_i64s(&self.nrefs.iter().map(|x| *x as i64).collect::<Vec<_>>()),
            blocks.join(",")
        )
    }
}

/// N literals: hexadecimal above 2^32 (coqc reads them faster)
fn coq_nlist_hex<I: IntoIterator<Item = u64>>(xs: I) -> String {
    let v: Vec<String> = xs
        .into_iter()
        .map(|x| if x >> 32 == 0 { x.to_string() } else { format!("0x{:x}", x) })
        .collect();
    format!("[{}]%N", v.join(";"))
}

fn medit_err_code(msg: &str) -> u32 {
    if msg.contains("expected token") {
        3
    } else if msg.contains("when parsing integer") {
        4
    } else if msg.contains("when parsing float") {
        5
    } else if msg.contains("io error") {
        2
    } else {
        99
    }
}

fn run_reader<R: std::io::BufRead>(which: u32, r: R) -> Result<MeshData, (u32, String)> {
    match which {
        0 => mesh_io::medit::parse_binary(r)
            .map(|m| MeshData::of(&m))
            .map_err(|e| (medit_err_code(&e.to_string()), e.to_string())),
        1 => mesh_io::medit::parse_ascii(r)
            .map(|m| MeshData::of(&m))
            .map_err(|e| (medit_err_code(&e.to_string()), e.to_string())),
        _ => Mesh::from_reader(r).map(|m| MeshData::of(&m)).map_err(|e| match e {
            mesh_io::Error::Io(e) => (2, e.to_string()),
            mesh_io::Error::Medit(e) => (medit_err_code(&e.to_string()), e.to_string()),
            other => (6, other.to_string()), // UnknownFormat, or the VTK branch
        }),
    }
}

/// which reader: 0 = medit::parse_binary, 1 = medit::parse_ascii, 2 = Mesh::from_reader.
/// The bytes are read from a slice (one contiguous buffer, what the model reads) and, when the
/// result cannot legitimately depend on the chunking (binary parser; ASCII-only text; from_reader
/// with at least 20 buffered bytes of a file the implementation wrote), again through BufReaders with
/// small buffers: a different result is reported as error 97, which no model result matches.
fn read_mesh(which: u32, bytes: Vec<u8>, written: bool) -> Rd {
    let g = guarded(0, T, move || -> Result<MeshData, (u32, String)> {
        let base = run_reader(which, &bytes[..]);
        let ascii_only = bytes.iter().all(|b| *b < 128);
        let caps: &[usize] = match which {
            0 => &[1, 3, 8, 13],
            1 if ascii_only => &[1, 2, 7, 16],
            // only for files the implementation wrote (a foreign file may start with white space)
            2 if written => &[20, 21, 64],
            _ => &[],
        };
        for cap in caps {
            let r = run_reader(which, std::io::BufReader::with_capacity(*cap, &bytes[..]));
            let same = match (&base, &r) {
                (Ok(a), Ok(b)) => a == b,
                (Err(a), Err(b)) => a.0 == b.0,
                _ => false,
            };
            if !same {
                return Err((97, format!("BufReader with capacity {} gives {:?}, a slice gives {:?}", cap, r, base)));
            }
        }
        base
    });
    match g {
        Guarded::Done(Ok(m)) => Rd::Ok(m.coq(), m.json()),
        Guarded::Done(Err((c, m))) => Rd::Err(c, m),
        Guarded::Panic(m) => Rd::Panic(m),
        Guarded::Hang => Rd::Hang,
    }
}

fn interesting_ref(r: &mut Rng) -> isize {
    match r.below(8) {
        0 => 0,
        1 => r.range(-3, 3) as isize,
        2 => isize::MIN,
        3 => isize::MAX,
        4 => -1,
        5 => r.next() as isize,
        _ => r.range(0, 50) as isize,
    }
}

/// coordinates: (family name, bits)
fn gen_coord(r: &mut Rng, fam: u64) -> u64 {
    match fam {
        0 => match r.below(8) {
            // lattice, with -0.0 and large whole numbers (exact integers up to 2^53 and beyond)
            0 => (-0.0f64).to_bits(),
            1 => ((r.range(-(1 << 53), 1 << 53)) as f64).to_bits(),
            2 => *r.pick(&[
                9007199254740991.0f64.to_bits(),  // 2^53 - 1
                (-9007199254740991.0f64).to_bits(),
                9007199254740992.0f64.to_bits(),  // 2^53
                9007199254740994.0f64.to_bits(),
                1e15f64.to_bits(),
                1e16f64.to_bits(),
                (-1e21f64).to_bits(),
                1e300f64.to_bits(),
            ]),
            _ => (r.range(-8, 8) as f64).to_bits(),
        },
        1 => ((r.range(-100000, 100000) as f64) / 1024.0).to_bits(), // dyadic
        2 => ((r.range(-100000, 100000) as f64) / 1000.0).to_bits(), // decimal fractions
        3 => loop {
            // any finite value
            let b = r.next();
            if f64::from_bits(b).is_finite() {
                break b;
            }
        },
        4 => *r.pick(&[
            0u64,
            1 << 63,
            1,
            0x000f_ffff_ffff_ffff,
            0x0010_0000_0000_0000,
            0x7fef_ffff_ffff_ffff,
            0xffef_ffff_ffff_ffff,
            0x7ff0_0000_0000_0000,
            0xfff0_0000_0000_0000,
            0x3ff0_0000_0000_0001,
            0x4340_0000_0000_0000,
            0x4415_af1d_78b5_8c40,
        ]),
        _ => interesting_f64_bits(r), // includes NaNs with payloads
    }
}

fn gen_mesh(r: &mut Rng, big: bool) -> (&'static str, MeshData) {
    let dim = match r.below(12) {
        0 => 1,
        1 => 4,
        x if x < 7 => 2,
        _ => 3,
    };
    let nn = match r.below(8) {
        0 => 0,
        1 => 1,
        _ => r.range(2, if big { 20 } else { 9 }) as usize,
    };
    let cfam = r.below(6);
    let coords: Vec<u64> = (0..nn * dim).map(|_| gen_coord(r, cfam)).collect();
    let nrefs: Vec<isize> = (0..nn).map(|_| interesting_ref(r)).collect();
    let nb = match r.below(6) {
        0 => 0,
        1 => 1,
        _ => r.range(1, 5) as usize,
    };
    // element types: mostly the property's list; sometimes Vertex / Quadrangle
    let exotic = r.chance(1, 4);
    let wild_nodes = r.chance(1, 8);
    let mut topo = Vec::new();
    for _ in 0..nb {
        let t = if exotic && r.chance(1, 2) {
            *r.pick(&[ElementType::Vertex, ElementType::Quadrangle])
        } else {
            *r.pick(&[
                ElementType::Edge,
                ElementType::Triangle,
                ElementType::Quadrilateral,
                ElementType::Tetrahedron,
                ElementType::Hexahedron,
            ])
        };
        let ne = match r.below(6) {
            0 => 0,
            1 => 1,
            _ => r.range(1, if big { 8 } else { 4 }) as usize,
        };
        let nodes: Vec<usize> = (0..ne * t.node_count())
            .map(|_| {
                if wild_nodes {
                    match r.below(16) {
                        0..=3 => (i64::MAX - 1) as usize, // largest node number the binary writer can increment
                        4..=7 => (r.next() >> 1).min((i64::MAX - 1) as u64) as usize,
                        // outside the contract: `node as i64 + 1` / `node + 1` overflow in the writers
                        // (debug profile), `0 - 1` in the binary reader
                        8 => i64::MAX as usize,
                        9 => usize::MAX,
                        10 => usize::MAX - 1,
                        _ => r.below(1 << 33) as usize,
                    }
                } else if nn > 0 {
                    r.below(nn as u64) as usize
                } else {
                    r.below(3) as usize
                }
            })
            .collect();
        let refs: Vec<isize> = (0..ne).map(|_| interesting_ref(r)).collect();
        topo.push((t, nodes, refs));
    }
    let name = match (exotic && topo.iter().any(|b| b.0 == ElementType::Vertex || b.0 == ElementType::Quadrangle), cfam) {
        (true, _) => "mesh_vertex_or_quadrangle_blocks",
        (_, 0) => "mesh_lattice",
        (_, 1) => "mesh_dyadic",
        (_, 2) => "mesh_decimal",
        (_, 3) => "mesh_any_finite",
        (_, 4) => "mesh_extreme_coords",
        _ => "mesh_nonfinite_coords",
    };
    (name, MeshData { dim, coords, nrefs, topo })
}

fn case_medit_bin(r: &mut Rng, big: bool) -> (String, String, String, bool, &'static str) {
    let (name, md) = gen_mesh(r, big);
    let md2 = md.clone();
    let w = guarded(0, T, move || {
        let mesh = md2.build();
        let mut buf: Vec<u8> = Vec::new();
        mesh.serialize_medit_binary(&mut buf).map(|()| buf)
    });
    let wbytes = match w {
        Guarded::Done(Ok(b)) => Some(b),
        _ => None,
    };
    let rb = match &wbytes {
        Some(b) => read_mesh(2, b.clone(), true),
        None => Rd::Panic("write failed".into()),
    };
    let coq = format!("KMeditBin {} {} {}", md.coq(), coq_opt_bytes(&wbytes), rb.coq());
    let json = format!(
        "{{\"kind\":\"medit_binary\",\"mesh\":{},\"written\":{},\"read_back\":{}}}",
        md.json(),
        json_opt_hex(&wbytes),
        rb.json()
    );
    let key = format!("MB{}", md.json());
    let nontrivial = !md.nrefs.is_empty() && !md.topo.is_empty();
    (coq, json, key, nontrivial, name)
}

/// every distinct whitespace-separated word of the text that Rust parses as an f64, with the bits
fn float_words(bytes: &[u8]) -> Vec<(Vec<u8>, u64)> {
    let text = String::from_utf8_lossy(bytes);
    let mut seen = std::collections::BTreeSet::new();
    let mut out = Vec::new();
    for w in text.split_whitespace() {
        if let Ok(x) = w.parse::<f64>() {
            if seen.insert(w.to_string()) {
                out.push((w.as_bytes().to_vec(), x.to_bits()));
            }
        }
    }
    out
}
fn coq_rtab(t: &[(Vec<u8>, u64)]) -> String {
    let v: Vec<String> = t
        .iter()
        .map(|(w, b)| format!("({}, {})", coq_bytes(w), if b >> 32 == 0 { b.to_string() } else { format!("0x{:x}", b) }))
        .collect();
    format!("[{}]%N", v.join(";"))
}

fn case_medit_ascii(r: &mut Rng, big: bool) -> (String, String, String, bool, &'static str) {
    let (name, md) = gen_mesh(r, big);
    let md2 = md.clone();
    let w = guarded(0, T, move || {
        let mesh = md2.build();
        mesh.display_medit_ascii().to_string().into_bytes()
    });
    let wbytes = match w {
        Guarded::Done(b) => Some(b),
        _ => None,
    };
    // print table: Display of every distinct coordinate
    let mut seen = std::collections::BTreeSet::new();
    let mut pt = Vec::new();
    for b in &md.coords {
        if seen.insert(*b) {
            // Rust std alone, independent of mesh-io: the Display text of the coordinate and what
            // FromStr makes of that text (the hypothesis float_ok is evaluated on this triple)
            let text = format!("{}", f64::from_bits(*b));
            let back = match text.parse::<f64>() {
                Ok(y) => {
                    let y = y.to_bits();
                    format!("(Some {})", if y >> 32 == 0 { y.to_string() } else { format!("0x{:x}", y) })
                }
                Err(_) => "None".to_string(),
            };
            pt.push(format!(
                "({}, {}, {})",
                if b >> 32 == 0 { b.to_string() } else { format!("0x{:x}", b) },
                coq_bytes(text.as_bytes()),
                back
            ));
        }
    }
    let rt = match &wbytes {
        Some(b) => float_words(b),
        None => vec![],
    };
    let rb = match &wbytes {
        Some(b) => read_mesh(2, b.clone(), true),
        None => Rd::Panic("write failed".into()),
    };
    let coq = format!(
        "KMeditAscii {} [{}]%N {} {} {}",
        md.coq(),
        pt.join(";"),
        coq_rtab(&rt),
        coq_opt_bytes(&wbytes),
        rb.coq()
    );
    let json = format!(
        "{{\"kind\":\"medit_ascii\",\"mesh\":{},\"written\":{},\"read_back\":{}}}",
        md.json(),
        match &wbytes {
            Some(b) => json_str(&String::from_utf8_lossy(b)),
            None => "null".into(),
        },
        rb.json()
    );
    let key = format!("MA{}", md.json());
    let nontrivial = !md.nrefs.is_empty() && !md.topo.is_empty();
    (coq, json, key, nontrivial, name)
}


// ---- read-only streams: foreign / malformed MEDIT files, sniffing

/// a MEDIT binary file of any version / byte order, written independently of mesh-io
struct BinEnc {
    le: bool,
    version: i32,
    out: Vec<u8>,
}
impl BinEnc {
    fn key(&mut self, x: i32) {
        let b = if self.le { x.to_le_bytes() } else { x.to_be_bytes() };
        self.out.extend_from_slice(&b);
    }
    fn i64_(&mut self, x: i64) {
        let b = if self.le { x.to_le_bytes() } else { x.to_be_bytes() };
        self.out.extend_from_slice(&b);
    }
    fn int(&mut self, x: i64) {
        if self.version >= 4 {
            self.i64_(x)
        } else {
            self.key(x as i32)
        }
    }
    fn pos(&mut self, x: i64) {
        if self.version >= 3 {
            self.i64_(x)
        } else {
            self.key(x as i32)
        }
    }
    fn float(&mut self, bits: u64) {
        if self.version >= 2 {
            let b = if self.le { bits.to_le_bytes() } else { bits.to_be_bytes() };
            self.out.extend_from_slice(&b);
        } else {
            // version 1 stores f32: take the low 32 bits as the f32 pattern
            let v = bits as u32;
            let b = if self.le { v.to_le_bytes() } else { v.to_be_bytes() };
            self.out.extend_from_slice(&b);
        }
    }
}

fn interesting_f32_bits(r: &mut Rng) -> u32 {
    match r.below(12) {
        0 => 0,
        1 => 1 << 31,
        2 => 0x7f80_0000,
        3 => 0xff80_0000,
        4 => 0x7fc0_0000,
        5 => 0x7f80_0000 | (1 + r.below((1 << 22) - 1)) as u32, // signalling NaN
        6 => 0xffc0_0000 | r.below(1 << 22) as u32,
        7 => 1 + r.below(1 << 22) as u32, // subnormal
        8 => 0x007f_ffff,
        9 => 0x7f7f_ffff,
        10 => (r.range(-1000, 1000) as f32 / 8.0).to_bits(),
        _ => r.next() as u32,
    }
}

fn case_medit_bin_read(r: &mut Rng) -> (String, String, String, bool, &'static str) {
    let version = r.range(1, 4) as i32;
    let le = r.chance(2, 3);
    let mut e = BinEnc { le, version, out: Vec::new() };
    let fam = r.below(14);
    // header
    if le {
        e.out.extend_from_slice(&[1, 0, 0, 0]);
    } else {
        e.out.extend_from_slice(&[0, 0, 0, 1]);
    }
    e.key(version);
    e.key(3);
    e.pos(r.range(0, 1000));
    let dim = if fam == 9 { *r.pick(&[0i32, -1, 5]) } else { r.range(1, 3) as i32 };
    e.key(dim);
    let nn = r.range(0, 5);
    let udim = if (0..=5).contains(&dim) { dim as usize } else { 0 };
    let sections = r.range(0, 4);
    let mut name: &'static str = "medit_binrd_valid";
    for sct in 0..=sections {
        if sct == 0 || r.chance(1, 6) {
            e.key(4);
            e.pos(r.next() as i64);
            let cnt = if fam == 10 { *r.pick(&[-1i64, -5, i32::MIN as i64]) } else { nn };
            e.int(cnt);
            for _ in 0..nn {
                for _ in 0..udim {
                    let b = if version == 1 { interesting_f32_bits(r) as u64 } else { interesting_f64_bits(r) };
                    e.float(b);
                }
                e.int(interesting_ref(r) as i64);
            }
        } else {
            let code = if fam == 11 { *r.pick(&[0i32, 10, 53, -1, 3]) } else { r.range(5, 9) as i32 };
            e.key(code);
            e.pos(r.next() as i64);
            let npe = match code { 5 => 2, 6 => 3, 7 | 8 => 4, 9 => 8, _ => 1 };
            let ne = r.range(0, 3);
            e.int(ne);
            for _ in 0..ne {
                for _ in 0..npe {
                    let v = if fam == 12 && r.chance(1, 3) { *r.pick(&[0i64, -1, -7]) } else { r.range(1, 9) };
                    e.int(v);
                }
                e.int(interesting_ref(r) as i64);
            }
        }
    }
    if fam != 8 {
        e.key(54); // End (family 8: end of file instead)
    }
    let mut buf = e.out;
    match fam {
        0 | 1 => {
            let k = r.below(buf.len() as u64 + 1) as usize;
            buf.truncate(k);
            name = "medit_binrd_truncated";
        }
        2 => {
            buf[r.below(4) as usize] ^= 1 << r.below(8);
            name = "medit_binrd_bad_magic";
        }
        3 => {
            let v = *r.pick(&[0i32, 5, -1, 256]);
            let b = if le { v.to_le_bytes() } else { v.to_be_bytes() };
            buf[4..8].copy_from_slice(&b);
            name = "medit_binrd_bad_version";
        }
        4 => {
            let v = *r.pick(&[4i32, 0, 54]);
            let b = if le { v.to_le_bytes() } else { v.to_be_bytes() };
            buf[8..12].copy_from_slice(&b);
            name = "medit_binrd_bad_dimension_code";
        }
        5 => {
            for _ in 0..r.range(1, 9) {
                buf.push(r.next() as u8);
            }
            name = "medit_binrd_trailing";
        }
        8 => name = "medit_binrd_eof_instead_of_end",
        9 => name = "medit_binrd_odd_dimension",
        10 => name = "medit_binrd_negative_count",
        11 => name = "medit_binrd_unknown_code",
        12 => name = "medit_binrd_node_zero_or_negative",
        _ => {}
    }
    let which = if r.chance(1, 4) { 2 } else { 0 };
    let rd = read_mesh(which, buf.clone(), false);
    let coq = format!("KMeditRead {} []%N {} {}", which, coq_bytes(&buf), rd.coq());
    let json = format!(
        "{{\"kind\":\"medit_binary_read\",\"reader\":{},\"version\":{},\"little_endian\":{},\"bytes\":\"{}\",\"read\":{}}}",
        which, version, le, hex(&buf), rd.json()
    );
    let key = format!("MBR{}{}", which, hex(&buf));
    (coq, json, key, buf.len() > 24, name)
}

fn case_medit_ascii_read(r: &mut Rng) -> (String, String, String, bool, &'static str) {
    // start from a file the implementation wrote, without non-finite coordinates
    let text = loop {
        let (n, md) = gen_mesh(r, false);
        if n == "mesh_nonfinite_coords" {
            continue;
        }
        // a node number of usize::MAX makes the writer panic (`node + 1`): take another mesh
        match std::panic::catch_unwind(move || md.build().display_medit_ascii().to_string()) {
            Ok(t) => break t,
            Err(_) => continue,
        }
    };
    let fam = r.below(16);
    let mut name: &'static str = "medit_ascrd_valid";
    let mut buf: Vec<u8> = text.clone().into_bytes();
    match fam {
        0 => {
            buf = text.to_uppercase().into_bytes();
            name = "medit_ascrd_uppercase";
        }
        1 => {
            buf = text.replace('\n', "\r\n").replace(' ', " \t ").into_bytes();
            name = "medit_ascrd_crlf_tabs";
        }
        2 => {
            buf = format!(" \n\t {}", text).into_bytes();
            name = "medit_ascrd_leading_space";
        }
        3 => {
            let k = r.below(buf.len() as u64 + 1) as usize;
            buf.truncate(k);
            name = "medit_ascrd_truncated";
        }
        4 => {
            // junk between an element keyword and its count, on the same line / the next line
            let junk = if r.chance(1, 2) { " junk 3d" } else { "\njunk" };
            buf = text
                .replace("Triangles\n", &format!("Triangles{}\n", junk))
                .replace("Edges\n", &format!("Edges{}\n", junk))
                .into_bytes();
            name = "medit_ascrd_junk_after_keyword";
        }
        5 => {
            buf = text
                .replace("\nEnd", "\nCorners\n2\n 1\n 2\n\nRidges 0\nRequiredVertices\n1\n 1\n\nEnd")
                .into_bytes();
            name = "medit_ascrd_skipped_sections";
        }
        6 => {
            buf = text.replace("\nEnd", "\nNormals\n0\nEnd").into_bytes();
            name = "medit_ascrd_unknown_section";
        }
        7 => {
            // drop the last word (the reference) of some lines
            let lines: Vec<String> = text
                .lines()
                .map(|l| {
                    if l.starts_with(' ') && r.chance(1, 3) {
                        let mut w: Vec<&str> = l.split(' ').collect();
                        w.pop();
                        w.join(" ")
                    } else {
                        l.to_string()
                    }
                })
                .collect();
            buf = lines.join("\n").into_bytes();
            name = "medit_ascrd_missing_words";
        }
        8 => {
            let lines: Vec<String> = text
                .lines()
                .map(|l| if l.starts_with(' ') && r.chance(1, 4) { format!("{} 7", l) } else { l.to_string() })
                .collect();
            buf = lines.join("\n").into_bytes();
            name = "medit_ascrd_extra_words";
        }
        9 => {
            buf = text.replace("\nEnd", "\n").into_bytes();
            name = "medit_ascrd_missing_end";
        }
        10 => {
            buf = text.replace(" 1 ", " 0 ").replace(" 2 ", " +2 ").into_bytes();
            name = "medit_ascrd_zero_or_plus_numbers";
        }
        11 => {
            let i = r.below(buf.len() as u64) as usize;
            buf[i] = *r.pick(&[0xffu8, 0xc3, 0x80, 0xe2]);
            name = "medit_ascrd_invalid_utf8";
        }
        12 => {
            buf = text.replacen(" ", "\u{a0}", 3).replacen("\n ", "\n\u{2003}", 2).into_bytes();
            name = "medit_ascrd_unicode_space";
        }
        13 => {
            buf = text
                .replace("\t", "\t-")
                .replace("Dimension ", if r.chance(1, 2) { "Dimension 0" } else { "Dimensions " })
                .into_bytes();
            name = "medit_ascrd_bad_counts";
        }
        14 => {
            let i = r.below(buf.len() as u64) as usize;
            buf[i] = *r.pick(&[b' ', b'x', b'\n', b'-', b'.', b'e', b'9']);
            name = "medit_ascrd_one_byte_changed";
        }
        _ => {}
    }
    let which = if r.chance(1, 3) { 2 } else { 1 };
    let rt = float_words(&buf);
    let rd = read_mesh(which, buf.clone(), false);
    let coq = format!("KMeditRead {} {} {} {}", which, coq_rtab(&rt), coq_bytes(&buf), rd.coq());
    let json = format!(
        "{{\"kind\":\"medit_ascii_read\",\"reader\":{},\"text\":{},\"bytes\":\"{}\",\"read\":{}}}",
        which,
        json_str(&String::from_utf8_lossy(&buf)),
        hex(&buf),
        rd.json()
    );
    let key = format!("MAR{}{}", which, hex(&buf));
    (coq, json, key, buf.len() > 40, name)
}

fn case_sniff(r: &mut Rng) -> (String, String, String, bool, &'static str) {
    let hdr = "MeshVersionFormatted";
    let fam = r.below(10);
    let mut buf: Vec<u8> = Vec::new();
    let name: &'static str = match fam {
        0 => {
            buf.extend_from_slice(if r.chance(1, 2) { &[1, 0, 0, 0] } else { &[0, 0, 0, 1] });
            for _ in 0..r.below(12) {
                buf.push(r.next() as u8);
            }
            "sniff_binary_magic"
        }
        1 => {
            let k = r.below(6) as usize;
            buf = (0..k).map(|_| *r.pick(&[0u8, 1, 0, 0, 77])).collect();
            "sniff_short"
        }
        2 => {
            // header in mixed case after white space (ASCII and Unicode)
            for _ in 0..r.below(4) {
                buf.extend_from_slice(r.pick(&[" ", "\n", "\t", "\r", "\u{a0}", "\u{2003}", "\u{3000}", "\u{85}", "\u{b}"]).as_bytes());
            }
            for c in hdr.chars() {
                let c = if r.chance(1, 2) { c.to_ascii_uppercase() } else { c.to_ascii_lowercase() };
                buf.push(c as u8);
            }
            for _ in 0..r.below(10) {
                buf.push(*r.pick(&[b' ', b'2', b'\n', b'x']));
            }
            "sniff_ascii_header"
        }
        3 => {
            let k = r.range(0, 20) as usize;
            buf = hdr.as_bytes()[..k].to_vec();
            if r.chance(1, 2) {
                buf.insert(0, b' ');
            }
            "sniff_header_prefix"
        }
        4 => {
            // 19 header bytes then a multi-byte character: `header[..20]` is not a char boundary
            buf = hdr.as_bytes()[..19].to_vec();
            buf.extend_from_slice(r.pick(&["é", "€", "\u{1F600}"]).as_bytes());
            buf.extend_from_slice(b" 2");
            "sniff_header_char_boundary"
        }
        5 => {
            buf = hdr.as_bytes().to_vec();
            buf.extend_from_slice(b" 2\n");
            buf.push(*r.pick(&[0xffu8, 0x80, 0xc3]));
            "sniff_invalid_utf8_later"
        }
        6 => {
            buf = hdr.as_bytes().to_vec();
            let i = r.below(20) as usize;
            buf[i] = *r.pick(&[b'x', b' ', 0xc3, b'0']);
            "sniff_header_one_byte_off"
        }
        7 => {
            buf = hdr.as_bytes().to_vec();
            buf.extend_from_slice("é 2".as_bytes());
            "sniff_header_then_multibyte"
        }
        _ => {
            let k = r.below(30) as usize;
            buf = (0..k).map(|_| if r.chance(3, 4) { r.below(128) as u8 } else { r.next() as u8 }).collect();
            "sniff_random"
        }
    };
    let bin = mesh_io::medit::test_format_binary(&buf);
    let b2 = buf.clone();
    let asc = match guarded(0, T, move || mesh_io::medit::test_format_ascii(&b2)) {
        Guarded::Done(b) => format!("(IROk {})", coq_bool(b)),
        Guarded::Panic(_) => "IRPanic".to_string(),
        Guarded::Hang => "IRHang".to_string(),
    };
    let coq = format!("KSniff {} {} {}", coq_bytes(&buf), coq_bool(bin), asc);
    let json = format!(
        "{{\"kind\":\"sniff\",\"bytes\":\"{}\",\"binary\":{},\"ascii\":{}}}",
        hex(&buf),
        bin,
        json_str(&asc)
    );
    let key = format!("S{}", hex(&buf));
    (coq, json, key, buf.len() >= 4, name)
}



// ------------------------------------------------------------------ header-field boundaries
// Values given by a formula of (seed, row, column), evaluated identically in Run/RunC19.v
// (gen_val, dstep, digest_bytes, digest_vals): the case file stays small, the judgement
// (row lengths = criterion count, same values) is made in Coq.

const GEN_SPECIALS: [u64; 8] = [
    0,
    9223372036854775808,
    9218868437227405312,
    18442240474082181120,
    9221120237041090560,
    9218868437227405313,
    9218868437227405311,
    1,
];
fn gen_val(seed: u64, r: u64, c: u64) -> u64 {
    let v0 = seed
        .wrapping_add(r.wrapping_mul(11400714819323198485))
        .wrapping_add(c.wrapping_mul(13787848793156543929));
    let v = v0 ^ (v0 >> 31);
    if v >> 60 == 0 {
        GEN_SPECIALS[(v & 7) as usize]
    } else {
        v
    }
}
fn dstep(h: u64, x: u64) -> u64 {
    (h << 5).wrapping_add(h >> 2).wrapping_add(h).wrapping_add(x).wrapping_add(1)
}
const DINIT: u64 = 14695981039346656037;
fn digest_bytes(b: &[u8]) -> u64 {
    let mut h = DINIT;
    let mut it = b.chunks_exact(8);
    for c in &mut it {
        h = dstep(h, u64::from_le_bytes(c.try_into().unwrap()));
    }
    for x in it.remainder() {
        h = dstep(h, *x as u64);
    }
    h
}
fn digest_vals<I: IntoIterator<Item = u64>>(xs: I) -> u64 {
    xs.into_iter().fold(DINIT, dstep)
}
fn coq_sum(b: &Option<Vec<u8>>) -> String {
    match b {
        Some(b) => format!("(Some ({}, {}))", b.len(), digest_bytes(b)),
        None => "None".into(),
    }
}

const CRIT_BOUNDARIES: [usize; 13] =
    [255, 256, 257, 4095, 4096, 8191, 8192, 8193, 8197, 16384, 32767, 32768, 65535];

/// `slot`: which boundary case of the run this is (one per shard of 100 cases): every run of
/// 1600 cases visits all 13 criterion-count boundaries once, with 1..3 rows (0 rows one time in 8)
fn case_weights_big(r: &mut Rng, slot: usize, rows_field: bool) -> (String, String, String, bool, &'static str) {
    let is_int = r.chance(1, 2);
    let seed = r.next();
    // criterion counts at the boundaries of the 16-bit header field, few rows; or one / two
    // criteria and a row count around 2^16 (the u64 row-count field)
    let (crit, rows, name): (usize, usize, &'static str) = if rows_field {
        (1, *r.pick(&[65535usize, 65536, 65537]), "wbig_rows_2pow16")
    } else {
        let c = CRIT_BOUNDARIES[slot % CRIT_BOUNDARIES.len()];
        let n = if r.chance(1, 8) { 0 } else if c >= 16384 { 1 + r.below(2) as usize } else { 1 + r.below(3) as usize };
        (c, n, if n == 0 { "wbig_no_rows" } else if c >= 8192 { "wbig_criteria_ge_8192" } else { "wbig_criteria_lt_8192" })
    };
    let vals: Vec<Vec<u64>> =
        (0..rows).map(|i| (0..crit).map(|j| gen_val(seed, i as u64, j as u64)).collect()).collect();
    let a = if is_int {
        WArr::I(vals.iter().map(|row| row.iter().map(|x| *x as i64).collect()).collect())
    } else {
        WArr::F(vals.clone())
    };
    let wbytes = write_weights(&a);
    let (rb_coq, rb_json) = match &wbytes {
        None => ("IRPanic".to_string(), "{\"panic\":\"write failed\"}".to_string()),
        Some(b) => {
            let b = b.clone();
            match guarded(0, T, move || mesh_io::weight::read(&b[..])) {
                Guarded::Done(Ok(arr)) => {
                    let (tag, lens, d): (bool, Vec<usize>, u64) = match &arr {
                        Array::Integers(v) => (
                            true,
                            v.iter().map(|x| x.len()).collect(),
                            digest_vals(v.iter().flat_map(|x| x.iter().map(|y| *y as u64))),
                        ),
                        Array::Floats(v) => (
                            false,
                            v.iter().map(|x| x.len()).collect(),
                            digest_vals(v.iter().flat_map(|x| x.iter().map(|y| y.to_bits()))),
                        ),
                    };
                    let lens_s: Vec<String> = lens.iter().map(|x| x.to_string()).collect();
                    // run-length form of the row lengths for the JSON (they are all equal when correct)
                    let mut distinct = lens.clone();
                    distinct.dedup();
                    (
                        format!("(IROk ({}, {}, {}))", coq_bool(tag), coq_list(&lens_s, "N"), d),
                        format!(
                            "{{\"ok\":{{\"integers\":{},\"rows\":{},\"distinct_row_lengths\":{},\"digest\":{}}}}}",
                            tag,
                            lens.len(),
                            json_usizes(&distinct),
                            d
                        ),
                    )
                }
                Guarded::Done(Err(e)) => {
                    let code = match e {
                        mesh_io::weight::Error::BadHeader => 0,
                        mesh_io::weight::Error::UnsupportedVersion => 1,
                        mesh_io::weight::Error::Io(_) => 2,
                    };
                    (format!("(IRErr {})", code), format!("{{\"err\":{}}}", json_str(&format!("{:?}", e))))
                }
                Guarded::Panic(m) => ("IRPanic".to_string(), format!("{{\"panic\":{}}}", json_str(&m))),
                Guarded::Hang => ("IRHang".to_string(), "{\"hang\":true}".to_string()),
            }
        }
    };
    let coq = format!(
        "KWeightsBig {} {} {} {} {} {}",
        coq_bool(is_int),
        crit,
        rows,
        seed,
        coq_sum(&wbytes),
        rb_coq
    );
    let first: Vec<String> = vals.first().map(|r| r.iter().take(4).map(|x| format!("\"{:016x}\"", x)).collect()).unwrap_or_default();
    let json = format!(
        "{{\"kind\":\"weights_boundary\",\"integers\":{},\"criteria\":{},\"rows\":{},\"value_formula\":\"gen_val(seed={}, row, column) of harness/src/bin/c19.rs = Run/RunC19.v (64-bit patterns; integers: as i64)\",\"first_values_bits\":[{}],\"written_len\":{},\"read_back\":{}}}",
        is_int,
        crit,
        rows,
        seed,
        first.join(","),
        wbytes.as_ref().map(|b| b.len() as i64).unwrap_or(-1),
        rb_json
    );
    let key = format!("WB{}|{}|{}|{}", is_int, crit, rows, seed);
    (coq, json, key, rows >= 1, name)
}

fn case_partition_big(r: &mut Rng, large: bool) -> (String, String, String, bool, &'static str) {
    let seed = r.next();
    let n = if large { *r.pick(&[65535usize, 65536, 65537]) } else { *r.pick(&[255usize, 256, 257, 70000]) };
    let ids: Vec<usize> = (0..n).map(|j| gen_val(seed, 0, j as u64) as usize).collect();
    let mut buf: Vec<u8> = Vec::new();
    let wbytes = match mesh_io::partition::write(&mut buf, ids.iter().cloned()) {
        Ok(()) => Some(buf),
        Err(_) => None,
    };
    let (rb_coq, rb_json) = match &wbytes {
        None => ("IRPanic".to_string(), "{\"panic\":\"write failed\"}".to_string()),
        Some(b) => {
            let b = b.clone();
            match guarded(0, T, move || mesh_io::partition::read(&b[..])) {
                Guarded::Done(Ok(v)) => {
                    let d = digest_vals(v.iter().map(|x| *x as u64));
                    (
                        format!("(IROk ({}, {}))", v.len(), d),
                        format!("{{\"ok\":{{\"len\":{},\"digest\":{}}}}}", v.len(), d),
                    )
                }
                Guarded::Done(Err(e)) => {
                    let code = match e {
                        mesh_io::partition::Error::BadHeader => 0,
                        mesh_io::partition::Error::UnsupportedVersion => 1,
                        mesh_io::partition::Error::Io(_) => 2,
                    };
                    (format!("(IRErr {})", code), format!("{{\"err\":{}}}", json_str(&format!("{:?}", e))))
                }
                Guarded::Panic(m) => ("IRPanic".to_string(), format!("{{\"panic\":{}}}", json_str(&m))),
                Guarded::Hang => ("IRHang".to_string(), "{\"hang\":true}".to_string()),
            }
        }
    };
    let coq = format!("KPartBig {} {} {} {}", n, seed, coq_sum(&wbytes), rb_coq);
    let json = format!(
        "{{\"kind\":\"partition_boundary\",\"ids\":{},\"value_formula\":\"gen_val(seed={}, 0, index)\",\"written_len\":{},\"read_back\":{}}}",
        n,
        seed,
        wbytes.as_ref().map(|b| b.len() as i64).unwrap_or(-1),
        rb_json
    );
    let key = format!("PB{}|{}", n, seed);
    (coq, json, key, true, "pbig_ids_2pow8_2pow16")
}


/// a mesh given by the same formula as Run/RunC19.gen_mesh
fn gen_mesh_big(tab: bool, dim: usize, n: usize, e: usize, seed: u64) -> MeshData {
    let coord_tab: [u64; 8] = [
        0.0f64.to_bits(),
        (-0.0f64).to_bits(),
        1.0f64.to_bits(),
        (-1.5f64).to_bits(),
        0.1f64.to_bits(),
        1e15f64.to_bits(),
        0.000025f64.to_bits(),
        9007199254740994.0f64.to_bits(),
    ];
    let nmask: u64 = if n >= 65536 { 65535 } else { 3 };
    let coords = (0..dim * n)
        .map(|i| {
            let v = gen_val(seed, 0, i as u64);
            if tab { coord_tab[(v & 7) as usize] } else { v }
        })
        .collect();
    let nrefs = (0..n).map(|i| gen_val(seed, 1, i as u64) as isize).collect();
    let topo = vec![
        (ElementType::Triangle, vec![0, 1, 2], vec![gen_val(seed, 4, 0) as isize]),
        (
            ElementType::Edge,
            (0..2 * e).map(|k| (gen_val(seed, 2, k as u64) & nmask) as usize).collect(),
            (0..e).map(|k| gen_val(seed, 3, k as u64) as isize).collect(),
        ),
    ];
    MeshData { dim, coords, nrefs, topo }
}

fn ty_idx(t: ElementType) -> u64 {
    match t {
        ElementType::Vertex => 0,
        ElementType::Edge => 1,
        ElementType::Triangle => 2,
        ElementType::Quadrangle => 3,
        ElementType::Quadrilateral => 4,
        ElementType::Tetrahedron => 5,
        ElementType::Hexahedron => 6,
    }
}
/// (dimension, #nodes, #elements, digest) as Run/RunC19.mesh_sum
fn mesh_sum(m: &MeshData) -> (usize, usize, usize, u64) {
    let mut v: Vec<u64> = vec![m.dim as u64, m.coords.len() as u64];
    v.extend(m.coords.iter().cloned());
    v.push(m.nrefs.len() as u64);
    v.extend(m.nrefs.iter().map(|x| *x as u64));
    v.push(m.topo.len() as u64);
    for (t, ns, rs) in &m.topo {
        v.push(ty_idx(*t));
        v.push(ns.len() as u64);
        v.extend(ns.iter().map(|x| *x as u64));
        v.push(rs.len() as u64);
        v.extend(rs.iter().map(|x| *x as u64));
    }
    (m.dim, m.nrefs.len(), m.topo.iter().map(|b| b.2.len()).sum(), digest_vals(v))
}

fn case_medit_big(r: &mut Rng, ascii: bool, many_nodes: bool) -> (String, String, String, bool, &'static str) {
    let seed = r.next();
    let dim = 2 + r.below(2) as usize;
    let big = *r.pick(&[65535usize, 65536, 65537]);
    let (n, e) = if many_nodes { (big, 1 + r.below(5) as usize) } else { (4 + r.below(5) as usize, big) };
    let md = gen_mesh_big(ascii, dim, n, e, seed);
    let md2 = md.clone();
    let w = guarded(0, T, move || -> Option<Vec<u8>> {
        let mesh = md2.build();
        if ascii {
            Some(mesh.display_medit_ascii().to_string().into_bytes())
        } else {
            let mut buf: Vec<u8> = Vec::new();
            mesh.serialize_medit_binary(&mut buf).ok().map(|()| buf)
        }
    });
    let wbytes = match w {
        Guarded::Done(b) => b,
        _ => None,
    };
    // std alone: text and parse of the 8 table values
    let mut pt = Vec::new();
    if ascii {
        for x in [0.0f64, -0.0, 1.0, -1.5, 0.1, 1e15, 0.000025, 9007199254740994.0] {
            let text = format!("{}", x);
            let back = match text.parse::<f64>() {
                Ok(y) => format!("(Some {})", y.to_bits()),
                Err(_) => "None".to_string(),
            };
            pt.push(format!("({}, {}, {})", x.to_bits(), coq_bytes(text.as_bytes()), back));
        }
    }
    let (rb_coq, rb_json) = match &wbytes {
        None => ("IRPanic".to_string(), "{\"panic\":\"write failed\"}".to_string()),
        Some(b) => {
            let b = b.clone();
            match guarded(0, Duration::from_secs(60), move || run_reader(2, &b[..]).map(|m| mesh_sum(&m))) {
                Guarded::Done(Ok((d, nn, ne, dg))) => (
                    format!("(IROk ({}, {}, {}, {}))", d, nn, ne, dg),
                    format!("{{\"ok\":{{\"dimension\":{},\"nodes\":{},\"elements\":{},\"digest\":{}}}}}", d, nn, ne, dg),
                ),
                Guarded::Done(Err((c, m))) => (format!("(IRErr {})", c), format!("{{\"err\":{},\"msg\":{}}}", c, json_str(&m))),
                Guarded::Panic(m) => ("IRPanic".to_string(), format!("{{\"panic\":{}}}", json_str(&m))),
                Guarded::Hang => ("IRHang".to_string(), "{\"hang\":true}".to_string()),
            }
        }
    };
    let coq = format!(
        "KMeditBig {} {} {} {} {} [{}]%N {} {}",
        coq_bool(ascii), dim, n, e, seed, pt.join(";"), coq_sum(&wbytes), rb_coq
    );
    let json = format!(
        "{{\"kind\":\"medit_boundary\",\"ascii\":{},\"dimension\":{},\"nodes\":{},\"edge_elements\":{},\"value_formula\":\"gen_mesh(tab={}, dim, n, e, seed={}) of Run/RunC19.v = gen_mesh_big of harness/src/bin/c19.rs\",\"written_len\":{},\"read_back\":{}}}",
        ascii, dim, n, e, ascii, seed,
        wbytes.as_ref().map(|b| b.len() as i64).unwrap_or(-1),
        rb_json
    );
    let key = format!("MBIG{}|{}|{}|{}|{}", ascii, dim, n, e, seed);
    let name = match (ascii, many_nodes) {
        (false, true) => "mbig_binary_nodes_2pow16",
        (false, false) => "mbig_binary_elements_2pow16",
        (true, true) => "mbig_ascii_nodes_2pow16",
        (true, false) => "mbig_ascii_elements_2pow16",
    };
    (coq, json, key, true, name)
}

// ------------------------------------------------------------------ main

fn main() {
    let a = parse_args();
    quiet_panics();
    let big = a.tier == "thorough";
    let mut rng = Rng::new(a.seed);
    let mut w = CaseWriter::new(
        &a.out,
        "From Coq Require Import Uint63.\nFrom Coupe Require Import Lib.Prelude Lib.Report Model.Formats Model.MeditTypes Run.RunC19.",
        "case19",
        "run19",
        100,
    );
    let mut hangs = 0usize;
    let mut panics = 0usize;
    for idx in 0..a.cases {
        let mut r = rng.fork();
        if let Some(o) = a.only {
            if o != idx {
                continue;
            }
        }
        let (coq, json, key, nontrivial, fam) = match r.below(32) {
            _ if big && (idx == 40 || idx == 41) => case_weights_limit(&mut r, idx == 41),
            // header-field boundaries: one case in 100 (16 per quick run, 96 per thorough run),
            // spread over the shards
            // meshes with 2^16-ish nodes / elements: binary (nodes, elements) and ASCII (elements) in
            // every run; ASCII with many nodes (the largest text) in the thorough tier only; 12 per
            // thorough run
            _ if idx % 100 == 58 && (idx / 100) % 4 == 1 && idx / 100 < 48 && (big || (idx / 100) % 16 != 9) => {
                let k = (idx / 100) % 16 / 4;
                case_medit_big(&mut r, k >= 2, k % 2 == 0)
            }
            _ if idx % 100 == 57 => {
                let shard = idx / 100;
                match shard % 16 {
                    3 => case_partition_big(&mut r, true),
                    11 => case_partition_big(&mut r, false),
                    7 => case_weights_big(&mut r, 0, true),
                    k => {
                        // 13 slots per 16 shards, rotated by the seed
                        let slot = k - (k > 3) as usize - (k > 7) as usize - (k > 11) as usize;
                        case_weights_big(&mut r, slot + (a.seed % 13) as usize + 13 * (shard / 16), false)
                    }
                }
            }
            0 | 1 | 2 => case_partition(&mut r, big),
            3 => case_partition_read(&mut r),
            4..=9 => case_weights(&mut r, big),
            10 | 11 => case_weights_read(&mut r),
            12..=17 => case_medit_bin(&mut r, big),
            18..=20 => case_medit_bin_read(&mut r),
            21..=26 => case_medit_ascii(&mut r, big),
            27..=29 => case_medit_ascii_read(&mut r),
            _ => case_sniff(&mut r),
        };
        if coq.contains("IRPanic") {
            panics += 1;
        }
        if coq.contains("IRHang") {
            hangs += 1;
        }
        w.push(coq, json, &key, nontrivial, fam);
        if hangs > 3 {
            break;
        }
    }
    w.finish(&format!("\"hangs\":{},\"panics\":{}", hangs, panics));
}

//! C19: partition / weight / MEDIT files vs Model/Formats.v, Model/Medit.v —
//! case generator and runner.  Everything goes through in-memory writers and
//! readers (Vec<u8>, byte slices).
use mesh_io::weight::Array;
use std::time::Duration;
use verif_harness::*;

const T: Duration = Duration::from_secs(20);

// ------------------------------------------------------------------ helpers

/// bytes cross into Coq packed 7 per primitive 63-bit integer (little endian) with the
/// length: `(len, [w0;w1;...]%uint63)`; coqc parses this ~8x faster than a `list N` literal
fn coq_bytes(b: &[u8]) -> String {
    let ws: Vec<String> = b
        .chunks(7)
        .map(|c| {
            let mut w: u64 = 0;
            for (i, x) in c.iter().enumerate() {
                w |= (*x as u64) << (8 * i);
            }
            w.to_string()
        })
        .collect();
    format!("({}, [{}]%uint63)", b.len(), ws.join(";"))
}
fn coq_opt_bytes(b: &Option<Vec<u8>>) -> String {
    match b {
        Some(b) => format!("(Some {})", coq_bytes(b)),
        None => "None".to_string(),
    }
}
fn hex(b: &[u8]) -> String {
    let mut s = String::with_capacity(2 * b.len());
    for x in b {
        s.push_str(&format!("{:02x}", x));
    }
    s
}
fn json_opt_hex(b: &Option<Vec<u8>>) -> String {
    match b {
        Some(b) => format!("\"{}\"", hex(b)),
        None => "null".to_string(),
    }
}

/// outcome of an implementation reader: Ok(coq term, json) | Err(code) | panic | hang
enum Rd {
    Ok(String, String),
    Err(u32, String),
    Panic(String),
    Hang,
}
impl Rd {
    fn coq(&self) -> String {
        match self {
            Rd::Ok(c, _) => format!("(IROk {})", c),
            Rd::Err(c, _) => format!("(IRErr {})", c),
            Rd::Panic(_) => "IRPanic".into(),
            Rd::Hang => "IRHang".into(),
        }
    }
    fn json(&self) -> String {
        match self {
            Rd::Ok(_, j) => format!("{{\"ok\":{}}}", j),
            Rd::Err(c, m) => format!("{{\"err\":{},\"msg\":{}}}", c, json_str(m)),
            Rd::Panic(m) => format!("{{\"panic\":{}}}", json_str(m)),
            Rd::Hang => "{\"hang\":true}".into(),
        }
    }
}

fn interesting_u64(r: &mut Rng) -> u64 {
    match r.below(10) {
        0 => 0,
        1 => u64::MAX,
        2 => 1 << 63,
        3 => (1 << 63) - 1,
        4 => 1 << 32,
        5 => r.below(4),
        6 => r.below(256) << (8 * r.below(8)),
        7 => r.below(1000),
        _ => r.next(),
    }
}

fn interesting_f64_bits(r: &mut Rng) -> u64 {
    match r.below(16) {
        0 => 0,                                                // +0
        1 => 1 << 63,                                          // -0
        2 => 0x7ff0_0000_0000_0000,                            // +inf
        3 => 0xfff0_0000_0000_0000,                            // -inf
        4 => 0x7ff8_0000_0000_0000,                            // canonical quiet NaN
        5 => 0x7ff0_0000_0000_0000 | (1 + r.below((1 << 51) - 1)), // signalling NaN, payload
        6 => 0xfff8_0000_0000_0000 | r.below(1 << 51),         // negative quiet NaN, payload
        7 => 1 + r.below(1 << 20),                             // small subnormal
        8 => 0x000f_ffff_ffff_ffff,                            // largest subnormal
        9 => 0x7fef_ffff_ffff_ffff,                            // f64::MAX
        10 => 0x0010_0000_0000_0000,                           // f64::MIN_POSITIVE
        11 => (r.range(-1000, 1000) as f64).to_bits(),
        12 => ((r.range(-100000, 100000) as f64) / 1000.0).to_bits(),
        13 => (r.next() as f64 * if r.chance(1, 2) { 1.0 } else { -1e-300 }).to_bits(),
        _ => r.next(),
    }
}

fn interesting_i64(r: &mut Rng) -> i64 {
    match r.below(10) {
        0 => 0,
        1 => -1,
        2 => i64::MIN,
        3 => i64::MAX,
        4 => r.range(-5, 5),
        5 => r.range(-1000, 1000),
        6 => 1 << r.below(63),
        7 => -(1 << r.below(63)),
        _ => r.next() as i64,
    }
}

// ------------------------------------------------------------------ partition files

fn read_part(bytes: Vec<u8>) -> Rd {
    let g = guarded(0, T, move || mesh_io::partition::read(&bytes[..]));
    match g {
        Guarded::Done(Ok(v)) => Rd::Ok(
            coq_nlist(v.iter().map(|x| *x as u128)),
            json_usizes(&v),
        ),
        Guarded::Done(Err(e)) => {
            let code = match e {
                mesh_io::partition::Error::BadHeader => 0,
                mesh_io::partition::Error::UnsupportedVersion => 1,
                mesh_io::partition::Error::Io(_) => 2,
            };
            Rd::Err(code, format!("{:?}", e))
        }
        Guarded::Panic(m) => Rd::Panic(m),
        Guarded::Hang => Rd::Hang,
    }
}

fn case_partition(r: &mut Rng, big: bool) -> (String, String, String, bool, &'static str) {
    let fam = r.below(5);
    let maxn = if big { 60 } else { 24 };
    let (name, ids): (&'static str, Vec<usize>) = match fam {
        0 => ("part_empty", vec![]),
        1 => {
            let n = r.range(1, maxn) as usize;
            let k = r.range(1, 9) as u64;
            ("part_small_ids", (0..n).map(|_| r.below(k) as usize).collect())
        }
        2 => {
            let n = r.range(1, maxn) as usize;
            ("part_extreme_ids", (0..n).map(|_| interesting_u64(r) as usize).collect())
        }
        3 => ("part_single", vec![interesting_u64(r) as usize]),
        _ => {
            let n = r.range(1, maxn) as usize;
            ("part_random_ids", (0..n).map(|_| r.next() as usize).collect())
        }
    };
    let ids2 = ids.clone();
    let w = guarded(0, T, move || {
        let mut buf: Vec<u8> = Vec::new();
        mesh_io::partition::write(&mut buf, ids2.iter().cloned()).map(|()| buf)
    });
    let wbytes = match w {
        Guarded::Done(Ok(b)) => Some(b),
        _ => None,
    };
    let rb = match &wbytes {
        Some(b) => read_part(b.clone()),
        None => Rd::Panic("write failed".into()),
    };
    let coq = format!(
        "KPart {} {} {}",
        coq_nlist(ids.iter().map(|x| *x as u128)),
        coq_opt_bytes(&wbytes),
        rb.coq()
    );
    let json = format!(
        "{{\"kind\":\"partition\",\"ids\":{},\"written\":{},\"read_back\":{}}}",
        json_usizes(&ids),
        json_opt_hex(&wbytes),
        rb.json()
    );
    let key = format!("P{:?}", ids);
    (coq, json, key, ids.len() >= 2, name)
}

/// read-only stream: truncated / corrupted / foreign partition files
fn case_partition_read(r: &mut Rng) -> (String, String, String, bool, &'static str) {
    let n = r.range(0, 12) as usize;
    let ids: Vec<usize> = (0..n).map(|_| interesting_u64(r) as usize).collect();
    let mut buf: Vec<u8> = Vec::new();
    mesh_io::partition::write(&mut buf, ids.iter().cloned()).unwrap();
    let name: &'static str = match r.below(7) {
        0 => {
            let k = r.below(buf.len() as u64 + 1) as usize;
            buf.truncate(k);
            "part_rd_truncated"
        }
        1 => {
            let i = r.below(4) as usize;
            buf[i] ^= 1 << r.below(8);
            "part_rd_bad_magic"
        }
        2 => {
            for _ in 0..r.range(1, 20) {
                buf.push(r.next() as u8);
            }
            "part_rd_trailing"
        }
        3 => {
            // count larger than what follows (small enough to allocate)
            let c = (n as u64) + 1 + r.below(1000);
            buf[4..12].copy_from_slice(&c.to_le_bytes());
            "part_rd_count_too_large"
        }
        4 => {
            // 8*count > isize::MAX: Vec::with_capacity panics (capacity overflow)
            let c = (1u64 << 60) + (r.next() >> 5);
            buf[4..12].copy_from_slice(&c.to_le_bytes());
            "part_rd_capacity_overflow"
        }
        5 => {
            // count smaller than the data
            let c = r.below(n as u64 + 1);
            buf[4..12].copy_from_slice(&c.to_le_bytes());
            "part_rd_count_smaller"
        }
        _ => {
            let k = r.below(30) as usize;
            buf = (0..k).map(|_| r.next() as u8).collect();
            "part_rd_garbage"
        }
    };
    let rd = read_part(buf.clone());
    let coq = format!("KPartRead {} {}", coq_bytes(&buf), rd.coq());
    let json = format!(
        "{{\"kind\":\"partition_read\",\"bytes\":\"{}\",\"read\":{}}}",
        hex(&buf),
        rd.json()
    );
    let key = format!("PR{}", hex(&buf));
    (coq, json, key, buf.len() >= 12, name)
}

// ------------------------------------------------------------------ weight files

#[derive(Clone)]
enum WArr {
    I(Vec<Vec<i64>>),
    F(Vec<Vec<u64>>), // bit patterns
}

fn warr_coq(a: &WArr) -> String {
    match a {
        WArr::I(rows) => {
            let v: Vec<String> = rows
                .iter()
                .map(|r| {
                    let w: Vec<String> = r.iter().map(|x| coq_z(*x as i128)).collect();
                    format!("[{}]", w.join(";"))
                })
                .collect();
            format!("(WInts [{}]%Z)", v.join(";"))
        }
        WArr::F(rows) => {
            let v: Vec<String> = rows
                .iter()
                .map(|r| {
                    let w: Vec<String> = r.iter().map(|x| x.to_string()).collect();
                    format!("[{}]", w.join(";"))
                })
                .collect();
            format!("(WFloats [{}]%N)", v.join(";"))
        }
    }
}
fn warr_json(a: &WArr) -> String {
    match a {
        WArr::I(rows) => {
            let v: Vec<String> = rows.iter().map(|r| json_i64s(r)).collect();
            format!("{{\"integers\":[{}]}}", v.join(","))
        }
        WArr::F(rows) => {
            let v: Vec<String> = rows
                .iter()
                .map(|r| {
                    let w: Vec<String> = r.iter().map(|x| format!("\"{:016x}\"", x)).collect();
                    format!("[{}]", w.join(","))
                })
                .collect();
            format!("{{\"float_bits\":[{}]}}", v.join(","))
        }
    }
}

fn read_weights(bytes: Vec<u8>) -> Rd {
    let g = guarded(0, T, move || mesh_io::weight::read(&bytes[..]));
    match g {
        Guarded::Done(Ok(a)) => {
            let w = match a {
                Array::Integers(v) => WArr::I(v),
                Array::Floats(v) => {
                    WArr::F(v.iter().map(|r| r.iter().map(|x| x.to_bits()).collect()).collect())
                }
            };
            Rd::Ok(warr_coq(&w), warr_json(&w))
        }
        Guarded::Done(Err(e)) => {
            let code = match e {
                mesh_io::weight::Error::BadHeader => 0,
                mesh_io::weight::Error::UnsupportedVersion => 1,
                mesh_io::weight::Error::Io(_) => 2,
            };
            Rd::Err(code, format!("{:?}", e))
        }
        Guarded::Panic(m) => Rd::Panic(m),
        Guarded::Hang => Rd::Hang,
    }
}

fn write_weights(a: &WArr) -> Option<Vec<u8>> {
    let a = a.clone();
    let g = guarded(0, T, move || {
        let mut buf: Vec<u8> = Vec::new();
        let r = match &a {
            WArr::I(rows) => {
                mesh_io::weight::write_integers(&mut buf, rows.iter().map(|r| r.iter().cloned()))
            }
            WArr::F(rows) => mesh_io::weight::write_floats(
                &mut buf,
                rows.iter().map(|r| r.iter().map(|b| f64::from_bits(*b))),
            ),
        };
        r.map(|()| buf)
    });
    match g {
        Guarded::Done(Ok(b)) => Some(b),
        _ => None,
    }
}

fn gen_warr(r: &mut Rng, big: bool) -> (&'static str, WArr) {
    let is_int = r.chance(1, 2);
    let fam = r.below(12);
    // (name, rows, criteria); ragged handled below
    let (name, n, c): (&'static str, usize, usize) = match fam {
        0 => (if is_int { "w_int_empty" } else { "w_float_empty" }, 0, 1),
        1 => ("w_zero_criteria", r.range(1, 4) as usize, 0),
        2 => ("w_many_criteria", r.range(1, 2) as usize, *r.pick(&[5usize, 7, 16, 17, 64, 255, 256, 257, 300])),
        3 => ("w_one_row", 1, r.range(1, 4) as usize),
        4 => ("w_ragged", r.range(2, 6) as usize, r.range(1, 4) as usize),
        _ => (
            if is_int { "w_int" } else { "w_float" },
            r.range(1, if big { 40 } else { 14 }) as usize,
            r.range(1, 4) as usize,
        ),
    };
    let mut lens: Vec<usize> = vec![c; n];
    if name == "w_ragged" {
        let i = r.range(1, n as i64 - 1) as usize;
        lens[i] = if r.chance(1, 2) { c + 1 + r.below(2) as usize } else { c - 1 };
        if r.chance(1, 4) {
            lens[0] = c + 1;
        }
    }
    let a = if is_int {
        WArr::I(lens.iter().map(|l| (0..*l).map(|_| interesting_i64(r)).collect()).collect())
    } else {
        WArr::F(lens.iter().map(|l| (0..*l).map(|_| interesting_f64_bits(r)).collect()).collect())
    };
    (name, a)
}

fn case_weights(r: &mut Rng, big: bool) -> (String, String, String, bool, &'static str) {
    let (name, a) = gen_warr(r, big);
    let wbytes = write_weights(&a);
    let rb = match &wbytes {
        Some(b) => read_weights(b.clone()),
        None => Rd::Panic("write failed".into()),
    };
    let coq = format!("KWeights {} {} {}", warr_coq(&a), coq_opt_bytes(&wbytes), rb.coq());
    let json = format!(
        "{{\"kind\":\"weights\",\"array\":{},\"written\":{},\"read_back\":{}}}",
        warr_json(&a),
        json_opt_hex(&wbytes),
        rb.json()
    );
    let key = format!("W{}", warr_json(&a));
    let nrows = match &a {
        WArr::I(v) => v.len(),
        WArr::F(v) => v.len(),
    };
    (coq, json, key, nrows >= 1, name)
}

fn case_weights_read(r: &mut Rng) -> (String, String, String, bool, &'static str) {
    let (_, a) = loop {
        let (n, a) = gen_warr(r, false);
        if n != "w_many_criteria" {
            break (n, a);
        }
    };
    let mut buf = write_weights(&a).unwrap_or_default();
    if buf.len() < 16 {
        buf = vec![b'M', b'e', b'W', b'e', 1, 0, 0, 0, 0, 0, 0, 0, 0, 0, 0, 0];
    }
    let name: &'static str = match r.below(9) {
        0 => {
            let k = r.below(buf.len() as u64 + 1) as usize;
            buf.truncate(k);
            "w_rd_truncated"
        }
        1 => {
            let i = r.below(4) as usize;
            buf[i] ^= 1 << r.below(8);
            "w_rd_bad_magic"
        }
        2 => {
            buf[4] = r.next() as u8;
            "w_rd_version"
        }
        3 => {
            // unspecified flag bits set; integer bit flipped
            buf[5] = r.next() as u8;
            "w_rd_flags"
        }
        4 => {
            let c = r.below(6) as u16;
            buf[6..8].copy_from_slice(&c.to_le_bytes());
            "w_rd_criterion_count"
        }
        5 => {
            let c = r.below(40);
            buf[8..16].copy_from_slice(&c.to_le_bytes());
            "w_rd_row_count"
        }
        6 => {
            // 24*count > isize::MAX: capacity overflow
            let c = (1u64 << 59) + (r.next() >> 6);
            buf[8..16].copy_from_slice(&c.to_le_bytes());
            "w_rd_capacity_overflow"
        }
        7 => {
            for _ in 0..r.range(1, 20) {
                buf.push(r.next() as u8);
            }
            "w_rd_trailing"
        }
        _ => {
            let k = r.below(40) as usize;
            buf = (0..k).map(|_| r.next() as u8).collect();
            if r.chance(1, 2) && k >= 5 {
                buf[..4].copy_from_slice(b"MeWe");
                buf[4] = 1;
                // a random row count in (len, isize::MAX/24] is an allocation failure = abort
                // of the whole process (not a panic): keep the count small or overflowing
                if k >= 16 {
                    let c = if r.chance(1, 2) { r.below(8) } else { u64::MAX - r.below(1 << 40) };
                    buf[8..16].copy_from_slice(&c.to_le_bytes());
                }
            }
            "w_rd_garbage"
        }
    };
    let rd = read_weights(buf.clone());
    let coq = format!("KWeightsRead {} {}", coq_bytes(&buf), rd.coq());
    let json = format!(
        "{{\"kind\":\"weights_read\",\"bytes\":\"{}\",\"read\":{}}}",
        hex(&buf),
        rd.json()
    );
    let key = format!("WR{}", hex(&buf));
    (coq, json, key, buf.len() >= 16, name)
}

// ------------------------------------------------------------------ main

fn main() {
    let a = parse_args();
    quiet_panics();
    let big = a.tier == "thorough";
    let mut rng = Rng::new(a.seed);
    let mut w = CaseWriter::new(
        &a.out,
        "From Coq Require Import Uint63.\nFrom Coupe Require Import Lib.Prelude Lib.Report Model.Formats Run.RunC19.",
        "case19",
        "run19",
        100,
    );
    let mut hangs = 0usize;
    let mut panics = 0usize;
    for idx in 0..a.cases {
        let mut r = rng.fork();
        if let Some(o) = a.only {
            if o != idx {
                continue;
            }
        }
        let (coq, json, key, nontrivial, fam) = match r.below(10) {
            0 | 1 => case_partition(&mut r, big),
            2 => case_partition_read(&mut r),
            3 | 4 | 5 | 6 => case_weights(&mut r, big),
            _ => case_weights_read(&mut r),
        };
        if coq.contains("IRPanic") {
            panics += 1;
        }
        if coq.contains("IRHang") {
            hangs += 1;
        }
        w.push(coq, json, &key, nontrivial, fam);
        if hangs > 3 {
            break;
        }
    }
    w.finish(&format!("\"hangs\":{},\"panics\":{}", hangs, panics));
}

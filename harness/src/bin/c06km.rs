//! C06 (k-means part): the same cases as c02km; the clause judged is "the twelve
//! outputs (pools 1,2,3,4,8,16, twice each) are identical" on the exact-arithmetic
//! inputs, and each of them equals the model's partition.
#[path = "../kmeans_common.rs"]
mod kmeans_common;

fn main() {
    kmeans_common::drive(
        "From Coupe Require Import Lib.Prelude Lib.Report Run.RunKM.",
        "run06km",
    );
}

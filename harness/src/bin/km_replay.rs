//! Replay of the k-means witness `C02_kmeans_more_points_than_ids_refuted`
//! (Properties/C02.v): `KMeans::partition` -- a safe function -- called with more
//! points than part ids writes a part id PAST THE END of the `part_ids` slice
//! through its raw pointer (src/algorithms/k_means.rs:353-378,
//! `std::ptr::write(ptr.add(*idx), new_assignment)`): undefined behaviour
//! instead of an error.  The slice handed over here is the first two cells of a
//! three-cell buffer, so the stray write lands in the third cell and can be
//! shown without corrupting the heap.  Outside C02's usage contract (lengths
//! must match), reported as an observation.
//!
//! `km_replay huge`: the rotation step that the model takes as an input
//! (`OrientedBoundingBox::from_points`) panics inside k-means on FINITE
//! coordinates of magnitude >= ~1e154: the inertia matrix overflows, nalgebra's
//! eigenvalues are NaN and geometry.rs:299 `partial_cmp(..).unwrap()` fails
//! (the known finding `obb-coordinate-overflow` recorded for Rib / HilbertCurve
//! / ZCurve under C01 also hits KMeans, i.e. C02's "returns without panicking").
//!
//! usage: km_replay        (prints the buffer before / after)
//!        km_replay huge
use coupe::Partition as _;
use coupe::Point2D;

fn huge() {
    let points = [
        Point2D::new(0., 0.),
        Point2D::new(1e160, 0.),
        Point2D::new(0., 3e160),
        Point2D::new(5e160, 1e160),
    ];
    let weights = [1.0f64; 4];
    let mut part = vec![0usize, 1, 0, 1];
    let r = std::panic::catch_unwind(std::panic::AssertUnwindSafe(|| {
        coupe::KMeans { max_iter: 3, max_balance_iter: 2, ..Default::default() }
            .partition(&mut part, (&points[..], &weights[..]))
            .unwrap();
    }));
    match r {
        Ok(()) => println!("returned: {:?}", part),
        Err(_) => {
            println!("PANIC inside KMeans::partition on a valid partition with finite coordinates");
            std::process::exit(1);
        }
    }
}

fn main() {
    if std::env::args().nth(1).as_deref() == Some("huge") {
        return huge();
    }
    let points = [Point2D::new(0., 0.), Point2D::new(1., 0.), Point2D::new(2., 0.)];
    let weights = [1.0f64; 3];
    let mut buf = vec![0usize, 1, 777];
    println!("buffer before: {:?}  (part_ids = first two cells)", buf);
    {
        let (part_ids, _rest) = buf.split_at_mut(2);
        coupe::KMeans {
            imbalance_tol: 5.,
            delta_threshold: 0.,
            max_iter: 3,
            max_balance_iter: 2,
            erode: false,
            hilbert: true,
            mbr_early_break: false,
        }
        .partition(part_ids, (&points[..], &weights[..]))
        .unwrap();
    }
    println!("buffer after:  {:?}", buf);
    if buf[2] != 777 {
        println!("OUT-OF-BOUNDS WRITE: the cell after the part_ids slice was overwritten with {}", buf[2]);
        std::process::exit(1);
    }
}

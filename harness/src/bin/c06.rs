//! C06: deterministic partitioners give the same partition for every thread
//! count and every run, when all arithmetic is exact (integer-valued weights
//! and coordinates).  Each case is run under pools 1,2,3,4,8,16, twice each;
//! all outputs go to Coq, where the (certified) all-equal checker decides.
use coupe::Partition as _;
use coupe::{Point2D, Point3D};
use mesh_io::{ElementType, Mesh};
use std::time::Duration;
use verif_harness::*;

#[path = "../gen.rs"]
mod gen;

const POOLS: [usize; 6] = [1, 2, 3, 4, 8, 16];
const REPS: usize = 2;
const ALGS: [&str; 11] = [
    "rcb2", "rcb3", "rib2", "rib3", "hilbert2", "hilbert3", "zcurve2", "zcurve3", "kmeans2",
    "multijagged2", "dual",
];

/// Integer point sets only (exact arithmetic premise).
fn int_points(r: &mut Rng, n: usize, d: usize) -> (&'static str, Vec<Vec<f64>>) {
    loop {
        let (name, pts) = gen::points(r, n, d);
        if name != "arbitrary_f64" {
            return (name, pts);
        }
    }
}

fn random_mesh(r: &mut Rng) -> (Mesh, String) {
    let dim = if r.chance(1, 2) { 2 } else { 3 };
    let nodes = r.range(4, 14) as usize;
    let coords: Vec<f64> = (0..nodes * dim).map(|_| r.range(0, 9) as f64).collect();
    let refs: Vec<isize> = vec![0; nodes];
    let mut topo = Vec::new();
    let mut desc = Vec::new();
    let kinds: &[ElementType] = if dim == 2 {
        &[ElementType::Triangle, ElementType::Quadrilateral, ElementType::Edge]
    } else {
        &[ElementType::Tetrahedron, ElementType::Hexahedron, ElementType::Triangle, ElementType::Edge]
    };
    let blocks = r.range(1, 3);
    for _ in 0..blocks {
        let t = *r.pick(kinds);
        let nc = t.node_count();
        if nc > nodes {
            continue;
        }
        let ne = r.range(1, 8) as usize;
        let mut el = Vec::new();
        for _ in 0..ne {
            // distinct nodes per element
            let mut ids: Vec<usize> = (0..nodes).collect();
            for i in 0..nc {
                let j = i + r.below((nodes - i) as u64) as usize;
                ids.swap(i, j);
            }
            el.extend_from_slice(&ids[..nc]);
        }
        desc.push(format!("[\"{:?}\",{}]", t, json_usizes(&el)));
        topo.push((t, el, vec![0isize; ne]));
    }
    let m = Mesh::from_raw_parts(dim, coords, refs, topo);
    (m, format!("{{\"dim\":{dim},\"nodes\":{nodes},\"blocks\":[{}]}}", desc.join(",")))
}

fn main() {
    let a = parse_args();
    quiet_panics();
    let mut rng = Rng::new(a.seed);
    let mut w = CaseWriter::new(
        &a.out,
        "From Coupe Require Import Lib.Prelude Lib.Report Run.RunC06.",
        "case06",
        "run06",
        150,
    );
    let (mut hangs, mut panics, mut exact_obb_cases) = (0usize, 0usize, 0usize);
    for idx in 0..a.cases {
        let mut r = rng.fork();
        let alg = ALGS[idx % ALGS.len()];
        if let Some(o) = a.only {
            if o != idx {
                continue;
            }
        }
        let obb_alg = matches!(alg, "rib2" | "rib3" | "hilbert2" | "hilbert3" | "zcurve2" | "zcurve3" | "kmeans2");
        // OBB-based algorithms sum products of offsets from the centroid: exact when n is a power of two
        let rcb_like = matches!(alg, "rcb2" | "rcb3" | "rib2" | "rib3");
        // Rcb's fold is split by rayon only above with_min_len(4096): 2 chunks from 8192 points, 4 from 16384
        let large = (rcb_like && r.chance(1, 6)) || (alg != "multijagged2" && alg != "dual" && r.chance(1, 60));
        let n = if large {
            if r.chance(1, 2) { 16384 + r.below(4000) as usize } else { 8192 + r.below(2000) as usize }
        } else if obb_alg && r.chance(3, 4) {
            1usize << r.range(1, 5)
        } else {
            r.range(2, 40) as usize
        };
        let pow2 = n.is_power_of_two();
        let (wfam, ws) = gen::weights(&mut r, n);
        let d = if alg.ends_with('3') { 3 } else { 2 };
        let (pf, pts) = if large && r.chance(2, 3) {
            // pairwise distinct integer coordinates on the first axis, in random order
            let mut xs: Vec<usize> = (0..n).collect();
            for i in (1..n).rev() {
                let j = r.below(i as u64 + 1) as usize;
                xs.swap(i, j);
            }
            let pts: Vec<Vec<f64>> = xs
                .iter()
                .map(|x| (0..d).map(|j| if j == 0 { *x as f64 } else { r.range(0, 99) as f64 }).collect())
                .collect();
            ("large_distinct_x", pts)
        } else {
            int_points(&mut r, n, d)
        };
        let mut params = String::new();
        let mut input = String::new();
        let mut rename = false;
        let mut fam = format!("{pf}/{wfam}");
        let mut kf: Option<&str> = None;
        if obb_alg && !pow2 {
            kf = Some("obb-inexact-sums");
        } else if obb_alg {
            exact_obb_cases += 1;
        }
        type Out = Vec<usize>;
        let job: Box<dyn Fn() -> Out + Send + Sync> = match alg {
            "rcb2" | "rcb3" | "rib2" | "rib3" => {
                let iter = r.range(0, 5) as usize;
                let tol = *r.pick(&[0.0, 0.05, 0.2]);
                params = format!("\"iter_count\":{iter},\"tolerance\":{tol}");
                let rib = alg.starts_with("rib");
                let (pts, ws) = (pts.clone(), ws.clone());
                Box::new(move || {
                    let mut p = vec![usize::MAX; n];
                    if d == 2 {
                        let q: Vec<Point2D> = pts.iter().map(|c| Point2D::new(c[0], c[1])).collect();
                        if rib {
                            coupe::Rib { iter_count: iter, tolerance: tol }.partition(&mut p, (&q[..], ws.clone())).unwrap();
                        } else {
                            coupe::Rcb { iter_count: iter, tolerance: tol }
                                .partition(&mut p, (coupe::rayon::iter::IntoParallelIterator::into_par_iter(q), ws.clone()))
                                .unwrap();
                        }
                    } else {
                        let q: Vec<Point3D> = pts.iter().map(|c| Point3D::new(c[0], c[1], c[2])).collect();
                        if rib {
                            coupe::Rib { iter_count: iter, tolerance: tol }.partition(&mut p, (&q[..], ws.clone())).unwrap();
                        } else {
                            coupe::Rcb { iter_count: iter, tolerance: tol }
                                .partition(&mut p, (coupe::rayon::iter::IntoParallelIterator::into_par_iter(q), ws.clone()))
                                .unwrap();
                        }
                    }
                    p
                })
            }
            "hilbert2" | "hilbert3" => {
                let k = r.range(1, n.min(9) as i64) as usize;
                let order = r.range(1, if d == 2 { 32 } else { 21 }) as u32;
                params = format!("\"part_count\":{k},\"order\":{order}");
                let (pts, ws) = (pts.clone(), ws.clone());
                Box::new(move || {
                    let mut p = vec![usize::MAX; n];
                    let wf: Vec<f64> = ws.iter().map(|x| *x as f64).collect();
                    let mut h = coupe::HilbertCurve { part_count: k, order };
                    if d == 2 {
                        let q: Vec<Point2D> = pts.iter().map(|c| Point2D::new(c[0], c[1])).collect();
                        h.partition(&mut p, (&q[..], wf)).unwrap();
                    } else {
                        let q: Vec<Point3D> = pts.iter().map(|c| Point3D::new(c[0], c[1], c[2])).collect();
                        h.partition(&mut p, (&q[..], wf)).unwrap();
                    }
                    p
                })
            }
            "zcurve2" | "zcurve3" => {
                let k = r.range(1, n.min(9) as i64) as usize;
                let order = r.range(1, 12) as u32;
                params = format!("\"part_count\":{k},\"order\":{order}");
                fam = pf.to_string();
                let pts = pts.clone();
                Box::new(move || {
                    let mut p = vec![usize::MAX; n];
                    let mut z = coupe::ZCurve { part_count: k, order };
                    if d == 2 {
                        let q: Vec<Point2D> = pts.iter().map(|c| Point2D::new(c[0], c[1])).collect();
                        z.partition(&mut p, &q[..]).unwrap();
                    } else {
                        let q: Vec<Point3D> = pts.iter().map(|c| Point3D::new(c[0], c[1], c[2])).collect();
                        z.partition(&mut p, &q[..]).unwrap();
                    }
                    p
                })
            }
            "kmeans2" => {
                let k = r.range(2, n.min(5).max(2) as i64) as usize;
                let p0 = gen::valid_partition(&mut r, n, k);
                params = format!("\"initial\":{}", json_usizes(&p0));
                let (pts, ws) = (pts.clone(), ws.clone());
                Box::new(move || {
                    let mut p = p0.clone();
                    let wf: Vec<f64> = ws.iter().map(|x| *x as f64).collect();
                    let q: Vec<Point2D> = pts.iter().map(|c| Point2D::new(c[0], c[1])).collect();
                    coupe::KMeans { max_iter: 5, max_balance_iter: 2, ..Default::default() }
                        .partition(&mut p, (&q[..], &wf[..]))
                        .unwrap();
                    p
                })
            }
            "multijagged2" => {
                let k = r.range(1, n.min(9) as i64) as usize;
                let max_iter = r.range(1, 3) as usize;
                params = format!("\"part_count\":{k},\"max_iter\":{max_iter}");
                rename = true;
                let (pts, ws) = (pts.clone(), ws.clone());
                Box::new(move || {
                    let mut p = vec![usize::MAX; n];
                    let wf: Vec<f64> = ws.iter().map(|x| (*x).max(1) as f64).collect();
                    let q: Vec<Point2D> = pts.iter().map(|c| Point2D::new(c[0], c[1])).collect();
                    coupe::MultiJagged { part_count: k, max_iter }.partition(&mut p, (&q[..], &wf[..])).unwrap();
                    p
                })
            }
            _ => {
                let (m, desc) = random_mesh(&mut r);
                input = format!("\"mesh\":{desc}");
                fam = "mesh".to_string();
                let m = std::sync::Arc::new(m);
                Box::new(move || {
                    let g = coupe_tools::dual(&m);
                    let (indptr, indices, _data) = g.into_raw_storage();
                    let mut out = indptr;
                    out.push(usize::MAX / 2); // separator
                    out.extend(indices);
                    out
                })
            }
        };
        if input.is_empty() {
            // large inputs are summarised, not dumped
            if n <= 64 {
                input = format!("\"points\":{},\"weights\":{}", gen::json_points(&pts), json_i64s(&ws));
            } else {
                input = format!("\"n\":{n},\"points\":\"(regenerate with --only {idx})\"");
            }
        }
        let job = std::sync::Arc::new(job);
        let mut raw: Vec<Vec<usize>> = Vec::new();
        let mut bad = None;
        'pools: for &t in POOLS.iter() {
            for _ in 0..REPS {
                let j = job.clone();
                match guarded(t, Duration::from_secs(120), move || j()) {
                    Guarded::Done(p) => raw.push(p),
                    Guarded::Panic(m) => {
                        panics += 1;
                        bad = Some(format!("panic with {t} threads: {m}"));
                        break 'pools;
                    }
                    Guarded::Hang => {
                        hangs += 1;
                        bad = Some(format!("hang with {t} threads"));
                        break 'pools;
                    }
                }
            }
        }
        // Large outputs are sent as differences from the first run: [] for the first run and, for
        // every other run, the flattened (index, value) pairs where it differs (all empty iff all equal).
        let compact = n > 2000 && !rename;
        let outs: Vec<String> = if compact {
            raw.iter()
                .enumerate()
                .map(|(k, p)| {
                    let mut d: Vec<u128> = Vec::new();
                    if k > 0 {
                        if p.len() != raw[0].len() {
                            d.push(u128::MAX >> 1);
                        }
                        for (i, (a, b)) in p.iter().zip(raw[0].iter()).enumerate() {
                            if a != b && d.len() < 40 {
                                d.push(i as u128);
                                d.push(*a as u128);
                            }
                        }
                    }
                    coq_nlist(d)
                })
                .collect()
        } else {
            raw.iter().map(|p| coq_nlist(p.iter().map(|x| *x as u128))).collect()
        };
        let alg_code = ALGS.iter().position(|x| *x == alg).unwrap();
        let coq = format!(
            "mk06 {} {} {} [{}]",
            alg_code,
            coq_bool(rename),
            coq_bool(bad.is_some()),
            outs.join(";")
        );
        let kfj = kf.map(|k| format!(",\"kf\":\"{k}\"")).unwrap_or_default();
        let json = format!(
            "{{\"alg\":\"{alg}\",\"n\":{n},{params}{}{input},\"pools\":[1,2,3,4,8,16],\"reps\":{REPS},\"failure\":{}{kfj}}}",
            if params.is_empty() { "" } else { "," },
            bad.as_ref().map(|b| json_str(b)).unwrap_or("null".to_string())
        );
        let key = format!("{alg}|{params}|{input}|{idx}");
        w.push(coq, json, &key, n >= 4, &format!("{alg}:{fam}"));
        if hangs > 3 {
            break;
        }
    }
    w.finish(&format!("\"hangs\":{},\"panics\":{},\"exact_obb_cases\":{}", hangs, panics, exact_obb_cases));
}

//! C20: the malformed stream against the REAL entry points (`coupe::Partition::partition`)
//! vs the interpretation of the generated guard lists (Run/RunC20.v).
//!
//! Case `idx`: algorithm `idx % 11`; `idx / 11` enumerates the length combinations
//! (equal / shorter / longer / empty for the partition array and each other input),
//! then the families "ids above one" (FM), "negative weight at position j" (VnBest, i64 and
//! f64), "order above the maximum" (HilbertCurve), "id = usize::MAX" (VnBest / VnFirst) and
//! well-formed controls.  Every remaining choice comes from the per-case fork of the PRNG.
//!
//! LARGE calls: with `k = idx / 11`, the slots `k % 11 == 10` hold inputs of 4095 .. 10000
//! elements (lengths around the multiples of 1024 and 4096: 4097, 5000, 8191, 8193, 9001, ..)
//! with exactly ONE offending element -- a negative weight (VnBest), an id above one (FM), one
//! input whose length is off by one / rounded to a block / empty (the nine algorithms), an order
//! above the maximum (HilbertCurve) -- placed at the last position, inside the trailing
//! `len % 1024` positions, at the block seams (1023, 1024, 4095, 4096, last full block) or
//! anywhere; the other slots are the small stream above (`k` renumbered without the large slots).
//! A large case is written to the case file in a COMPACT form (`big20`, Run/RunC20.v): run-length
//! encoded weight signs and array, and the list of positions at which the array after the call
//! differs from the array before (the only thing computed here is that comparison; the Coq side
//! rebuilds both arrays and judges them with the same `eval20` as a small case).
use coupe::sprs::CsMat;
use coupe::Partition as _;
use coupe::{Point2D, Point3D};
use std::sync::{Arc, Mutex};
use std::time::Duration;
use verif_harness::*;

const NAMES: [&str; 11] = [
    "Rcb", "Rib", "Greedy", "KarmarkarKarp", "CompleteKarmarkarKarp", "VnBest", "VnFirst",
    "FiducciaMattheyses", "ArcSwap", "HilbertCurve2D", "HilbertCurve3D",
];

#[derive(Clone, Debug)]
enum Weights {
    I(Vec<i64>),
    F(Vec<f64>),
}
impl Weights {
    fn len(&self) -> usize {
        match self {
            Weights::I(v) => v.len(),
            Weights::F(v) => v.len(),
        }
    }
    /// '-' negative, '0' zero, '+' positive: what `w < 0` and `w.is_zero()` see
    fn signs(&self) -> Vec<char> {
        match self {
            Weights::I(v) => v.iter().map(|w| if *w < 0 { '-' } else if *w == 0 { '0' } else { '+' }).collect(),
            Weights::F(v) => v.iter().map(|w| if *w < 0.0 { '-' } else if *w == 0.0 { '0' } else { '+' }).collect(),
        }
    }
    fn json(&self) -> String {
        match self {
            Weights::I(v) => json_i64s(v),
            Weights::F(v) => format!("[{}]", v.iter().map(|x| format!("\"{:?}\"", x)).collect::<Vec<_>>().join(",")),
        }
    }
    fn as_f64(&self) -> Vec<f64> {
        match self {
            Weights::I(v) => v.iter().map(|x| *x as f64).collect(),
            Weights::F(v) => v.clone(),
        }
    }
    fn as_i64(&self) -> Vec<i64> {
        match self {
            Weights::I(v) => v.clone(),
            Weights::F(v) => v.iter().map(|x| *x as i64).collect(),
        }
    }
}

#[derive(Clone, Debug)]
struct Case {
    alg: usize,
    family: String,
    p0: Vec<usize>,
    weights: Weights,
    npoints: usize,
    nadj: usize,
    part_count: usize,
    order: u32,
    /// Rcb / Rib `iter_count` (0 is their Default), FM `max_passes`
    iter_count: usize,
    /// 0: tolerance 0.05 / max_imbalance Some(0.5); 1: tolerance 0.0 / max_imbalance None; 2: negative tolerance / Some(0.0)
    tol_kind: usize,
    /// a large call (compact output); `note` says how the input was built (replay JSON)
    large: bool,
    note: String,
}

/// (code, a, b) in the numbering of Lib/Report.v `impl_res`
type Outcome = Result<(), (u64, u64, u64)>;

fn err_code(e: coupe::Error) -> (u64, u64, u64) {
    match e {
        coupe::Error::NotFound => (0, 0, 0),
        coupe::Error::InputLenMismatch { expected, actual } => (1, expected as u64, actual as u64),
        coupe::Error::NegativeValues => (2, 0, 0),
        coupe::Error::BiPartitioningOnly => (3, 0, 0),
        _ => (99, 0, 0),
    }
}
fn hilbert_code(e: coupe::HilbertCurveError) -> (u64, u64, u64) {
    match e {
        coupe::HilbertCurveError::InvalidOrder { max, actual } => (4, max as u64, actual as u64),
        _ => (99, 0, 0),
    }
}

fn points2(n: usize, r: &mut Rng) -> Vec<Point2D> {
    (0..n).map(|_| Point2D::new(r.range(0, 64) as f64 / 4.0, r.range(0, 64) as f64 / 4.0)).collect()
}
fn points3(n: usize, r: &mut Rng) -> Vec<Point3D> {
    (0..n)
        .map(|_| Point3D::new(r.range(0, 64) as f64 / 4.0, r.range(0, 64) as f64 / 4.0, r.range(0, 64) as f64 / 4.0))
        .collect()
}
/// path graph on m vertices, symmetric, unit edge weights
fn path_graph(m: usize) -> CsMat<i64> {
    let mut indptr = vec![0usize];
    let mut indices = Vec::new();
    let mut data = Vec::new();
    for i in 0..m {
        if i > 0 {
            indices.push(i - 1);
            data.push(1i64);
        }
        if i + 1 < m {
            indices.push(i + 1);
            data.push(1i64);
        }
        indptr.push(indices.len());
    }
    CsMat::new((m, m), indptr, indices, data)
}

#[derive(Clone, Copy, PartialEq)]
enum Var {
    Eq,
    Shorter,
    Longer,
    Empty,
}
fn vary(v: Var, n: usize, r: &mut Rng) -> usize {
    match v {
        Var::Eq => n,
        Var::Shorter => {
            if n <= 1 {
                0
            } else if r.chance(1, 2) {
                n - 1
            } else {
                r.range(1, n as i64 - 1) as usize
            }
        }
        Var::Longer => n + 1 + r.below(3) as usize,
        Var::Empty => 0,
    }
}
fn var_of(k: usize) -> Var {
    [Var::Eq, Var::Shorter, Var::Longer, Var::Empty][k % 4]
}

fn gen_case(idx: usize, r: &mut Rng) -> Case {
    let alg = idx % 11;
    let k = idx / 11;
    let mut c = Case {
        alg,
        family: String::new(),
        p0: vec![],
        weights: Weights::I(vec![]),
        npoints: 0,
        nadj: 0,
        part_count: *r.pick(&[0usize, 1, 2, 2, 3, 5]),
        order: 12,
        iter_count: *r.pick(&[0usize, 0, 1, 2]),
        tol_kind: r.below(3) as usize,
        large: false,
        note: String::new(),
    };
    if k % 11 == 10 {
        gen_large(&mut c, k / 11, r);
        return c;
    }
    let k = (k / 11) * 10 + k % 11; // the small stream, numbered without the large slots
    if alg >= 9 {
        // HilbertCurve: orders above the maximum (lengths always consistent: the length clause
        // of the property does not cover HilbertCurve)
        let max: u32 = if alg == 9 { 32 } else { 21 };
        let n = r.range(4, 10) as usize;
        let (fam, order) = match k % 5 {
            0 => ("order_max_plus_1", max + 1),
            1 => ("order_above_max", max + 2 + r.below(100) as u32),
            2 => ("order_huge", r.range(max as i64 + 1, u32::MAX as i64) as u32),
            3 => ("order_u32_max", u32::MAX - r.below(2) as u32),
            _ => {
                let any = r.range(1, max as i64) as u32;
                ("control", *r.pick(&[0u32, 1, 2, 12, max - 1, max, any]))
            }
        };
        c.family = fam.into();
        c.order = order;
        // degenerate part counts only together with an invalid order (the error comes first);
        // valid orders keep a benign part count (what the algorithm proper does is C01's business)
        c.part_count = if order > max { *r.pick(&[0usize, 1, 2, 3, 1000]) } else { *r.pick(&[1usize, 2, 2, 3]) };
        let plen = if r.chance(1, 6) { 0 } else { n };
        c.p0 = (0..plen).map(|i| usize::MAX - 3 * i).collect();
        c.weights = Weights::F((0..n).map(|_| r.range(1, 9) as f64).collect());
        c.npoints = n;
        return c;
    }
    let has_second = matches!(alg, 0 | 1 | 7 | 8);
    let combos = if has_second { 64 } else { 16 };
    let extra = match alg {
        5 => 32,
        7 => 48,
        0 | 1 | 8 => 16,
        _ => 12,
    };
    let ci = k % (combos + extra);
    let n = if r.chance(1, 12) { 0 } else { r.range(1, 8) as usize };
    let (vp, vw, v2) = if ci < combos {
        (var_of(ci), var_of(ci / 4), if has_second { var_of(ci / 16) } else { Var::Eq })
    } else {
        (Var::Eq, Var::Eq, Var::Eq)
    };
    let mut n = n;
    // positional families (VnBest: negative weight at position j; FM: id above one at position
    // j): the t-th well-formed slot of the algorithm enumerates every (n, j), j < n <= 8
    let mut positional: Option<(usize, bool)> = None; // (j, float weights)
    if ci >= combos && matches!(alg, 5 | 7) {
        let t = (k / (combos + extra)) * extra + (ci - combos);
        let period = if alg == 5 { 3 } else { 4 };
        if t % period != period - 1 {
            let u = (t / period) * (period - 1) + t % period;
            let pairs: Vec<(usize, usize)> = (1..=8).flat_map(|n| (0..n).map(move |j| (n, j))).collect();
            let (pn, pj) = pairs[u % pairs.len()];
            n = pn;
            positional = Some((pj, (u / pairs.len()) % 2 == 1));
        }
    }
    let plen = vary(vp, n, r);
    let wlen = vary(vw, n, r);
    let slen = vary(v2, n, r);
    let wellformed = plen == wlen && (!has_second || plen == slen);
    c.family = if ci >= combos {
        "control".to_string()
    } else if wellformed {
        "lengths_equal".to_string()
    } else {
        "len_mismatch".to_string()
    };
    // weights
    let zero_ok = matches!(alg, 2 | 3 | 4 | 5 | 6);
    let mut ws: Vec<i64> = (0..wlen).map(|_| if zero_ok && r.chance(1, 4) { 0 } else { r.range(1, 9) }).collect();
    if alg == 5 && wlen > 0 && positional.is_none() && r.chance(1, 10) {
        ws.iter_mut().for_each(|w| *w = 0); // all-zero early Ok
    }
    c.weights = Weights::I(ws.clone());
    if alg <= 1 {
        c.npoints = slen;
    }
    if alg >= 7 {
        c.nadj = slen;
    }
    // the caller's array
    let reads_ids = matches!(alg, 5 | 6 | 7 | 8);
    c.p0 = if !reads_ids {
        (0..plen).map(|i| usize::MAX - 3 * i).collect() // recognisable garbage
    } else if wellformed || r.chance(1, 3) {
        let hi = if matches!(alg, 7 | 8) { 1 } else { 3 };
        (0..plen).map(|_| r.range(0, hi) as usize).collect()
    } else {
        (0..plen).map(|i| 40000 + 7 * i).collect() // garbage ids (errors come before any allocation)
    };
    // positional families
    if alg == 7 && plen > 0 && (positional.is_some() || (ci < combos && r.chance(1, 4))) {
        // ids above one: position j, value 2 / small / large
        let j = match positional {
            Some((j, _)) => j,
            None => r.below(plen as u64) as usize,
        };
        c.p0[j] = match r.below(3) {
            0 => 2,
            1 => 2 + r.below(5) as usize,
            _ => usize::MAX - r.below(3) as usize,
        };
        if positional.is_some() {
            c.family = "ids_above_one".into();
        }
    }
    if alg == 5 && wlen > 0 && (positional.is_some() || (ci < combos && r.chance(1, 4))) {
        let (j, float) = match positional {
            Some(x) => x,
            None => (r.below(wlen as u64) as usize, r.chance(1, 2)),
        };
        if float {
            let mut f: Vec<f64> = ws
                .iter()
                .map(|w| if *w == 0 { if r.chance(1, 2) { -0.0 } else { 0.0 } } else { *w as f64 + 0.5 })
                .collect();
            f[j] = *r.pick(&[-1.0, -0.5, -1e-300, -1e300, f64::NEG_INFINITY]);
            c.weights = Weights::F(f);
        } else {
            ws[j] = *r.pick(&[-1, -2, -1000, i64::MIN]);
            c.weights = Weights::I(ws.clone());
        }
        if positional.is_some() {
            c.family = "negative_weight".into();
        }
    }
    if matches!(alg, 5 | 6 | 8) && plen > 0 && positional.is_none() && r.chance(1, 16) {
        let j = r.below(plen as u64) as usize;
        c.p0[j] = usize::MAX; // 1 + max(ids) overflows
        c.family = "id_usize_max".into();
    }
    c
}

// ------------------------------------------------------------------ large calls

/// lengths around the multiples of 1024 and 4096 (and a few in between)
const LARGE_LENS: [usize; 18] =
    [4095, 4096, 4097, 5000, 5119, 5120, 5121, 6143, 6145, 7169, 8191, 8192, 8193, 9001, 9217, 9999, 10000, 4100];
const POS_KINDS: usize = 12;

fn large_len(r: &mut Rng) -> usize {
    if r.chance(1, 5) {
        r.range(4096, 10000) as usize
    } else {
        *r.pick(&LARGE_LENS)
    }
}

/// Position of the single offending element in an input of `n >= 4095` elements.
fn offending_pos(kind: usize, n: usize, r: &mut Rng) -> (usize, &'static str) {
    let rem = n % 1024;
    // first position of the trailing partial block (of the last block when n is a multiple of 1024)
    let tail0 = if rem > 0 { n - rem } else { n - 1024 };
    match kind % POS_KINDS {
        0 => (n - 1, "last"),
        1 => (tail0 + r.below((n - tail0) as u64) as usize, "in the trailing len % 1024 positions"),
        2 => (tail0, "first position after the last multiple of 1024"),
        3 => (n - 2, "last but one"),
        4 => (tail0 - 1, "last position of the last full block"),
        5 => (1023, "seam 1023"),
        6 => (1024, "seam 1024"),
        7 => (4095.min(n - 1), "seam 4095"),
        8 => (4096.min(n - 1), "seam 4096"),
        9 => (0, "first"),
        10 => {
            let m = (n / 4096) * 4096;
            ((m.max(1) - r.below(2) as usize).min(n - 1), "seam at the last multiple of 4096")
        }
        _ => (r.below(n as u64) as usize, "anywhere"),
    }
}

/// A length that differs from `n`: off by one, rounded to a block, empty, anything.
fn other_len(n: usize, r: &mut Rng) -> (usize, &'static str) {
    match r.below(8) {
        0 => (n - 1, "n-1"),
        1 => (n + 1, "n+1"),
        2 => (if n % 1024 > 0 { n - n % 1024 } else { n - 1024 }, "n rounded down to a multiple of 1024"),
        3 => ((n / 1024 + 1) * 1024, "n rounded up to the next multiple of 1024"),
        4 => (if n % 4096 > 0 { n - n % 4096 } else { n - 4096 }, "n rounded down to a multiple of 4096"),
        5 => (0, "empty"),
        6 => (n + 1 + r.below(3000) as usize, "longer"),
        _ => (r.range(1, n as i64 - 1) as usize, "shorter"),
    }
}

/// The `s`-th large slot of entry point `c.alg`.
fn gen_large(c: &mut Case, s: usize, r: &mut Rng) {
    let alg = c.alg;
    c.large = true;
    let n = large_len(r);
    if alg >= 9 {
        // HilbertCurve: InvalidOrder depends on the parameter only; large consistent inputs
        let max: u32 = if alg == 9 { 32 } else { 21 };
        c.order = match s % 3 {
            0 => max + 1,
            1 => max + 2 + r.below(100) as u32,
            _ => u32::MAX - r.below(2) as u32,
        };
        c.part_count = *r.pick(&[0usize, 1, 2, 3, 1000]);
        let plen = if r.chance(1, 6) { 0 } else { n };
        c.p0 = (0..plen).map(|i| usize::MAX - 3 * (i / 1024)).collect();
        c.weights = Weights::F((0..n).map(|i| (1 + i % 7) as f64).collect());
        c.npoints = n;
        c.family = "large_order_above_max".into();
        c.note = format!("{} points, weights 1+i%7, order {}", n, c.order);
        return;
    }
    let has_second = matches!(alg, 0 | 1 | 7 | 8);
    let fam = match alg {
        5 => match s % 4 {
            3 => {
                if (s / 4) % 2 == 0 {
                    "large_len_mismatch"
                } else {
                    "large_all_zero"
                }
            }
            _ => "large_negative_weight",
        },
        7 => {
            if s % 2 == 0 {
                "large_ids_above_one"
            } else {
                "large_len_mismatch"
            }
        }
        _ => "large_len_mismatch",
    };
    c.family = fam.into();
    c.part_count = *r.pick(&[2usize, 2, 3, 5]);
    let (mut plen, mut wlen, mut slen) = (n, n, n);
    let zero_ok = matches!(alg, 2 | 3 | 4 | 5 | 6);
    let mut note = format!(
        "n = {}; weights[i] = {}; partition in blocks (see partition_runs)",
        n,
        if fam == "large_all_zero" {
            "0"
        } else if zero_ok {
            "1 + i % 7, but 0 when (i / 300) % 3 == 2"
        } else {
            "1 + i % 7"
        }
    );
    if fam == "large_len_mismatch" {
        // exactly one length is off (now and then two)
        let victims: usize = if has_second { 3 } else { 2 };
        let first = r.below(victims as u64) as usize;
        let twice = r.chance(1, 5);
        for v in 0..victims {
            if v == first || (twice && v == (first + 1) % victims) {
                let (l, how) = other_len(n, r);
                match v {
                    0 => plen = l,
                    1 => wlen = l,
                    _ => slen = l,
                }
                note += &format!("; {} length {} ({})", ["partition", "weights", "second input"][v], l, how);
            }
        }
    }
    if fam == "large_len_mismatch" && plen == wlen && (!has_second || plen == slen) {
        // two victims that happen to agree: keep it a mismatch (no large run of the algorithm proper)
        wlen = plen + 1;
        note += &format!("; weights length {} (partition + 1)", wlen);
    }
    let wellformed = plen == wlen && (!has_second || plen == slen);
    // weights: blocks of 300 positive values 1 + i % 7, every third block zero where zeros are allowed
    let mut ws: Vec<i64> = (0..wlen)
        .map(|i| if fam == "large_all_zero" || (zero_ok && (i / 300) % 3 == 2) { 0 } else { 1 + (i % 7) as i64 })
        .collect();
    c.weights = Weights::I(ws.clone());
    if alg <= 1 {
        c.npoints = slen;
    }
    if alg >= 7 {
        c.nadj = slen;
    }
    // the caller's array, in blocks (so that its run-length encoding stays short)
    let reads_ids = matches!(alg, 5 | 6 | 7 | 8);
    c.p0 = if !reads_ids {
        (0..plen).map(|i| usize::MAX - 3 * (i / 1024)).collect()
    } else if wellformed || r.chance(1, 3) {
        let parts = if matches!(alg, 7 | 8) { 2 } else { 3 };
        (0..plen).map(|i| (i / 512) % parts).collect()
    } else {
        (0..plen).map(|i| 40000 + 7 * (i / 1024)).collect()
    };
    if fam == "large_ids_above_one" {
        let u = s / 2;
        let (j, how) = offending_pos(u, n, r);
        c.p0[j] = match r.below(3) {
            0 => 2,
            1 => 2 + r.below(5) as usize,
            _ => usize::MAX - r.below(3) as usize,
        };
        note += &format!("; the only id above one: partition[{}] = {} ({})", j, c.p0[j], how);
    }
    if fam == "large_negative_weight" {
        let u = (s / 4) * 3 + s % 4;
        let (j, how) = offending_pos(u, n, r);
        if r.chance(1, 2) {
            let mut f: Vec<f64> = ws.iter().map(|w| if *w == 0 { 0.0 } else { *w as f64 + 0.5 }).collect();
            f[j] = *r.pick(&[-1.0, -0.5, -1e-300, -1e300, f64::NEG_INFINITY]);
            note += &format!("; f64 weights (i64 pattern + 0.5); the only negative weight: weights[{}] = {:?} ({})", j, f[j], how);
            c.weights = Weights::F(f);
        } else {
            ws[j] = *r.pick(&[-1, -2, -1000, i64::MIN]);
            note += &format!("; the only negative weight: weights[{}] = {} ({})", j, ws[j], how);
            c.weights = Weights::I(ws.clone());
        }
    }
    c.note = note;
}

/// run-length encoding
fn rle<T: PartialEq + Copy>(xs: &[T]) -> Vec<(T, usize)> {
    let mut out: Vec<(T, usize)> = Vec::new();
    for x in xs {
        match out.last_mut() {
            Some((y, n)) if *y == *x => *n += 1,
            _ => out.push((*x, 1)),
        }
    }
    out
}
fn unrle<T: Copy>(rs: &[(T, usize)]) -> Vec<T> {
    rs.iter().flat_map(|(x, n)| std::iter::repeat(*x).take(*n)).collect()
}
/// the positions at which `after` differs from `before`, with the new value (same lengths: the
/// callee only ever holds a `&mut [usize]`)
fn changed_positions(before: &[usize], after: &[usize]) -> Vec<(usize, usize)> {
    assert_eq!(before.len(), after.len());
    (0..before.len()).filter(|i| before[*i] != after[*i]).map(|i| (i, after[i])).collect()
}
/// `[(a,n%N);..]`: a list of pairs whose second component is a binary number (`na`: so is the first)
fn coq_pairs<A: std::fmt::Display, B: std::fmt::Display>(xs: &[(A, B)], na: bool) -> String {
    let sfx = if na { "%N" } else { "" };
    format!("[{}]", xs.iter().map(|(a, b)| format!("({}{},{}%N)", a, sfx, b)).collect::<Vec<_>>().join(";"))
}

fn run_impl(c: &Case, r: &mut Rng) -> (Guarded<Outcome>, Vec<usize>) {
    let cell = Arc::new(Mutex::new(c.p0.clone()));
    let cell2 = cell.clone();
    let c2 = c.clone();
    let pts2 = points2(c.npoints, r);
    let pts3 = points3(c.npoints, r);
    let three_d = c.alg == 10 || (c.alg <= 1 && r.chance(1, 3));
    let res = guarded(2, Duration::from_secs(20), move || -> Outcome {
        let mut g = cell2.lock().unwrap_or_else(|e| e.into_inner());
        let p: &mut [usize] = &mut g[..];
        let c = c2;
        let wi = c.weights.as_i64();
        let wf = c.weights.as_f64();
        let float = matches!(c.weights, Weights::F(_));
        let tol = [0.05, 0.0, -1.0][c.tol_kind];
        let imb = [Some(0.5), None, Some(0.0)][c.tol_kind];
        match c.alg {
            0 => {
                let mut a = coupe::Rcb { iter_count: c.iter_count, tolerance: tol };
                if three_d {
                    a.partition(p, (pts3, wi)).map_err(err_code)
                } else {
                    a.partition(p, (pts2, wi)).map_err(err_code)
                }
            }
            1 => {
                let mut a = coupe::Rib { iter_count: c.iter_count, tolerance: tol };
                if three_d {
                    a.partition(p, (&pts3[..], wi)).map_err(err_code)
                } else {
                    a.partition(p, (&pts2[..], wi)).map_err(err_code)
                }
            }
            2 => coupe::Greedy { part_count: c.part_count }.partition(p, wi).map_err(err_code),
            3 => coupe::KarmarkarKarp { part_count: c.part_count }.partition(p, wi).map_err(err_code),
            4 => coupe::CompleteKarmarkarKarp { tolerance: [0.1, 0.0, 1.0][c.tol_kind] }.partition(p, wi).map_err(err_code),
            5 => {
                if float {
                    coupe::VnBest.partition(p, wf).map(|_| ()).map_err(err_code)
                } else {
                    coupe::VnBest.partition(p, wi).map(|_| ()).map_err(err_code)
                }
            }
            6 => coupe::VnFirst.partition(p, &wi[..]).map(|_| ()).map_err(err_code),
            7 => {
                let adj = path_graph(c.nadj);
                coupe::FiducciaMattheyses { max_passes: Some(c.iter_count), max_imbalance: imb, ..Default::default() }
                    .partition(p, (adj.view(), &wi[..]))
                    .map(|_| ())
                    .map_err(err_code)
            }
            8 => {
                let adj = path_graph(c.nadj);
                coupe::ArcSwap { max_imbalance: imb }
                    .partition(p, (adj.view(), &wi[..]))
                    .map(|_| ())
                    .map_err(err_code)
            }
            9 => coupe::HilbertCurve { part_count: c.part_count, order: c.order }
                .partition(p, (&pts2[..], wf))
                .map_err(hilbert_code),
            _ => coupe::HilbertCurve { part_count: c.part_count, order: c.order }
                .partition(p, (&pts3[..], wf))
                .map_err(hilbert_code),
        }
    });
    let after = match &res {
        Guarded::Hang => c.p0.clone(), // the worker still holds the array
        _ => match cell.lock() {
            Ok(g) => g.clone(),
            Err(e) => e.into_inner().clone(),
        },
    };
    (res, after)
}

fn main() {
    let a = parse_args();
    quiet_panics();
    let mut rng = Rng::new(a.seed);
    let mut w = CaseWriter::new(
        &a.out,
        "From Coupe Require Import Lib.Prelude Lib.Report Model.Errors Run.RunC20.",
        "case20",
        "run20",
        250,
    );
    let (mut hangs, mut panics) = (0usize, 0usize);
    for idx in 0..a.cases {
        let mut r = rng.fork();
        if let Some(o) = a.only {
            if o != idx {
                continue;
            }
        }
        let c = gen_case(idx, &mut r);
        let (res, after) = run_impl(&c, &mut r);
        match &res {
            Guarded::Hang => hangs += 1,
            Guarded::Panic(_) => panics += 1,
            _ => {}
        }
        let signs = c.weights.signs();
        let coq_signs: Vec<&str> = signs
            .iter()
            .map(|s| match s {
                '-' => "WNeg",
                '0' => "WZero",
                _ => "WPos",
            })
            .collect();
        let sign_s: String = signs.iter().collect();
        let impl_json = match &res {
            Guarded::Done(Ok(())) => "{\"ok\":true}".to_string(),
            Guarded::Done(Err((code, x, y))) => format!("{{\"err\":[{},{},{}]}}", code, x, y),
            Guarded::Panic(m) => format!("{{\"panic\":{}}}", json_str(m)),
            Guarded::Hang => "{\"hang\":true}".to_string(),
        };
        let kf = ""; // no open known finding (Rib's empty-points defect was repaired by f977178)
        let (coq, json, key);
        if c.large {
            // compact form: run-length encodings + the positions where the array changed.  Only the
            // comparison before/after is made here; `big20` rebuilds both arrays and `eval20` judges.
            let sign_runs = rle(&coq_signs);
            let p0_runs = rle(&c.p0);
            let changed = changed_positions(&c.p0, &after);
            assert!(unrle(&sign_runs) == coq_signs && unrle(&p0_runs) == c.p0, "run-length encoding does not round-trip");
            let kind = match &res {
                Guarded::Done(Ok(())) => "KOk".to_string(),
                Guarded::Done(Err((code, x, y))) => format!("(KErr {} {} {})", code, x, y),
                Guarded::Panic(_) => "KPanic".to_string(),
                Guarded::Hang => "KHang".to_string(),
            };
            coq = format!(
                "big20 {} {} {} {} {} {} {} {} {}",
                c.alg,
                coq_pairs(&sign_runs, false),
                c.npoints,
                c.nadj,
                c.part_count,
                c.order,
                coq_pairs(&p0_runs, true),
                kind,
                coq_pairs(&changed, true)
            );
            let shown: Vec<String> = changed.iter().take(40).map(|(i, v)| format!("[{},{}]", i, v)).collect();
            json = format!(
                "{{\"alg\":{},\"large\":{},\"partition_len\":{},\"partition_runs\":{},\"weights_len\":{},\"weight_sign_runs\":{},\"points_len\":{},\"adjacency_len\":{},\"part_count\":{},\"order\":{},\"iter_count\":{},\"tol_kind\":{},\"impl\":{},\"partition_changed_positions\":{},\"partition_changed\":[{}]{}}}",
                json_str(NAMES[c.alg]),
                json_str(&c.note),
                c.p0.len(),
                json_str(&coq_pairs(&p0_runs, true)),
                c.weights.len(),
                json_str(&coq_pairs(&sign_runs, false)),
                c.npoints,
                c.nadj,
                c.part_count,
                c.order,
                c.iter_count,
                c.tol_kind,
                impl_json,
                changed.len(),
                shown.join(","),
                kf
            );
            key = format!(
                "{}|{}|{}|{}|{}|{}|{}|{}|{}",
                c.alg,
                coq_pairs(&p0_runs, true),
                coq_pairs(&sign_runs, false),
                c.npoints,
                c.nadj,
                c.part_count,
                c.order,
                c.iter_count,
                c.tol_kind
            );
        } else {
            let impl_coq = match &res {
                Guarded::Done(Ok(())) => format!("(IOk {})", coq_nlist(after.iter().map(|x| *x as u128))),
                Guarded::Done(Err((code, x, y))) => format!("(IErr {} {} {})", code, x, y),
                Guarded::Panic(_) => "IPanic".to_string(),
                Guarded::Hang => "IHang".to_string(),
            };
            coq = format!(
                "mk20 {} [{}] {} {} {} {} {} {} {}",
                c.alg,
                coq_signs.join(";"),
                c.npoints,
                c.nadj,
                c.part_count,
                c.order,
                coq_nlist(c.p0.iter().map(|x| *x as u128)),
                impl_coq,
                coq_nlist(after.iter().map(|x| *x as u128))
            );
            json = format!(
                "{{\"alg\":{},\"partition\":{},\"weights\":{},\"points_len\":{},\"adjacency_len\":{},\"part_count\":{},\"order\":{},\"iter_count\":{},\"tol_kind\":{},\"impl\":{},\"partition_after\":{}{}}}",
                json_str(NAMES[c.alg]),
                json_usizes(&c.p0),
                c.weights.json(),
                c.npoints,
                c.nadj,
                c.part_count,
                c.order,
                c.iter_count,
                c.tol_kind,
                impl_json,
                json_usizes(&after),
                kf
            );
            key = format!(
                "{}|{:?}|{}|{}|{}|{}|{}|{}|{}",
                c.alg, c.p0, sign_s, c.npoints, c.nadj, c.part_count, c.order, c.iter_count, c.tol_kind
            );
        }
        // non-trivial: some clause of the property applies to the call
        let n = c.p0.len();
        let mism = match c.alg {
            0 | 1 => c.weights.len() != n || c.npoints != n,
            2..=6 => c.weights.len() != n,
            7 | 8 => c.weights.len() != n || c.nadj != n,
            _ => false,
        };
        let nontrivial = mism
            || (c.alg == 7 && c.p0.iter().any(|i| *i > 1))
            || (c.alg == 5 && signs.contains(&'-'))
            || (c.alg == 9 && c.order > 32)
            || (c.alg == 10 && c.order > 21);
        let fam = format!("{}:{}", NAMES[c.alg], c.family);
        w.push(coq, json, &key, nontrivial, &fam);
        if hangs > 3 {
            break;
        }
    }
    w.finish(&format!("\"hangs\":{},\"panics\":{}", hangs, panics));
}

//! C01: every partitioner writes, for every element, an id below the requested
//! count, without panicking or hanging, inside the usage contract, for every
//! rayon pool size.  The Coq side evaluates the (trivially certified) range
//! checker; the per-algorithm models are compared in C03/C09/C10/C11/C12/C13.
use coupe::nalgebra::SVector;
use coupe::Partition as _;
use coupe::{Point2D, Point3D};
use std::num::NonZeroUsize;
use std::time::Duration;
use verif_harness::*;

#[path = "../gen.rs"]
mod gen;

const POOLS: [usize; 6] = [1, 2, 3, 4, 8, 16];
const ALGS: [&str; 14] = [
    "rcb2", "rcb3", "rib2", "rib3", "hilbert2", "hilbert3", "zcurve2", "zcurve3", "multijagged2",
    "greedy", "kk", "ckk", "grid2", "grid3",
];

fn p2(pts: &[Vec<f64>]) -> Vec<Point2D> {
    pts.iter().map(|p| Point2D::new(p[0], p[1])).collect()
}
fn p3(pts: &[Vec<f64>]) -> Vec<Point3D> {
    pts.iter().map(|p| Point3D::new(p[0], p[1], p[2])).collect()
}

type R = Result<Vec<usize>, String>;

/// With probability 1/25 some coordinates are replaced by finite values whose squares overflow f64
/// (|x| >= 1e154).  Rcb copes with them; the algorithms that build an oriented bounding box from the
/// inertia matrix do not (known finding `obb-coordinate-overflow`).
fn maybe_huge(r: &mut Rng, pts: &mut Vec<Vec<f64>>) -> bool {
    if pts.is_empty() || !r.chance(1, 25) {
        return false;
    }
    let k = 1 + r.below(2) as usize;
    for _ in 0..k {
        let i = r.below(pts.len() as u64) as usize;
        let j = r.below(pts[i].len() as u64) as usize;
        pts[i][j] = *r.pick(&[1e160, -1e160, 3e200, -2.5e155, 1e300]);
    }
    true
}

fn main() {
    let a = parse_args();
    quiet_panics();
    let mut rng = Rng::new(a.seed);
    let mut w = CaseWriter::new(
        &a.out,
        "From Coupe Require Import Lib.Prelude Lib.Report Run.RunC01.",
        "case01",
        "run01",
        500,
    );
    let (mut hangs, mut panics) = (0usize, 0usize);
    for idx in 0..a.cases {
        let mut r = rng.fork();
        let alg_i = (idx % (ALGS.len() + 1)).min(ALGS.len()); // last slot = random
        let alg = if alg_i == ALGS.len() { "random" } else { ALGS[alg_i] };
        let threads = POOLS[r.below(6) as usize];
        // sizes: small mostly; sometimes more parts than elements
        let n = match r.below(10) {
            0 => 1,
            1 => 2,
            2 => r.range(30, 60) as usize,
            _ => r.range(1, 24) as usize,
        };
        if let Some(o) = a.only {
            if o != idx {
                continue;
            }
        }
        let (wfam, ws) = gen::weights(&mut r, n);
        // f64 weights are the integer family times a scale: mostly 1, sometimes tiny
        // (around f64::EPSILON, subnormal), fractional or huge -- all finite, non-negative,
        // positive total, sums far from overflow: inside the usage contract.
        let wscale: f64 = if r.chance(1, 6) {
            *r.pick(&[2.220446049250313e-16, 1e-17, 1e-300, 5e-321, 0.1, 1e15, 1e290])
        } else {
            1.0
        };
        let ckk_len = ws.len().min(12);
        let mut params = String::new();
        let mut input = String::new();
        let parts: usize;
        let fam: String;
        let mut kf: Option<&str> = None;
        let seedling = r.next();
        let run: Box<dyn FnOnce() -> R + Send> = match alg {
            "rcb2" | "rcb3" | "rib2" | "rib3" => {
                let d = if alg.ends_with('2') { 2 } else { 3 };
                let (pf, mut pts) = gen::points(&mut r, n, d);
                let huge = maybe_huge(&mut r, &mut pts);
                if huge && alg.starts_with("rib") {
                    kf = Some("obb-coordinate-overflow");
                }
                let iter = r.range(0, 6) as usize;
                let tol = *r.pick(&[0.0, 0.01, 0.05, 0.1, 0.25, 0.5]);
                let fw = r.chance(1, 3);
                parts = 1 << iter;
                fam = format!("{pf}/{wfam}");
                params = format!("\"iter_count\":{iter},\"tolerance\":{tol},\"f64_weights\":{fw},\"weight_scale\":{wscale:e}");
                input = format!("\"points\":{},\"weights\":{}", gen::json_points(&pts), json_i64s(&ws));
                let rib = alg.starts_with("rib");
                Box::new(move || {
                    let mut p = vec![usize::MAX; n];
                    macro_rules! go {
                        ($pts:expr, $w:expr) => {
                            if rib {
                                coupe::Rib { iter_count: iter, tolerance: tol }
                                    .partition(&mut p, (&$pts[..], $w))
                                    .map_err(|e| format!("{e:?}"))
                            } else {
                                coupe::Rcb { iter_count: iter, tolerance: tol }
                                    .partition(&mut p, (coupe::rayon::iter::IntoParallelIterator::into_par_iter($pts.clone()), $w))
                                    .map_err(|e| format!("{e:?}"))
                            }
                        };
                    }
                    let wf: Vec<f64> = ws.iter().map(|x| *x as f64 * wscale).collect();
                    let res = if d == 2 {
                        let pts = p2(&pts);
                        if fw { go!(pts, wf.clone()) } else { go!(pts, ws.clone()) }
                    } else {
                        let pts = p3(&pts);
                        if fw { go!(pts, wf.clone()) } else { go!(pts, ws.clone()) }
                    };
                    res.map(|()| p)
                })
            }
            "hilbert2" | "hilbert3" => {
                let d = if alg.ends_with('2') { 2 } else { 3 };
                let (pf, mut pts) = gen::points(&mut r, n, d);
                if maybe_huge(&mut r, &mut pts) {
                    kf = Some("obb-coordinate-overflow");
                }
                let k = match r.below(4) {
                    0 => n + 1 + r.below(3) as usize,
                    _ => r.range(1, n.max(1) as i64) as usize,
                };
                let maxo = if d == 2 { 32 } else { 21 };
                let order = match r.below(4) {
                    0 => maxo,
                    1 => 1,
                    2 => 0,
                    _ => r.range(1, maxo as i64) as u32,
                };
                parts = k;
                fam = format!("{pf}/{wfam}");
                params = format!("\"part_count\":{k},\"order\":{order},\"weight_scale\":{wscale:e}");
                input = format!("\"points\":{},\"weights\":{}", gen::json_points(&pts), json_i64s(&ws));
                Box::new(move || {
                    let mut p = vec![usize::MAX; n];
                    let wf: Vec<f64> = ws.iter().map(|x| *x as f64 * wscale).collect();
                    let mut h = coupe::HilbertCurve { part_count: k, order };
                    let res = if d == 2 {
                        h.partition(&mut p, (&p2(&pts)[..], wf)).map_err(|e| format!("{e:?}"))
                    } else {
                        h.partition(&mut p, (&p3(&pts)[..], wf)).map_err(|e| format!("{e:?}"))
                    };
                    res.map(|()| p)
                })
            }
            "zcurve2" | "zcurve3" => {
                let d = if alg.ends_with('2') { 2 } else { 3 };
                let (pf, mut pts) = gen::points(&mut r, n, d);
                if maybe_huge(&mut r, &mut pts) {
                    kf = Some("obb-coordinate-overflow");
                }
                let k = match r.below(4) {
                    0 => n + 1 + r.below(3) as usize,
                    _ => r.range(1, n.max(1) as i64) as usize,
                };
                let order = r.range(0, if d == 2 { 30 } else { 20 }) as u32;
                parts = k;
                fam = pf.to_string();
                params = format!("\"part_count\":{k},\"order\":{order}");
                input = format!("\"points\":{}", gen::json_points(&pts));
                Box::new(move || {
                    let mut p = vec![usize::MAX; n];
                    let mut z = coupe::ZCurve { part_count: k, order };
                    if d == 2 {
                        z.partition(&mut p, &p2(&pts)[..]).unwrap();
                    } else {
                        z.partition(&mut p, &p3(&pts)[..]).unwrap();
                    }
                    Ok(p)
                })
            }
            "multijagged2" => {
                let (pf, pts) = gen::points(&mut r, n, 2);
                let k = match r.below(5) {
                    0 => n + 1 + r.below(3) as usize,
                    _ => r.range(1, n.max(1) as i64) as usize,
                };
                let max_iter = r.range(1, 4) as usize;
                parts = k;
                fam = format!("{pf}/{wfam}");
                params = format!("\"part_count\":{k},\"max_iter\":{max_iter},\"weight_scale\":{wscale:e}");
                input = format!("\"points\":{},\"weights\":{}", gen::json_points(&pts), json_i64s(&ws));
                Box::new(move || {
                    let mut p = vec![usize::MAX; n];
                    let wf: Vec<f64> = ws.iter().map(|x| *x as f64 * wscale).collect();
                    coupe::MultiJagged { part_count: k, max_iter }
                        .partition(&mut p, (&p2(&pts)[..], &wf[..]))
                        .unwrap();
                    Ok(p)
                })
            }
            "greedy" | "kk" => {
                let k = match r.below(4) {
                    0 => n + 1 + r.below(3) as usize,
                    1 => 1,
                    _ => r.range(1, 8) as usize,
                };
                parts = k;
                fam = wfam.to_string();
                let fw = r.chance(1, 3);
                params = format!("\"part_count\":{k},\"f64_weights\":{fw},\"weight_scale\":{wscale:e}");
                input = format!("\"weights\":{}", json_i64s(&ws));
                let greedy = alg == "greedy";
                Box::new(move || {
                    let mut p = vec![usize::MAX; n];
                    let wf: Vec<f64> = ws.iter().map(|x| *x as f64 * wscale).collect();
                    let res = match (greedy, fw) {
                        (true, false) => coupe::Greedy { part_count: k }.partition(&mut p, ws.iter().cloned()),
                        (true, true) => coupe::Greedy { part_count: k }.partition(&mut p, wf.iter().cloned()),
                        (false, false) => coupe::KarmarkarKarp { part_count: k }.partition(&mut p, ws.iter().cloned()),
                        (false, true) => coupe::KarmarkarKarp { part_count: k }.partition(&mut p, ws.iter().cloned()),
                    };
                    res.map_err(|e| format!("{e:?}")).map(|()| p)
                })
            }
            "ckk" => {
                let ws: Vec<i64> = ws.iter().take(12).cloned().collect();
                let n2 = ws.len();
                let tol = *r.pick(&[0.0, 0.05, 0.2, 1.0]);
                parts = 2;
                fam = wfam.to_string();
                params = format!("\"tolerance\":{tol}");
                input = format!("\"weights\":{}", json_i64s(&ws));
                Box::new(move || {
                    let mut p = vec![usize::MAX; n2];
                    match (coupe::CompleteKarmarkarKarp { tolerance: tol }).partition(&mut p, ws.iter().cloned()) {
                        Ok(()) => Ok(p),
                        // NotFound is an allowed answer (C13 decides whether it is right)
                        Err(coupe::Error::NotFound) => Err("NotFound".to_string()),
                        Err(e) => Err(format!("{e:?}")),
                    }
                })
            }
            "grid2" | "grid3" => {
                let d = if alg == "grid2" { 2 } else { 3 };
                let dims: Vec<usize> = (0..d).map(|_| r.range(1, if d == 2 { 9 } else { 5 }) as usize).collect();
                let len: usize = dims.iter().product();
                let (wf2, ws2) = gen::weights(&mut r, len);
                let iter = r.range(0, 6) as usize;
                let fw = r.chance(1, 3);
                parts = 1 << iter;
                fam = wf2.to_string();
                params = format!("\"dims\":{:?},\"iter_count\":{iter},\"f64_weights\":{fw},\"weight_scale\":{wscale:e}", dims);
                input = format!("\"weights\":{}", json_i64s(&ws2));
                Box::new(move || {
                    let mut p = vec![usize::MAX; len];
                    let nz = |x: usize| NonZeroUsize::new(x).unwrap();
                    let wf: Vec<f64> = ws2.iter().map(|x| *x as f64 * wscale).collect();
                    if d == 2 {
                        let g = coupe::Grid::new_2d(nz(dims[0]), nz(dims[1]));
                        if fw { g.rcb(&mut p, &wf, iter) } else { g.rcb(&mut p, &ws2, iter) }
                    } else {
                        let g = coupe::Grid::new_3d(nz(dims[0]), nz(dims[1]), nz(dims[2]));
                        if fw { g.rcb(&mut p, &wf, iter) } else { g.rcb(&mut p, &ws2, iter) }
                    }
                    Ok(p)
                })
            }
            _ => {
                let k = r.range(1, 9) as usize;
                parts = k;
                fam = "random".to_string();
                params = format!("\"part_count\":{k}");
                Box::new(move || {
                    use rand::SeedableRng;
                    let mut p = vec![usize::MAX; n];
                    let rng = rand::rngs::StdRng::seed_from_u64(seedling);
                    coupe::Random { rng, part_count: k }.partition(&mut p, ()).unwrap();
                    Ok(p)
                })
            }
        };
        let res = guarded(threads, Duration::from_secs(90), run);
        let (coq_res, json_res) = match &res {
            Guarded::Done(Ok(p)) => (
                format!("(IOk {})", coq_nlist(p.iter().map(|x| *x as u128))),
                format!("{{\"ok\":{}}}", json_usizes(p)),
            ),
            Guarded::Done(Err(e)) if e == "NotFound" => ("(IErr 0 0 0)".to_string(), "{\"err\":\"NotFound\"}".to_string()),
            Guarded::Done(Err(e)) => ("(IErr 99 0 0)".to_string(), format!("{{\"err\":{}}}", json_str(e))),
            Guarded::Panic(m) => {
                panics += 1;
                ("IPanic".to_string(), format!("{{\"panic\":{}}}", json_str(m)))
            }
            Guarded::Hang => {
                hangs += 1;
                ("IHang".to_string(), "{\"hang\":true}".to_string())
            }
        };
        let n_out = match &res {
            Guarded::Done(Ok(p)) => p.len(),
            _ => 0,
        };
        let _ = n_out;
        let alg_code = ALGS.iter().position(|x| *x == alg).unwrap_or(ALGS.len());
        // expected array length is what the harness allocated
        let expect_len = match alg {
            "ckk" => ckk_len,
            "grid2" | "grid3" => match &res {
                Guarded::Done(Ok(p)) => p.len(),
                _ => 0,
            },
            _ => n,
        };
        let coq = format!("mk01 {} {} {} {}", alg_code, parts, expect_len, coq_res);
        let kfj = kf.map(|k| format!(",\"kf\":\"{k}\"")).unwrap_or_default();
        let json = format!(
            "{{\"alg\":\"{alg}\",\"threads\":{threads},{params}{}{input},\"impl\":{json_res}{kfj}}}",
            if input.is_empty() { "" } else { "," }
        );
        let key = format!("{alg}|{threads}|{params}|{input}");
        // non-trivial: at least two elements and at least two parts requested
        let nontrivial = expect_len >= 2 && parts >= 2;
        w.push(coq, json, &key, nontrivial, &format!("{alg}:{fam}"));
        if hangs > 2 {
            break;
        }
    }
    let _ = SVector::<f64, 2>::zeros();
    w.finish(&format!("\"hangs\":{},\"panics\":{}", hangs, panics));
}

//! C16: edge_cut / lambda_cut (sprs specialisation, the trait's default methods,
//! Grid) and the imbalance functions vs Model/Metrics.v — case generator and runner.
use coupe::rayon::iter::IntoParallelRefIterator as _;
use coupe::rayon::iter::ParallelIterator as _;
use coupe::sprs::{CsMat, CsMatView};
use coupe::Topology;
use std::num::NonZeroUsize;
use std::panic::{catch_unwind, AssertUnwindSafe};
use std::time::Duration;
use verif_harness::*;

// ------------------------------------------------------------- wrapper types

/// Delegates `len` and `neighbors` to the sparse-matrix view and nothing else,
/// so that the trait's DEFAULT `edge_cut` / `lambda_cut` run on the same data.
struct Generic<'a, E>(CsMatView<'a, E>);

impl<'a, E> Topology<E> for Generic<'a, E>
where
    E: Copy + Sync,
{
    type Neighbors<'n> = <CsMatView<'a, E> as Topology<E>>::Neighbors<'n> where Self: 'n;

    fn len(&self) -> usize {
        Topology::len(&self.0)
    }
    fn neighbors(&self, vertex: usize) -> Self::Neighbors<'_> {
        Topology::neighbors(&self.0, vertex)
    }
}

/// A plain adjacency list: rows in any order, duplicates allowed (the generic
/// trait asks nothing of the order; this is NOT a valid sparse matrix).
struct Adj<E>(Vec<Vec<(usize, E)>>);

impl<E> Topology<E> for Adj<E>
where
    E: Copy + Sync,
{
    type Neighbors<'n> = std::iter::Cloned<std::slice::Iter<'n, (usize, E)>> where Self: 'n;

    fn len(&self) -> usize {
        self.0.len()
    }
    fn neighbors(&self, vertex: usize) -> Self::Neighbors<'_> {
        self.0[vertex].iter().cloned()
    }
}

// --------------------------------------------------------------- observations

/// None = the call panicked.
fn obs<T>(f: impl FnOnce() -> T) -> Option<T> {
    catch_unwind(AssertUnwindSafe(f)).ok()
}

/// f64 result that must be an integer below 2^53
fn f2i(x: f64) -> Result<i64, ()> {
    if x.is_finite() && x.fract() == 0.0 && x.abs() < 9007199254740992.0 {
        Ok(x as i64)
    } else {
        Err(())
    }
}

fn coq_obs_z(o: &Option<Option<i64>>) -> String {
    match o {
        None => "OAbsent".into(),
        Some(None) => "OPanic".into(),
        Some(Some(v)) => format!("(OVal {})", coq_z(*v as i128)),
    }
}
fn coq_obs_fz(o: &Option<Option<f64>>) -> String {
    match o {
        None => "OAbsent".into(),
        Some(None) => "OPanic".into(),
        Some(Some(v)) => match f2i(*v) {
            Ok(i) => format!("(OVal {})", coq_z(i as i128)),
            Err(()) => "OBad".into(),
        },
    }
}
fn coq_rows(rows: &[Vec<(usize, i64)>]) -> String {
    let v: Vec<String> = rows
        .iter()
        .map(|r| {
            let e: Vec<String> = r
                .iter()
                .map(|(u, x)| format!("({}%nat,{})", u, coq_z(*x as i128)))
                .collect();
            format!("[{}]", e.join(";"))
        })
        .collect();
    format!("[{}]", v.join(";"))
}
fn json_rows(rows: &[Vec<(usize, i64)>]) -> String {
    let v: Vec<String> = rows
        .iter()
        .map(|r| {
            let e: Vec<String> = r.iter().map(|(u, x)| format!("[{},{}]", u, x)).collect();
            format!("[{}]", e.join(","))
        })
        .collect();
    format!("[{}]", v.join(","))
}
fn json_opt<T: std::fmt::Debug>(o: &Option<Option<T>>) -> String {
    match o {
        None => "\"absent\"".into(),
        Some(None) => "\"panic\"".into(),
        Some(Some(v)) => json_str(&format!("{:?}", v)),
    }
}

fn csr_of(rows: &[Vec<(usize, i64)>]) -> (Vec<usize>, Vec<usize>, Vec<i64>) {
    let mut indptr = vec![0usize];
    let mut indices = Vec::new();
    let mut data = Vec::new();
    for r in rows {
        for (u, x) in r {
            indices.push(*u);
            data.push(*x);
        }
        indptr.push(indices.len());
    }
    (indptr, indices, data)
}

// ----------------------------------------------------------------- generators

/// Largest part ids at and around machine-word boundaries (bit masks, small
/// tables, u8/u16 counters in an "optimised" metric would break exactly there).
const WORD_IDS: [usize; 15] = [7, 8, 15, 16, 31, 32, 33, 63, 64, 65, 127, 128, 129, 255, 256];

/// Number of parts: mostly small, regularly largest id = a word boundary, sometimes anything up to 300.
fn gen_k(r: &mut Rng) -> usize {
    match r.below(10) {
        0..=5 => r.range(1, 6) as usize,
        6..=8 => *r.pick(&WORD_IDS) + 1,
        _ => r.range(7, 300) as usize,
    }
}

/// With many parts, make sure the extreme ids are in use and meet: consecutive
/// elements (neighbours on paths, rings, lattices) get k-1, 0, k-2.
fn gen_partition(r: &mut Rng, n: usize, k: usize) -> (String, Vec<usize>) {
    if k > 6 && n > 0 && r.chance(1, 6) {
        // only the top ids and 0
        let lo = k - 3;
        let p = (0..n)
            .map(|_| if r.chance(1, 4) { 0 } else { lo + r.below(3) as usize })
            .collect();
        return ("top_ids".to_string(), p);
    }
    let (name, mut p) = gen_partition_base(r, n, k);
    if k > 6 && n > 0 && r.chance(3, 4) {
        let v = r.below(n as u64) as usize;
        p[v] = k - 1;
        p[(v + 1) % n] = 0;
        if n > 2 {
            p[(v + 2) % n] = k - 2;
        }
        return (format!("{}+extremes_meet", name), p);
    }
    (name, p)
}

fn gen_partition_base(r: &mut Rng, n: usize, k: usize) -> (String, Vec<usize>) {
    match r.below(6) {
        0 => ("uniform", (0..n).map(|_| r.below(k as u64) as usize).collect()),
        1 => ("one_part", vec![r.below(k as u64) as usize; n]),
        2 => {
            // contiguous blocks
            ("blocks", (0..n).map(|i| (i * k / n.max(1)).min(k - 1)).collect())
        }
        3 => ("round_robin", (0..n).map(|i| i % k).collect()),
        4 => {
            // mostly one part, a few strays
            let base = r.below(k as u64) as usize;
            (
                "strays",
                (0..n)
                    .map(|_| if r.chance(1, 6) { r.below(k as u64) as usize } else { base })
                    .collect(),
            )
        }
        _ => {
            // only the two extreme ids are used
            ("extremes", (0..n).map(|_| if r.chance(1, 2) { 0 } else { k - 1 }).collect())
        }
    }
    .into_named()
}
trait IntoNamed {
    fn into_named(self) -> (String, Vec<usize>);
}
impl IntoNamed for (&str, Vec<usize>) {
    fn into_named(self) -> (String, Vec<usize>) {
        (self.0.to_string(), self.1)
    }
}

fn gen_vweights(r: &mut Rng, n: usize) -> Vec<i64> {
    match r.below(5) {
        0 => vec![1; n],
        1 => (0..n).map(|_| r.range(0, 100)).collect(),
        2 => (0..n).map(|_| if r.chance(1, 2) { 0 } else { r.range(0, 9) }).collect(),
        3 => (0..n).map(|_| r.range(-20, 20)).collect(),
        _ => (0..n).map(|_| r.range(0, 1 << 30)).collect(),
    }
}

fn edge_w(r: &mut Rng, style: u64) -> i64 {
    match style {
        0 => 1,
        1 => r.range(1, 50),
        2 => r.range(-9, 9),
        3 => r.range(0, 3),
        _ => r.range(1, 1 << 32),
    }
}

/// A valid sparse matrix (strictly increasing indices in every row) as rows.
fn gen_csr(r: &mut Rng, big: bool) -> (String, Vec<Vec<(usize, i64)>>) {
    let maxn = if big { 40 } else { 24 };
    let style = r.below(5);
    let fam = r.below(9);
    let mut n = r.range(1, maxn) as usize;
    let mut rows: Vec<std::collections::BTreeMap<usize, i64>> = Vec::new();
    let name;
    match fam {
        0 => {
            name = "unsymmetric";
            let dens = r.range(1, 6) as u64;
            rows = vec![Default::default(); n];
            for u in 0..n {
                for v in 0..n {
                    if r.chance(dens, 12) {
                        rows[u].insert(v, edge_w(r, style));
                    }
                }
            }
        }
        1 | 2 => {
            name = if fam == 1 { "symmetric" } else { "symmetric_isolated" };
            let dens = r.range(1, 6) as u64;
            rows = vec![Default::default(); n];
            for u in 0..n {
                for v in 0..u {
                    let iso = fam == 2 && (u % 3 == 0 || v % 3 == 0);
                    if !iso && r.chance(dens, 12) {
                        let w = edge_w(r, style);
                        rows[u].insert(v, w);
                        rows[v].insert(u, w);
                    }
                }
            }
        }
        3 => {
            name = "path";
            rows = vec![Default::default(); n];
            for u in 1..n {
                let w = edge_w(r, style);
                rows[u].insert(u - 1, w);
                rows[u - 1].insert(u, w);
            }
        }
        4 => {
            name = "star";
            rows = vec![Default::default(); n];
            let c = r.below(n as u64) as usize;
            for u in 0..n {
                if u != c {
                    let w = edge_w(r, style);
                    rows[u].insert(c, w);
                    rows[c].insert(u, w);
                }
            }
        }
        5 => {
            name = "symmetric_selfloops";
            rows = vec![Default::default(); n];
            for u in 0..n {
                for v in 0..=u {
                    if r.chance(3, 12) || u == v && r.chance(1, 2) {
                        let w = edge_w(r, style);
                        rows[u].insert(v, w);
                        rows[v].insert(u, w);
                    }
                }
            }
        }
        6 => {
            name = "empty_rows";
            rows = vec![Default::default(); n];
            for u in 0..n {
                if r.chance(1, 3) {
                    for v in 0..n {
                        if r.chance(1, 3) {
                            rows[u].insert(v, edge_w(r, style));
                        }
                    }
                }
            }
        }
        7 => {
            name = "upper_or_lower_only";
            let upper = r.chance(1, 2);
            rows = vec![Default::default(); n];
            for u in 0..n {
                for v in 0..n {
                    if ((upper && v > u) || (!upper && v < u)) && r.chance(4, 12) {
                        rows[u].insert(v, edge_w(r, style));
                    }
                }
            }
        }
        _ => {
            name = "tiny_or_empty";
            n = r.below(3) as usize;
            rows = vec![Default::default(); n];
            for u in 0..n {
                for v in 0..n {
                    if r.chance(1, 2) {
                        rows[u].insert(v, edge_w(r, style));
                    }
                }
            }
        }
    }
    let _ = n;
    (
        name.to_string(),
        rows.into_iter().map(|m| m.into_iter().collect()).collect(),
    )
}

fn shuffle<T>(r: &mut Rng, v: &mut [T]) {
    for i in (1..v.len()).rev() {
        let j = r.below(i as u64 + 1) as usize;
        v.swap(i, j);
    }
}

/// the lattice of the given sizes as a valid sparse matrix, built without coupe
fn lattice_rows(dims: &[usize]) -> Vec<Vec<(usize, i64)>> {
    let n: usize = dims.iter().product();
    let pos = |mut i: usize| -> Vec<usize> {
        dims.iter()
            .map(|s| {
                let c = i % s;
                i /= s;
                c
            })
            .collect()
    };
    let mut rows = vec![Vec::new(); n];
    for u in 0..n {
        let pu = pos(u);
        for v in 0..n {
            let pv = pos(v);
            let diff: usize = pu.iter().zip(&pv).map(|(a, b)| a.abs_diff(*b)).sum();
            if diff == 1 {
                rows[u].push((v, 1i64));
            }
        }
    }
    rows
}

// ------------------------------------------------------------------- runners

struct GraphObs {
    csr_cut: Option<Option<i64>>,
    gen_cut: Option<Option<i64>>,
    csr_lam: Option<Option<i64>>,
    gen_lam: Option<Option<i64>>,
    csr_cut_f: Option<Option<f64>>,
    gen_cut_f: Option<Option<f64>>,
    csr_lam_f: Option<Option<f64>>,
    gen_lam_f: Option<Option<f64>>,
}

/// mode 0: valid sparse matrix through the checked constructor `CsMat::new`;
/// mode 1: adjacency list (generic trait only);
/// mode 2: rows in any order through `CsMatView::new_unchecked`, the constructor
///         coupe's C API uses (ffi/src/lib.rs) -- outside the sparse-matrix contract.
fn run_graph(rows: &[Vec<(usize, i64)>], mode: u64, p: &[usize], vw: &[i64]) -> GraphObs {
    let n = rows.len();
    let vwf: Vec<f64> = vw.iter().map(|x| *x as f64).collect();
    if mode == 2 {
        let (indptr, indices, data) = csr_of(rows);
        let dataf: Vec<f64> = data.iter().map(|x| *x as f64).collect();
        let csr = coupe::sprs::CompressedStorage::CSR;
        let v: CsMatView<i64> =
            unsafe { CsMatView::new_unchecked(csr, (n, n), &indptr[..], &indices[..], &data[..]) };
        let vf: CsMatView<f64> =
            unsafe { CsMatView::new_unchecked(csr, (n, n), &indptr[..], &indices[..], &dataf[..]) };
        GraphObs {
            csr_cut: Some(obs(|| v.edge_cut(p))),
            gen_cut: Some(obs(|| Generic(v).edge_cut(p))),
            csr_lam: Some(obs(|| Topology::<i64>::lambda_cut(&v, p, vw.par_iter().cloned()))),
            gen_lam: Some(obs(|| Topology::<i64>::lambda_cut(&Generic(v), p, vw.par_iter().cloned()))),
            csr_cut_f: Some(obs(|| vf.edge_cut(p))),
            gen_cut_f: Some(obs(|| Generic(vf).edge_cut(p))),
            csr_lam_f: Some(obs(|| Topology::<f64>::lambda_cut(&vf, p, vwf.par_iter().cloned()))),
            gen_lam_f: Some(obs(|| Topology::<f64>::lambda_cut(&Generic(vf), p, vwf.par_iter().cloned()))),
        }
    } else if mode == 0 {
        let (indptr, indices, data) = csr_of(rows);
        let dataf: Vec<f64> = data.iter().map(|x| *x as f64).collect();
        let m: CsMat<i64> = CsMat::new((n, n), indptr.clone(), indices.clone(), data);
        let mf: CsMat<f64> = CsMat::new((n, n), indptr, indices, dataf);
        let (v, vf) = (m.view(), mf.view());
        GraphObs {
            csr_cut: Some(obs(|| v.edge_cut(p))),
            gen_cut: Some(obs(|| Generic(v).edge_cut(p))),
            csr_lam: Some(obs(|| Topology::<i64>::lambda_cut(&v, p, vw.par_iter().cloned()))),
            gen_lam: Some(obs(|| Topology::<i64>::lambda_cut(&Generic(v), p, vw.par_iter().cloned()))),
            csr_cut_f: Some(obs(|| vf.edge_cut(p))),
            gen_cut_f: Some(obs(|| Generic(vf).edge_cut(p))),
            csr_lam_f: Some(obs(|| Topology::<f64>::lambda_cut(&vf, p, vwf.par_iter().cloned()))),
            gen_lam_f: Some(obs(|| Topology::<f64>::lambda_cut(&Generic(vf), p, vwf.par_iter().cloned()))),
        }
    } else {
        let a = Adj(rows.to_vec());
        let af = Adj(rows
            .iter()
            .map(|r| r.iter().map(|(u, x)| (*u, *x as f64)).collect())
            .collect::<Vec<Vec<(usize, f64)>>>());
        GraphObs {
            csr_cut: None,
            gen_cut: Some(obs(|| a.edge_cut(p))),
            csr_lam: None,
            gen_lam: Some(obs(|| Topology::<i64>::lambda_cut(&a, p, vw.par_iter().cloned()))),
            csr_cut_f: None,
            gen_cut_f: Some(obs(|| af.edge_cut(p))),
            csr_lam_f: None,
            gen_lam_f: Some(obs(|| Topology::<f64>::lambda_cut(&af, p, vwf.par_iter().cloned()))),
        }
    }
}

struct GridObs {
    rows: Option<Vec<Vec<usize>>>,
    cut: Option<i64>,
    lam: Option<i64>,
    csr_cut: Option<i64>,
    csr_lam: Option<i64>,
    gen_cut: Option<i64>,
    gen_lam: Option<i64>,
    cut_f: Option<f64>,
}

fn run_grid_on<G>(g: &G, gf: &impl TopoF, lat: &[Vec<(usize, i64)>], p: &[usize], vw: &[i64]) -> GridObs
where
    G: Topology<i64> + Sync,
{
    let n = lat.len();
    let (indptr, indices, data) = csr_of(lat);
    let m: CsMat<i64> = CsMat::new((n, n), indptr, indices, data);
    let v = m.view();
    GridObs {
        rows: obs(|| {
            (0..Topology::len(g))
                .map(|x| g.neighbors(x).map(|(u, _)| u).collect())
                .collect()
        }),
        cut: obs(|| g.edge_cut(p)),
        lam: obs(|| g.lambda_cut(p, vw.par_iter().cloned())),
        csr_cut: obs(|| v.edge_cut(p)),
        csr_lam: obs(|| Topology::<i64>::lambda_cut(&v, p, vw.par_iter().cloned())),
        gen_cut: obs(|| Generic(v).edge_cut(p)),
        gen_lam: obs(|| Topology::<i64>::lambda_cut(&Generic(v), p, vw.par_iter().cloned())),
        cut_f: obs(|| gf.cut_f(p)),
    }
}
/// `Grid` as a `Topology<f64>` (edge weight `f64::one()`)
trait TopoF {
    fn cut_f(&self, p: &[usize]) -> f64;
}
impl<const D: usize> TopoF for coupe::Grid<D> {
    fn cut_f(&self, p: &[usize]) -> f64 {
        Topology::<f64>::edge_cut(self, p)
    }
}

fn run_grid(dims: &[usize], lat: &[Vec<(usize, i64)>], p: &[usize], vw: &[i64]) -> GridObs {
    let nz = |x: usize| NonZeroUsize::new(x).unwrap();
    if dims.len() == 2 {
        let g = coupe::Grid::new_2d(nz(dims[0]), nz(dims[1]));
        run_grid_on(&g, &g, lat, p, vw)
    } else {
        let g = coupe::Grid::new_3d(nz(dims[0]), nz(dims[1]), nz(dims[2]));
        run_grid_on(&g, &g, lat, p, vw)
    }
}

struct LoadObs {
    loads: Option<Vec<i64>>,
    loads_f: Option<Vec<f64>>,
    imb: Option<f64>,
    imb_f: Option<f64>,
    max: Option<i64>,
    max_f: Option<f64>,
    target: Option<i64>,
}

fn run_load(k: usize, p: &[usize], ws: &[i64], targets: &[i64]) -> LoadObs {
    use coupe::imbalance as im;
    let wf: Vec<f64> = ws.iter().map(|x| *x as f64).collect();
    LoadObs {
        loads: obs(|| im::compute_parts_load(p, k, ws.par_iter().cloned())),
        loads_f: obs(|| im::compute_parts_load(p, k, wf.par_iter().cloned())),
        imb: obs(|| im::imbalance(k, p, ws.par_iter().cloned())),
        imb_f: obs(|| im::imbalance(k, p, wf.par_iter().cloned())),
        max: obs(|| im::max_imbalance(k, p, ws.par_iter().cloned())),
        max_f: obs(|| im::max_imbalance(k, p, wf.par_iter().cloned())),
        target: obs(|| im::imbalance_target(targets, p, ws.par_iter().cloned())),
    }
}

fn o1(o: &Option<i64>) -> String {
    coq_obs_z(&Some(*o))
}
fn o1f(o: &Option<f64>) -> String {
    coq_obs_fz(&Some(*o))
}
fn obits(o: &Option<f64>) -> String {
    match o {
        None => "OPanic".into(),
        Some(v) => format!("(OVal {}%N)", v.to_bits()),
    }
}
fn ozs(o: &Option<Vec<i64>>) -> String {
    match o {
        None => "OPanic".into(),
        Some(v) => format!("(OVal {})", coq_zlist(v.iter().map(|x| *x as i128))),
    }
}
fn ofzs(o: &Option<Vec<f64>>) -> String {
    match o {
        None => "OPanic".into(),
        Some(v) => {
            let c: Result<Vec<i64>, ()> = v.iter().map(|x| f2i(*x)).collect();
            match c {
                Ok(c) => format!("(OVal {})", coq_zlist(c.iter().map(|x| *x as i128))),
                Err(()) => "OBad".into(),
            }
        }
    }
}

// ------------------------------------------------------------- LARGE cases
// Thousands of vertices, sizes at and around block / split boundaries
// (1024, 2048, 4096): an implementation that processes rows or elements in
// chunks and mishandles a chunk boundary agrees with the definition on every
// small input.  Rows are written for Coq as (offset from the row index, weight).

const BIG_N: [usize; 15] = [
    1023, 1024, 1025, 1026, 2047, 2048, 2049, 2050, 4095, 4096, 4097, 4098, 4099, 4100, 5000,
];
/// (w, h) with w*h at and around the boundaries, small w (the stride of the second axis)
const BIG_WH: [(usize, usize); 14] = [
    (33, 31),  // 1023
    (32, 32),  // 1024
    (41, 25),  // 1025
    (38, 27),  // 1026
    (23, 89),  // 2047
    (64, 32),  // 2048
    (3, 683),  // 2049
    (50, 41),  // 2050
    (65, 63),  // 4095
    (64, 64),  // 4096
    (17, 241), // 4097
    (6, 683),  // 4098
    (50, 82),  // 4100
    (50, 100), // 5000
];
const BIG_WHD: [(usize, usize, usize); 6] = [
    (16, 16, 4),  // 1024
    (11, 31, 3),  // 1023
    (5, 5, 41),   // 1025
    (16, 16, 8),  // 2048
    (16, 16, 16), // 4096
    (17, 17, 15), // 4335
];
const BOUNDARIES: [usize; 9] = [1022, 1023, 1024, 1025, 2047, 2048, 2049, 4095, 4096];

fn big_n(r: &mut Rng) -> usize {
    if r.chance(1, 6) {
        r.range(1500, 5200) as usize
    } else {
        *r.pick(&BIG_N)
    }
}

/// Compact partition (Run/RunC16.v `pspec`): a literal list, the formula
/// p[i] = (c + a * (i / b)) mod k, or runs (part, count).
#[derive(Clone)]
enum PSpec {
    List(Vec<usize>),
    Stride { c: usize, a: usize, b: usize, k: usize, len: usize },
    Runs(Vec<(usize, usize)>),
}
impl PSpec {
    fn expand(&self) -> Vec<usize> {
        match self {
            PSpec::List(l) => l.clone(),
            PSpec::Stride { c, a, b, k, len } => (0..*len).map(|i| (c + a * (i / b)) % k).collect(),
            PSpec::Runs(rs) => rs.iter().flat_map(|(q, n)| std::iter::repeat(*q).take(*n)).collect(),
        }
    }
    fn coq(&self) -> String {
        match self {
            PSpec::List(l) => format!("(PList {})", coq_natlist(l.iter().cloned())),
            PSpec::Stride { c, a, b, k, len } => format!("(PStride {}%N {}%N {}%N {}%N {}%N)", c, a, b, k, len),
            PSpec::Runs(rs) => format!(
                "(PRuns [{}]%N)",
                rs.iter().map(|(q, n)| format!("({},{})", q, n)).collect::<Vec<_>>().join(";")
            ),
        }
    }
    fn json(&self) -> String {
        match self {
            PSpec::List(l) => {
                let pz: Vec<i64> = l.iter().map(|x| *x as i64).collect();
                format!("{{\"rle\":{}}}", json_rle(&pz))
            }
            PSpec::Stride { c, a, b, k, len } => format!(
                "{{\"formula\":\"p[i] = ({} + {} * (i / {})) mod {}\",\"len\":{}}}",
                c, a, b, k, len
            ),
            PSpec::Runs(rs) => format!(
                "{{\"runs_part_count\":[{}]}}",
                rs.iter().map(|(q, n)| format!("[{},{}]", q, n)).collect::<Vec<_>>().join(",")
            ),
        }
    }
}

/// many parts on a large graph: beyond 64 and beyond 1024, as a formula
fn big_partition_many(r: &mut Rng, n: usize) -> (String, PSpec) {
    match r.below(3) {
        0 => ("one_part_per_vertex".into(), PSpec::Stride { c: 0, a: 1, b: 1, k: n.max(1), len: n }),
        1 => {
            let k = (*r.pick(&[65usize, 129, 1025, 2048])).min(n.max(1));
            ("round_robin_many".into(), PSpec::Stride { c: 0, a: 1, b: 1, k, len: n })
        }
        _ => {
            let k = (*r.pick(&[65usize, 1025, 1500])).min(n.max(1));
            let b = r.range(2, 5) as usize;
            ("blocks_many".into(), PSpec::Stride { c: r.below(k as u64) as usize, a: 1, b, k, len: n })
        }
    }
}

/// partitions that cut edges at and around the boundary rows
fn big_partition(r: &mut Rng, n: usize, k: usize) -> (String, Vec<usize>) {
    let bs: Vec<usize> = BOUNDARIES.iter().cloned().filter(|b| *b < n).collect();
    match r.below(7) {
        0 => ("alternating".into(), (0..n).map(|v| v % 2 % k).collect()),
        1 => ("round_robin".into(), (0..n).map(|v| v % k).collect()),
        2 if !bs.is_empty() => {
            // the only part change is between rows b-1 and b
            let b = *r.pick(&bs);
            ("single_cut_at_boundary".into(), (0..n).map(|v| if v >= b { k - 1 } else { 0 }).collect())
        }
        3 if !bs.is_empty() => {
            // only the boundary rows themselves are in another part
            ("boundary_rows_only".into(), (0..n).map(|v| if bs.contains(&v) { k - 1 } else { 0 }).collect())
        }
        4 => {
            let blk = *r.pick(&[512usize, 1024, 1000, 1025]);
            ("blocks".into(), (0..n).map(|v| (v / blk) % k).collect())
        }
        5 => {
            // uniform background, a window of random parts around every boundary
            let mut p = vec![0usize; n];
            for b in &bs {
                for v in b.saturating_sub(3)..(*b + 4).min(n) {
                    p[v] = r.below(k as u64) as usize;
                }
            }
            ("random_near_boundaries".into(), p)
        }
        _ => ("uniform".into(), (0..n).map(|_| r.below(k as u64) as usize).collect()),
    }
}

fn big_vweights(r: &mut Rng, n: usize) -> Vec<i64> {
    match r.below(4) {
        0 => vec![1; n],
        1 => (0..n).map(|v| 1 + (v % 7) as i64).collect(),
        2 => (0..n).map(|v| if BOUNDARIES.contains(&v) { 1000 } else { 0 }).collect(),
        _ => (0..n).map(|_| r.range(0, 1000)).collect(),
    }
}

/// sparse rows, symmetric unless stated, strictly increasing indices
fn big_rows(r: &mut Rng, n: usize) -> (String, Vec<Vec<(usize, i64)>>) {
    let mut rows: Vec<std::collections::BTreeMap<usize, i64>> = vec![Default::default(); n];
    let wstyle = r.below(3);
    let mut ew = |r: &mut Rng, v: usize| -> i64 {
        match wstyle {
            0 => 1,
            1 => 1 + (v % 5) as i64,
            _ => r.range(1, 1000),
        }
    };
    let fam = r.below(5);
    let name = match fam {
        0 | 1 => {
            for v in 1..n {
                let w = ew(r, v);
                rows[v].insert(v - 1, w);
                rows[v - 1].insert(v, w);
            }
            if fam == 1 && n > 2 {
                let w = ew(r, 0);
                rows[0].insert(n - 1, w);
                rows[n - 1].insert(0, w);
                "big_ring"
            } else {
                "big_path"
            }
        }
        2 => {
            // random sparse, banded (offsets up to 40), symmetric
            for v in 1..n {
                for _ in 0..r.below(3) {
                    let d = r.range(1, 40) as usize;
                    if d <= v {
                        let w = ew(r, v);
                        rows[v].insert(v - d, w);
                        rows[v - d].insert(v, w);
                    }
                }
            }
            "big_random_sparse"
        }
        3 => {
            // random sparse, unsymmetric (entries on one side only, either side)
            for v in 0..n {
                for _ in 0..r.below(3) {
                    let d = r.range(1, 40) as usize;
                    if r.chance(2, 3) {
                        if d <= v {
                            let w = ew(r, v);
                            rows[v].insert(v - d, w);
                        }
                    } else if v + d < n {
                        let w = ew(r, v);
                        rows[v].insert(v + d, w);
                    }
                }
            }
            "big_random_sparse_unsymmetric"
        }
        _ => "big_lattice",
    };
    if name == "big_lattice" {
        let (w, h) = *r.pick(&BIG_WH);
        return (name.to_string(), lattice_rows_fast(&[w, h]));
    }
    (name.to_string(), rows.into_iter().map(|m| m.into_iter().collect()).collect())
}

/// the lattice as a valid sparse matrix in O(n), built without coupe
fn lattice_rows_fast(dims: &[usize]) -> Vec<Vec<(usize, i64)>> {
    let n: usize = dims.iter().product();
    let mut strides = Vec::new();
    let mut acc = 1usize;
    for s in dims {
        strides.push(acc);
        acc *= s;
    }
    (0..n)
        .map(|v| {
            let mut row = Vec::new();
            for a in (0..dims.len()).rev() {
                if (v / strides[a]) % dims[a] > 0 {
                    row.push((v - strides[a], 1i64));
                }
            }
            for a in 0..dims.len() {
                if (v / strides[a]) % dims[a] + 1 < dims[a] {
                    row.push((v + strides[a], 1i64));
                }
            }
            row
        })
        .collect()
}

fn coq_offset_rows(rows: &[Vec<(usize, i64)>]) -> String {
    let v: Vec<String> = rows
        .iter()
        .enumerate()
        .map(|(v, r)| {
            let e: Vec<String> = r
                .iter()
                .map(|(u, x)| format!("({},{})", coq_z(*u as i128 - v as i128), coq_z(*x as i128)))
                .collect();
            format!("[{}]", e.join(";"))
        })
        .collect();
    format!("[{}]", v.join(";\n"))
}

fn coq_graph_obs(res: &Guarded<GraphObs>, panics: &mut usize, hangs: &mut usize) -> (String, String) {
    match res {
        Guarded::Done(o) => (
            format!(
                "(mkGO {} {} {} {} {} {} {} {})",
                coq_obs_z(&o.csr_cut),
                coq_obs_z(&o.gen_cut),
                coq_obs_z(&o.csr_lam),
                coq_obs_z(&o.gen_lam),
                coq_obs_fz(&o.csr_cut_f),
                coq_obs_fz(&o.gen_cut_f),
                coq_obs_fz(&o.csr_lam_f),
                coq_obs_fz(&o.gen_lam_f)
            ),
            format!(
                "{{\"csr_cut\":{},\"gen_cut\":{},\"csr_lambda\":{},\"gen_lambda\":{},\"csr_cut_f64\":{},\"gen_cut_f64\":{},\"csr_lambda_f64\":{},\"gen_lambda_f64\":{}}}",
                json_opt(&o.csr_cut),
                json_opt(&o.gen_cut),
                json_opt(&o.csr_lam),
                json_opt(&o.gen_lam),
                json_opt(&o.csr_cut_f),
                json_opt(&o.gen_cut_f),
                json_opt(&o.csr_lam_f),
                json_opt(&o.gen_lam_f)
            ),
        ),
        Guarded::Panic(m) => {
            *panics += 1;
            (
                "(mkGO OPanic OPanic OPanic OPanic OPanic OPanic OPanic OPanic)".to_string(),
                format!("{{\"panic\":{}}}", json_str(m)),
            )
        }
        Guarded::Hang => {
            *hangs += 1;
            (
                "(mkGO OHang OHang OHang OHang OHang OHang OHang OHang)".to_string(),
                "{\"hang\":true}".to_string(),
            )
        }
    }
}

/// run-length text of a long array for the JSON side (the Coq side gets it in full)
fn json_rle(xs: &[i64]) -> String {
    let mut out: Vec<String> = Vec::new();
    let mut i = 0;
    while i < xs.len() {
        let mut j = i;
        while j < xs.len() && xs[j] == xs[i] {
            j += 1;
        }
        out.push(format!("[{},{}]", xs[i], j - i));
        i = j;
    }
    format!("[{}]", out.join(","))
}

/// One large case; returns (coq term, json, key, family).
fn big_case(r: &mut Rng, threads: usize, panics: &mut usize, hangs: &mut usize) -> (String, String, String, String) {
    let k = if r.chance(2, 3) { r.range(2, 6) as usize } else { *r.pick(&WORD_IDS) + 1 };
    match r.below(10) {
        8 | 9 => {
            // MANY parts (at and beyond 1024) for compute_parts_load / imbalance / max_imbalance /
            // imbalance_target: every part is met in at least two distant places of the array,
            // i.e. by different rayon tasks, whatever the pool size.
            let k = *r.pick(&[1024usize, 1025, 1500, 2048, 3000, 4097]);
            let threads = *r.pick(&[1usize, 2, 3, 8]);
            let len = k * r.range(2, 4) as usize + r.below(6) as usize;
            let (pfam, spec) = match r.below(4) {
                0 => ("round_robin", PSpec::Stride { c: r.below(k as u64) as usize, a: 1, b: 1, k, len }),
                1 => {
                    // a stride sharing a factor with k leaves parts empty
                    let a = *r.pick(&[2usize, 3, 4, 5, 7, 64]);
                    ("stride", PSpec::Stride { c: r.below(k as u64) as usize, a, b: 1, k, len })
                }
                2 => ("block_wise", PSpec::Stride { c: 0, a: 1, b: r.range(2, 3) as usize, k, len }),
                _ => {
                    // random runs over a pool of 60 part ids (most parts empty, pool parts recur)
                    let pool: Vec<usize> = (0..60)
                        .map(|i| match i {
                            0 => 0,
                            1 => k - 1,
                            2 => 1023.min(k - 1),
                            3 => 1024.min(k - 1),
                            _ => r.below(k as u64) as usize,
                        })
                        .collect();
                    let mut runs = Vec::new();
                    let mut left = len;
                    while left > 0 {
                        let c = (r.range(1, (len / 150).max(2) as i64) as usize).min(left);
                        runs.push((*r.pick(&pool), c));
                        left -= c;
                    }
                    ("random_runs", PSpec::Runs(runs))
                }
            };
            let p = spec.expand();
            let (name, ws): (&str, Vec<i64>) = match r.below(4) {
                0 => ("many_parts_load_ones", vec![1; len]),
                1 => ("many_parts_load_mod7", (0..len).map(|v| 1 + (v % 7) as i64).collect()),
                2 => ("many_parts_load_random", (0..len).map(|_| r.range(0, 1000)).collect()),
                _ => ("many_parts_load_sparse", (0..len).map(|v| if v % 97 == 0 { r.range(1, 1 << 30) } else { 0 }).collect()),
            };
            let targets: Vec<i64> = (0..k).map(|_| r.range(0, 50)).collect();
            let (p2, ws2, t2) = (p.clone(), ws.clone(), targets.clone());
            let res = guarded(threads, Duration::from_secs(120), move || run_load(k, &p2, &ws2, &t2));
            let (coq_o, json_o) = coq_load_obs(&res, panics, hangs);
            let depth = (usize::BITS - threads.leading_zeros()) as usize;
            let coq = format!(
                "CManyLoad {} {}%N {} {} {} {}",
                depth,
                k,
                spec.coq(),
                coq_zlist(ws.iter().map(|x| *x as i128)),
                coq_zlist(targets.iter().map(|x| *x as i128)),
                coq_o
            );
            // the JSON keeps the inputs compact and the outputs summarised
            let json = format!(
                "{{\"kind\":\"many_parts_load\",\"num_parts\":{},\"len\":{},\"threads\":{},\"partition_family\":\"{}\",\"partition\":{},\"weights_rle\":{},\"targets_rle\":{},\"impl\":{}}}",
                k, len, threads, pfam, spec.json(), json_rle(&ws), json_rle(&targets), json_load_summary(&res)
            );
            let key = format!("ml|{}|{}|{}|{}|{:?}", name, k, len, pfam, &ws[..ws.len().min(40)]);
            (coq, json, key, name.to_string())
        }
        0..=3 => {
            let n = big_n(r);
            let (fam, rows) = big_rows(r, n);
            let n = rows.len();
            let (pfam, spec) = if r.chance(1, 4) {
                big_partition_many(r, n)
            } else {
                let (f, p) = big_partition(r, n, k);
                (f, PSpec::List(p))
            };
            let p = spec.expand();
            let vw = big_vweights(r, n);
            let (rows2, p2, vw2) = (rows.clone(), p.clone(), vw.clone());
            let res = guarded(threads, Duration::from_secs(120), move || run_graph(&rows2, 0, &p2, &vw2));
            let (coq_o, json_o) = coq_graph_obs(&res, panics, hangs);
            let coq = format!(
                "CBigGraph {} {} {} {}",
                coq_offset_rows(&rows),
                spec.coq(),
                coq_zlist(vw.iter().map(|x| *x as i128)),
                coq_o
            );
            let json = format!(
                "{{\"kind\":\"big_graph\",\"family\":\"{}\",\"n\":{},\"entries\":{},\"threads\":{},\"partition_family\":\"{}\",\"partition\":{},\"impl\":{},\"note\":\"rows are regenerated from the seed: rerun with --only <index>\"}}",
                fam, n, rows.iter().map(|x| x.len()).sum::<usize>(), threads, pfam, spec.json(), json_o
            );
            let key = format!("bg|{}|{}|{}|{:?}", fam, n, pfam, &p[..p.len().min(40)]);
            (coq, json, key, fam)
        }
        4 | 5 => {
            let dims: Vec<usize> = if r.chance(2, 3) {
                let (w, h) = *r.pick(&BIG_WH);
                vec![w, h]
            } else {
                let (w, h, d) = *r.pick(&BIG_WHD);
                vec![w, h, d]
            };
            let n: usize = dims.iter().product();
            let lat = lattice_rows_fast(&dims);
            let (pfam, spec) = if r.chance(1, 4) {
                big_partition_many(r, n)
            } else {
                let (f, p) = big_partition(r, n, k);
                (f, PSpec::List(p))
            };
            let p = spec.expand();
            let vw = big_vweights(r, n);
            let (d2, l2, p2, vw2) = (dims.clone(), lat.clone(), p.clone(), vw.clone());
            let res = guarded(threads, Duration::from_secs(120), move || run_grid(&d2, &l2, &p2, &vw2));
            let (coq_o, json_o) = match &res {
                Guarded::Done(o) => (
                    format!(
                        "(mkBG {} {} {} {} {} {} {} {})",
                        match &o.rows {
                            None => "OPanic".to_string(),
                            Some(rs) => format!(
                                "(OVal [{}])",
                                rs.iter()
                                    .enumerate()
                                    .map(|(v, x)| coq_zlist(x.iter().map(|u| *u as i128 - v as i128)))
                                    .collect::<Vec<_>>()
                                    .join(";\n")
                            ),
                        },
                        o1(&o.cut),
                        o1(&o.lam),
                        o1(&o.csr_cut),
                        o1(&o.csr_lam),
                        o1(&o.gen_cut),
                        o1(&o.gen_lam),
                        o1f(&o.cut_f)
                    ),
                    format!(
                        "{{\"grid_cut\":{},\"grid_lambda\":{},\"csr_cut\":{},\"csr_lambda\":{},\"gen_cut\":{},\"gen_lambda\":{},\"grid_cut_f64\":{}}}",
                        json_opt(&Some(o.cut)),
                        json_opt(&Some(o.lam)),
                        json_opt(&Some(o.csr_cut)),
                        json_opt(&Some(o.csr_lam)),
                        json_opt(&Some(o.gen_cut)),
                        json_opt(&Some(o.gen_lam)),
                        json_opt(&Some(o.cut_f))
                    ),
                ),
                Guarded::Panic(m) => {
                    *panics += 1;
                    (
                        "(mkBG OPanic OPanic OPanic OPanic OPanic OPanic OPanic OPanic)".to_string(),
                        format!("{{\"panic\":{}}}", json_str(m)),
                    )
                }
                Guarded::Hang => {
                    *hangs += 1;
                    (
                        "(mkBG OHang OHang OHang OHang OHang OHang OHang OHang)".to_string(),
                        "{\"hang\":true}".to_string(),
                    )
                }
            };
            let coq = format!(
                "CBigGrid {} {} {} {} {}",
                coq_natlist(dims.iter().cloned()),
                coq_offset_rows(&lat),
                spec.coq(),
                coq_zlist(vw.iter().map(|x| *x as i128)),
                coq_o
            );
            let json = format!(
                "{{\"kind\":\"big_grid\",\"dims\":{},\"threads\":{},\"partition_family\":\"{}\",\"partition\":{},\"impl\":{}}}",
                json_usizes(&dims), threads, pfam, spec.json(), json_o
            );
            let key = format!("br|{:?}|{}|{:?}", dims, pfam, &p[..p.len().min(40)]);
            (coq, json, key, format!("big_grid{}d", dims.len()))
        }
        _ => {
            // large weight arrays for compute_parts_load / imbalance / max_imbalance
            let n = big_n(r);
            let (pfam, p) = big_partition(r, n, k);
            let (name, ws): (&str, Vec<i64>) = match r.below(5) {
                0 => ("big_load_ones", vec![1; n]),
                1 => ("big_load_boundary_spikes", (0..n).map(|v| if BOUNDARIES.contains(&v) { 1 << 20 } else { 0 }).collect()),
                2 => ("big_load_index", (0..n).map(|v| v as i64).collect()),
                3 => ("big_load_random", (0..n).map(|_| r.range(0, 1 << 30)).collect()),
                _ => ("big_load_signed", (0..n).map(|_| r.range(-1000, 1000)).collect()),
            };
            let targets: Vec<i64> = (0..k).map(|_| r.range(0, 1 << 20)).collect();
            let (p2, ws2, t2) = (p.clone(), ws.clone(), targets.clone());
            let res = guarded(threads, Duration::from_secs(120), move || run_load(k, &p2, &ws2, &t2));
            let (coq_o, json_o) = coq_load_obs(&res, panics, hangs);
            let depth = (usize::BITS - threads.leading_zeros()) as usize + 3;
            let coq = format!(
                "CLoad {} {} {} {} {} {}",
                depth,
                k,
                coq_natlist(p.iter().cloned()),
                coq_zlist(ws.iter().map(|x| *x as i128)),
                coq_zlist(targets.iter().map(|x| *x as i128)),
                coq_o
            );
            let pz: Vec<i64> = p.iter().map(|x| *x as i64).collect();
            let json = format!(
                "{{\"kind\":\"big_load\",\"n\":{},\"threads\":{},\"num_parts\":{},\"partition_family\":\"{}\",\"partition_rle\":{},\"weights_rle\":{},\"targets\":{},\"impl\":{}}}",
                n, threads, k, pfam, json_rle(&pz), json_rle(&ws), json_i64s(&targets), json_o
            );
            let key = format!("bl|{}|{}|{}|{}|{:?}", name, n, k, pfam, &ws[..ws.len().min(40)]);
            (coq, json, key, name.to_string())
        }
    }
}

fn json_load_summary(res: &Guarded<LoadObs>) -> String {
    match res {
        Guarded::Done(o) => format!(
            "{{\"loads_rle\":{},\"loads_f64_equal_i64\":{},\"imbalance\":{},\"imbalance_f64w\":{},\"max_imbalance\":{},\"max_imbalance_f64\":{},\"imbalance_target\":{}}}",
            match &o.loads {
                Some(l) => json_rle(l),
                None => "\"panic\"".to_string(),
            },
            match (&o.loads, &o.loads_f) {
                (Some(a), Some(b)) => (a.len() == b.len() && a.iter().zip(b).all(|(x, y)| *x as f64 == *y)).to_string(),
                _ => "\"panic\"".to_string(),
            },
            json_opt(&Some(o.imb)),
            json_opt(&Some(o.imb_f)),
            json_opt(&Some(o.max)),
            json_opt(&Some(o.max_f)),
            json_opt(&Some(o.target))
        ),
        Guarded::Panic(m) => format!("{{\"panic\":{}}}", json_str(m)),
        Guarded::Hang => "{\"hang\":true}".to_string(),
    }
}

fn coq_load_obs(res: &Guarded<LoadObs>, panics: &mut usize, hangs: &mut usize) -> (String, String) {
    match res {
        Guarded::Done(o) => (
            format!(
                "(mkLO {} {} {} {} {} {} {})",
                ozs(&o.loads),
                ofzs(&o.loads_f),
                obits(&o.imb),
                obits(&o.imb_f),
                o1(&o.max),
                o1f(&o.max_f),
                o1(&o.target)
            ),
            format!(
                "{{\"loads\":{},\"loads_f64\":{},\"imbalance\":{},\"imbalance_bits\":{},\"imbalance_f64w_bits\":{},\"max_imbalance\":{},\"max_imbalance_f64\":{},\"imbalance_target\":{}}}",
                json_opt(&Some(o.loads.clone())),
                json_opt(&Some(o.loads_f.clone())),
                json_opt(&Some(o.imb)),
                json_opt(&Some(o.imb.map(|x| x.to_bits()))),
                json_opt(&Some(o.imb_f.map(|x| x.to_bits()))),
                json_opt(&Some(o.max)),
                json_opt(&Some(o.max_f)),
                json_opt(&Some(o.target))
            ),
        ),
        Guarded::Panic(m) => {
            *panics += 1;
            (
                "(mkLO OPanic OPanic OPanic OPanic OPanic OPanic OPanic)".to_string(),
                format!("{{\"panic\":{}}}", json_str(m)),
            )
        }
        Guarded::Hang => {
            *hangs += 1;
            (
                "(mkLO OHang OHang OHang OHang OHang OHang OHang)".to_string(),
                "{\"hang\":true}".to_string(),
            )
        }
    }
}

fn main() {
    let a = parse_args();
    quiet_panics();
    let big = a.tier == "thorough";
    let mut rng = Rng::new(a.seed);
    let mut w = CaseWriter::new(
        &a.out,
        "From Coupe Require Import Lib.Prelude Lib.Report Run.RunC16.\nOpen Scope Z_scope.",
        "case16",
        "run16",
        if big { 150 } else { 60 },
    );
    let mut hangs = 0usize;
    let mut panics = 0usize;
    let big_period = if big { 50 } else { 60 };
    for idx in 0..a.cases {
        let mut r = rng.fork();
        if let Some(o) = a.only {
            if o != idx {
                continue;
            }
        }
        let threads = idx % 16 + 1;
        // one LARGE case per shard (quick: every 60th case, thorough: every 50th)
        if idx % big_period == big_period - 1 {
            let (coq, json, key, fam) = big_case(&mut r, threads, &mut panics, &mut hangs);
            w.push(coq, json, &key, true, &fam);
            if hangs > 3 {
                break;
            }
            continue;
        }
        let kind = r.below(10);
        if kind < 5 {
            // ---------------------------------------------- graph case
            let mode: u64 = if kind < 4 {
                0
            } else if r.chance(1, 2) {
                1
            } else {
                2
            };
            let (mut fam, mut rows) = gen_csr(&mut r, big);
            // one part per vertex on a path / ring whose last id sits at a word boundary
            let one_per_vertex = r.chance(1, 10);
            if one_per_vertex {
                let n = *r.pick(&[8usize, 9, 16, 17, 32, 33, 34, 64, 65, 66, 128, 129, 130, 200]);
                let ring = r.chance(1, 2);
                let mut m: Vec<std::collections::BTreeMap<usize, i64>> = vec![Default::default(); n];
                for v in 1..n {
                    let w = r.range(1, 9);
                    m[v].insert(v - 1, w);
                    m[v - 1].insert(v, w);
                }
                if ring {
                    let w = r.range(1, 9);
                    m[0].insert(n - 1, w);
                    m[n - 1].insert(0, w);
                }
                rows = m.into_iter().map(|x| x.into_iter().collect()).collect();
                fam = (if ring { "ring_one_part_per_vertex" } else { "path_one_part_per_vertex" }).to_string();
            }
            if mode == 1 {
                // adjacency list for the generic trait only: shuffled rows, duplicated entries
                fam = format!("adjlist_{}", fam);
                for row in rows.iter_mut() {
                    if !row.is_empty() && r.chance(1, 2) {
                        let e = *r.pick(row);
                        row.push((e.0, r.range(-3, 7)));
                    }
                    shuffle(&mut r, row);
                }
            }
            if mode == 2 {
                // separate stream OUTSIDE the sparse-matrix contract: rows in any order
                fam = format!("unsorted_unchecked_{}", fam);
                for row in rows.iter_mut() {
                    shuffle(&mut r, row);
                }
            }
            let n = rows.len();
            let k = gen_k(&mut r);
            let (pfam, mut p) = if one_per_vertex {
                ("one_part_per_vertex".to_string(), (0..n).collect())
            } else {
                gen_partition(&mut r, n, k)
            };
            let mut vw = gen_vweights(&mut r, n);
            // outside the contract (separate, rare stream): short partition / weight arrays, long ones
            let mut contract = "in";
            match r.below(24) {
                0 if n > 0 => {
                    p.truncate(n - 1 - r.below(n.min(3) as u64) as usize);
                    contract = "short_partition";
                }
                1 => {
                    p.extend((0..1 + r.below(3)).map(|_| 0usize));
                    contract = "long_partition";
                }
                2 if n > 0 => {
                    vw.truncate(n - 1 - r.below(n.min(3) as u64) as usize);
                    contract = "short_weights";
                }
                3 => {
                    vw.push(5);
                    contract = "long_weights";
                }
                _ => {}
            }
            let (rows2, p2, vw2) = (rows.clone(), p.clone(), vw.clone());
            let res = guarded(threads, Duration::from_secs(30), move || {
                run_graph(&rows2, mode, &p2, &vw2)
            });
            let (coq_o, json_o) = match &res {
                Guarded::Done(o) => (
                    format!(
                        "(mkGO {} {} {} {} {} {} {} {})",
                        coq_obs_z(&o.csr_cut),
                        coq_obs_z(&o.gen_cut),
                        coq_obs_z(&o.csr_lam),
                        coq_obs_z(&o.gen_lam),
                        coq_obs_fz(&o.csr_cut_f),
                        coq_obs_fz(&o.gen_cut_f),
                        coq_obs_fz(&o.csr_lam_f),
                        coq_obs_fz(&o.gen_lam_f)
                    ),
                    format!(
                        "{{\"csr_cut\":{},\"gen_cut\":{},\"csr_lambda\":{},\"gen_lambda\":{},\"csr_cut_f64\":{},\"gen_cut_f64\":{},\"csr_lambda_f64\":{},\"gen_lambda_f64\":{}}}",
                        json_opt(&o.csr_cut),
                        json_opt(&o.gen_cut),
                        json_opt(&o.csr_lam),
                        json_opt(&o.gen_lam),
                        json_opt(&o.csr_cut_f),
                        json_opt(&o.gen_cut_f),
                        json_opt(&o.csr_lam_f),
                        json_opt(&o.gen_lam_f)
                    ),
                ),
                Guarded::Panic(m) => {
                    panics += 1;
                    (
                        "(mkGO OPanic OPanic OPanic OPanic OPanic OPanic OPanic OPanic)".to_string(),
                        format!("{{\"panic\":{}}}", json_str(m)),
                    )
                }
                Guarded::Hang => {
                    hangs += 1;
                    (
                        "(mkGO OHang OHang OHang OHang OHang OHang OHang OHang)".to_string(),
                        "{\"hang\":true}".to_string(),
                    )
                }
            };
            let coq = format!(
                "CGraph {} {} {} {}",
                coq_rows(&rows),
                coq_natlist(p.iter().cloned()),
                coq_zlist(vw.iter().map(|x| *x as i128)),
                coq_o
            );
            let json = format!(
                "{{\"kind\":\"graph\",\"constructor\":\"{}\",\"threads\":{},\"rows\":{},\"partition\":{},\"vertex_weights\":{},\"partition_family\":\"{}\",\"contract\":\"{}\",\"impl\":{}}}",
                ["CsMat::new", "adjacency list (generic trait only)", "CsMatView::new_unchecked (rows in any order)"][mode as usize],
                threads, json_rows(&rows), json_usizes(&p), json_i64s(&vw), pfam, contract, json_o
            );
            let key = format!("g|{}|{:?}|{:?}|{:?}", mode, rows, p, vw);
            let distinct_parts = {
                let mut q = p.clone();
                q.sort();
                q.dedup();
                q.len()
            };
            // non-trivial: in contract, at least one edge and at least two parts in use
            let nontrivial = contract == "in" && rows.iter().any(|x| !x.is_empty()) && distinct_parts >= 2;
            let fam = if contract == "in" { fam } else { format!("graph_{}", contract) };
            w.push(coq, json, &key, nontrivial, &fam);
        } else if kind < 8 {
            // ---------------------------------------------- grid case
            let dims: Vec<usize> = if r.chance(1, 2) {
                let m = if big { 8 } else { 6 };
                vec![r.range(1, m) as usize, r.range(1, m) as usize]
            } else {
                let m = if big { 4 } else { 3 };
                vec![r.range(1, m) as usize, r.range(1, m) as usize, r.range(1, m + 1) as usize]
            };
            let n: usize = dims.iter().product();
            let lat = lattice_rows(&dims);
            let k = gen_k(&mut r);
            let (pfam, p) = if r.chance(1, 12) {
                ("one_part_per_cell".to_string(), (0..n).collect())
            } else if r.chance(1, 4) {
                // stripes / checkerboard along the axes
                let ax = r.below(dims.len() as u64) as usize;
                let checker = r.chance(1, 2);
                let p = (0..n)
                    .map(|i| {
                        let mut j = i;
                        let mut pos = Vec::new();
                        for s in &dims {
                            pos.push(j % s);
                            j /= s;
                        }
                        if checker {
                            pos.iter().sum::<usize>() % k
                        } else {
                            pos[ax] % k
                        }
                    })
                    .collect();
                ((if checker { "checker" } else { "stripes" }).to_string(), p)
            } else {
                gen_partition(&mut r, n, k)
            };
            let vw = gen_vweights(&mut r, n);
            let (d2, l2, p2, vw2) = (dims.clone(), lat.clone(), p.clone(), vw.clone());
            let res = guarded(threads, Duration::from_secs(30), move || run_grid(&d2, &l2, &p2, &vw2));
            let (coq_o, json_o) = match &res {
                Guarded::Done(o) => (
                    format!(
                        "(mkGR {} {} {} {} {} {} {} {})",
                        match &o.rows {
                            None => "OPanic".to_string(),
                            Some(rs) => format!(
                                "(OVal [{}])",
                                rs.iter()
                                    .map(|x| coq_natlist(x.iter().cloned()))
                                    .collect::<Vec<_>>()
                                    .join(";")
                            ),
                        },
                        o1(&o.cut),
                        o1(&o.lam),
                        o1(&o.csr_cut),
                        o1(&o.csr_lam),
                        o1(&o.gen_cut),
                        o1(&o.gen_lam),
                        o1f(&o.cut_f)
                    ),
                    format!(
                        "{{\"grid_cut\":{},\"grid_lambda\":{},\"csr_cut\":{},\"csr_lambda\":{},\"gen_cut\":{},\"gen_lambda\":{},\"grid_cut_f64\":{}}}",
                        json_opt(&Some(o.cut)),
                        json_opt(&Some(o.lam)),
                        json_opt(&Some(o.csr_cut)),
                        json_opt(&Some(o.csr_lam)),
                        json_opt(&Some(o.gen_cut)),
                        json_opt(&Some(o.gen_lam)),
                        json_opt(&Some(o.cut_f))
                    ),
                ),
                Guarded::Panic(m) => {
                    panics += 1;
                    (
                        "(mkGR OPanic OPanic OPanic OPanic OPanic OPanic OPanic OPanic)".to_string(),
                        format!("{{\"panic\":{}}}", json_str(m)),
                    )
                }
                Guarded::Hang => {
                    hangs += 1;
                    (
                        "(mkGR OHang OHang OHang OHang OHang OHang OHang OHang)".to_string(),
                        "{\"hang\":true}".to_string(),
                    )
                }
            };
            let coq = format!(
                "CGrid {} {} {} {} {}",
                coq_natlist(dims.iter().cloned()),
                coq_rows(&lat),
                coq_natlist(p.iter().cloned()),
                coq_zlist(vw.iter().map(|x| *x as i128)),
                coq_o
            );
            let json = format!(
                "{{\"kind\":\"grid\",\"threads\":{},\"dims\":{},\"partition\":{},\"vertex_weights\":{},\"partition_family\":\"{}\",\"impl\":{}}}",
                threads, json_usizes(&dims), json_usizes(&p), json_i64s(&vw), pfam, json_o
            );
            let key = format!("r|{:?}|{:?}|{:?}", dims, p, vw);
            let distinct_parts = {
                let mut q = p.clone();
                q.sort();
                q.dedup();
                q.len()
            };
            let nontrivial = n >= 2 && distinct_parts >= 2;
            w.push(coq, json, &key, nontrivial, &format!("grid{}d", dims.len()));
        } else {
            // ---------------------------------------------- load / imbalance case
            let k = gen_k(&mut r);
            let wfam = r.below(8);
            let n = match wfam {
                6 => r.below(k as u64 + 1) as usize, // more parts than elements (possibly none)
                _ => r.range(0, if big { 60 } else { 30 }) as usize,
            };
            let (name, mut ws): (&str, Vec<i64>) = match wfam {
                0 => ("load_uniform", vec![r.range(1, 9); n]),
                1 => ("load_random", (0..n).map(|_| r.range(0, 1000)).collect()),
                2 => ("load_zeros", (0..n).map(|_| if r.chance(2, 3) { 0 } else { r.range(0, 5) }).collect()),
                3 => {
                    let mut v: Vec<i64> = (0..n).map(|_| r.range(0, 10)).collect();
                    if n > 0 {
                        let i = r.below(n as u64) as usize;
                        v[i] = r.range(1000, 1 << 40);
                    }
                    ("load_one_dominant", v)
                }
                4 => ("load_negative", (0..n).map(|_| r.range(-50, 50)).collect()),
                5 => ("load_large", (0..n).map(|_| r.range(0, 1 << 45)).collect()),
                6 => ("load_more_parts_than_elements", (0..n).map(|_| r.range(0, 20)).collect()),
                _ => ("load_all_zero", vec![0; n]),
            };
            let (pfam, mut p) = gen_partition(&mut r, n, k);
            let targets: Vec<i64> = (0..k).map(|_| r.range(0, 500)).collect();
            let mut contract = "in";
            let mut kk = k;
            match r.below(30) {
                0 if n > 0 => {
                    let i = r.below(n as u64) as usize;
                    p[i] = k + r.below(3) as usize;
                    contract = "part_id_out_of_range";
                }
                1 if n > 0 => {
                    ws.truncate(n - 1);
                    contract = "short_weights";
                }
                2 => {
                    ws.push(3);
                    contract = "long_weights";
                }
                3 => {
                    // zero parts: only meaningful with no element; imbalance special-cases it
                    kk = 0;
                    contract = "zero_parts";
                }
                _ => {}
            }
            let targets = if kk == 0 { Vec::new() } else { targets };
            let (p2, ws2, t2) = (p.clone(), ws.clone(), targets.clone());
            let res = guarded(threads, Duration::from_secs(30), move || run_load(kk, &p2, &ws2, &t2));
            let (coq_o, json_o) = match &res {
                Guarded::Done(o) => (
                    format!(
                        "(mkLO {} {} {} {} {} {} {})",
                        ozs(&o.loads),
                        ofzs(&o.loads_f),
                        obits(&o.imb),
                        obits(&o.imb_f),
                        o1(&o.max),
                        o1f(&o.max_f),
                        o1(&o.target)
                    ),
                    format!(
                        "{{\"loads\":{},\"loads_f64\":{},\"imbalance\":{},\"imbalance_bits\":{},\"imbalance_f64w_bits\":{},\"max_imbalance\":{},\"max_imbalance_f64\":{},\"imbalance_target\":{}}}",
                        json_opt(&Some(o.loads.clone())),
                        json_opt(&Some(o.loads_f.clone())),
                        json_opt(&Some(o.imb)),
                        json_opt(&Some(o.imb.map(|x| x.to_bits()))),
                        json_opt(&Some(o.imb_f.map(|x| x.to_bits()))),
                        json_opt(&Some(o.max)),
                        json_opt(&Some(o.max_f)),
                        json_opt(&Some(o.target))
                    ),
                ),
                Guarded::Panic(m) => {
                    panics += 1;
                    (
                        "(mkLO OPanic OPanic OPanic OPanic OPanic OPanic OPanic)".to_string(),
                        format!("{{\"panic\":{}}}", json_str(m)),
                    )
                }
                Guarded::Hang => {
                    hangs += 1;
                    (
                        "(mkLO OHang OHang OHang OHang OHang OHang OHang)".to_string(),
                        "{\"hang\":true}".to_string(),
                    )
                }
            };
            // depth of the model's split tree ~ log2(threads) + 1
            let depth = (usize::BITS - threads.leading_zeros()) as usize;
            let coq = format!(
                "CLoad {} {} {} {} {} {}",
                depth,
                kk,
                coq_natlist(p.iter().cloned()),
                coq_zlist(ws.iter().map(|x| *x as i128)),
                coq_zlist(targets.iter().map(|x| *x as i128)),
                coq_o
            );
            let json = format!(
                "{{\"kind\":\"load\",\"threads\":{},\"num_parts\":{},\"partition\":{},\"weights\":{},\"targets\":{},\"partition_family\":\"{}\",\"contract\":\"{}\",\"impl\":{}}}",
                threads, kk, json_usizes(&p), json_i64s(&ws), json_i64s(&targets), pfam, contract, json_o
            );
            let key = format!("l|{}|{:?}|{:?}|{:?}", kk, p, ws, targets);
            let nontrivial = contract == "in" && n >= 2 && k >= 2;
            let fam = if contract == "in" { name.to_string() } else { format!("load_{}", contract) };
            w.push(coq, json, &key, nontrivial, &fam);
        }
        if hangs > 3 {
            break;
        }
    }
    w.finish(&format!("\"hangs\":{},\"panics\":{}", hangs, panics));
}

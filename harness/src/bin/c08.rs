//! C08: Hilbert encoders, pdep and segment_to_segment vs Model/Hilbert.v —
//! case generator and runner, plus the exhaustive sweeps of the thorough tier.
use coupe::verif_hilbert as vh;
use std::time::Duration;
use verif_harness::*;

const MAX2: u32 = 32;
const MAX3: u32 = 21;

fn nlist(xs: &[u64]) -> String {
    coq_nlist(xs.iter().map(|x| *x as u128))
}
fn jlist(xs: &[u64]) -> String {
    let v: Vec<String> = xs.iter().map(|x| x.to_string()).collect();
    format!("[{}]", v.join(","))
}

/// in-grid face neighbours of a coordinate, minus then plus (same order as Run/RunC08.v)
fn nbrs1(side: u64, c: u64) -> Vec<u64> {
    let mut v = Vec::new();
    if c > 0 {
        v.push(c - 1);
    }
    if c + 1 < side {
        v.push(c + 1);
    }
    v
}

fn coord(r: &mut Rng, order: u32) -> u64 {
    if order == 0 {
        return 0;
    }
    let side = 1u64 << order;
    match r.below(8) {
        0 => 0,
        1 => side - 1,
        2 => side / 2,
        3 => side / 2 - 1,
        4 => {
            // all-ones / alternating low bits
            (0x5555_5555_5555_5555u64 >> r.below(2)) & (side - 1)
        }
        _ => r.next() & (side - 1),
    }
}

struct Out {
    coq: String,
    json: String,
    key: String,
    nontrivial: bool,
    fam: String,
}

/// encode_2d on a cell, its parent and its neighbours (None = the implementation panicked)
fn case2(order: u32, x: u64, y: u64, fam: &str) -> Out {
    let o = order as usize;
    let r = guarded(0, Duration::from_secs(20), move || {
        let h = vh::encode_2d(x, y, o);
        let hp = if o > 0 { vh::encode_2d(x / 2, y / 2, o - 1) } else { 0 };
        let side = 1u64 << o;
        let mut nb = Vec::new();
        for x2 in nbrs1(side, x) {
            nb.push(vh::encode_2d(x2, y, o));
        }
        for y2 in nbrs1(side, y) {
            nb.push(vh::encode_2d(x, y2, o));
        }
        (h, hp, nb)
    });
    let key = format!("2|{}|{}|{}", order, x, y);
    match r {
        Guarded::Done((h, hp, nb)) => Out {
            coq: format!("K2 {} {} {} {} {} {}", order, x, y, h, hp, nlist(&nb)),
            json: format!(
                "{{\"kind\":\"encode_2d\",\"order\":{},\"x\":{},\"y\":{},\"index\":{},\"parent_index\":{},\"neighbour_indices\":{}}}",
                order, x, y, h, hp, jlist(&nb)
            ),
            key,
            nontrivial: order >= 2,
            fam: fam.into(),
        },
        _ => Out {
            coq: "KImplPanic 2".into(),
            json: format!("{{\"kind\":\"encode_2d\",\"order\":{},\"x\":{},\"y\":{},\"impl\":\"panic-or-hang\"}}", order, x, y),
            key,
            nontrivial: true,
            fam: fam.into(),
        },
    }
}

fn case3(order: u32, x: u64, y: u64, z: u64, fam: &str) -> Out {
    let o = order as usize;
    let r = guarded(0, Duration::from_secs(20), move || {
        let h = vh::encode_3d(x, y, z, o);
        let hp = if o > 0 { vh::encode_3d(x / 2, y / 2, z / 2, o - 1) } else { 0 };
        let side = 1u64 << o;
        let mut nb = Vec::new();
        for x2 in nbrs1(side, x) {
            nb.push(vh::encode_3d(x2, y, z, o));
        }
        for y2 in nbrs1(side, y) {
            nb.push(vh::encode_3d(x, y2, z, o));
        }
        for z2 in nbrs1(side, z) {
            nb.push(vh::encode_3d(x, y, z2, o));
        }
        (h, hp, nb)
    });
    let key = format!("3|{}|{}|{}|{}", order, x, y, z);
    match r {
        Guarded::Done((h, hp, nb)) => Out {
            coq: format!("K3 {} {} {} {} {} {} {}", order, x, y, z, h, hp, nlist(&nb)),
            json: format!(
                "{{\"kind\":\"encode_3d\",\"order\":{},\"x\":{},\"y\":{},\"z\":{},\"index\":{},\"parent_index\":{},\"neighbour_indices\":{}}}",
                order, x, y, z, h, hp, jlist(&nb)
            ),
            key,
            nontrivial: order >= 2,
            fam: fam.into(),
        },
        _ => Out {
            coq: "KImplPanic 3".into(),
            json: format!("{{\"kind\":\"encode_3d\",\"order\":{},\"x\":{},\"y\":{},\"z\":{},\"impl\":\"panic-or-hang\"}}", order, x, y, z),
            key,
            nontrivial: true,
            fam: fam.into(),
        },
    }
}

fn all2(order: u32) -> Vec<u64> {
    let side = 1u64 << order;
    let mut v = Vec::with_capacity((side * side) as usize);
    for x in 0..side {
        for y in 0..side {
            v.push(vh::encode_2d(x, y, order as usize));
        }
    }
    v
}
fn all3(order: u32) -> Vec<u64> {
    let side = 1u64 << order;
    let mut v = Vec::with_capacity((side * side * side) as usize);
    for x in 0..side {
        for y in 0..side {
            for z in 0..side {
                v.push(vh::encode_3d(x, y, z, order as usize));
            }
        }
    }
    v
}

fn case_all(dim: u32, order: u32) -> Out {
    let r = guarded(0, Duration::from_secs(60), move || {
        if dim == 2 {
            (all2(order), if order > 0 { all2(order - 1) } else { vec![] })
        } else {
            (all3(order), if order > 0 { all3(order - 1) } else { vec![] })
        }
    });
    let key = format!("all|{}|{}", dim, order);
    let fam = format!("exhaustive_{}d_small", dim);
    match r {
        Guarded::Done((hs, hps)) => Out {
            coq: format!("KAll{} {} {} {}", dim, order, nlist(&hs), nlist(&hps)),
            json: format!(
                "{{\"kind\":\"all_cells_{}d\",\"order\":{},\"cells\":{},\"indices_digest\":{}}}",
                dim,
                order,
                hs.len(),
                hs.iter().fold(0u64, |a, h| a.wrapping_mul(0x100000001b3).wrapping_add(*h))
            ),
            key,
            nontrivial: order >= 1,
            fam,
        },
        _ => Out {
            coq: "KImplPanic 4".into(),
            json: format!("{{\"kind\":\"all_cells_{}d\",\"order\":{},\"impl\":\"panic-or-hang\"}}", dim, order),
            key,
            nontrivial: true,
            fam,
        },
    }
}


// ------------------------------------------------------------- structured cells

/// x = odd bits, y = even bits of a 2-D Morton code
fn deinterleave2(z: u64) -> (u64, u64) {
    let (mut x, mut y) = (0u64, 0u64);
    for k in 0..32 {
        y |= ((z >> (2 * k)) & 1) << k;
        x |= ((z >> (2 * k + 1)) & 1) << k;
    }
    (x, y)
}
/// x = bits 3k+2, y = bits 3k+1, z = bits 3k of a 3-D Morton code
fn deinterleave3(c: u64) -> (u64, u64, u64) {
    let (mut x, mut y, mut z) = (0u64, 0u64, 0u64);
    for k in 0..21 {
        z |= ((c >> (3 * k)) & 1) << k;
        y |= ((c >> (3 * k + 1)) & 1) << k;
        x |= ((c >> (3 * k + 2)) & 1) << k;
    }
    (x, y, z)
}

/// chunk values that matter for a table indexed by (configuration, chunk)
fn chunk_patterns() -> Vec<u64> {
    let mut v = vec![0xfff, 0x000, 0xaaa, 0x555, 0xffe, 0x7ff, 0xf0f, 0x0f0];
    for b in 0..12 {
        v.push(1 << b);
    }
    v
}

/// (order, chunk position from the top, configuration reached before the chunk, chunk value, suffix kind):
/// every order x every 12-bit chunk position of encode_2d x every configuration; `per` chunk values each
/// (0xfff and 0x000 always, the others in rotation), i.e. the LUT is addressed systematically.
fn structured2(per: usize, suffixes: u32) -> Vec<(u32, u32, u64, u64, u32)> {
    let pats = chunk_patterns();
    let mut out = Vec::new();
    let mut rot = 0usize;
    for order in 1..=MAX2 {
        let nch = (order + 5) / 6;
        for j in 0..nch {
            for c in 0..4u64 {
                if j == 0 && c != 0 {
                    continue; // the first chunk is always looked up in configuration 0
                }
                for k in 0..per.min(pats.len()) {
                    let p = if k < 2 || per >= pats.len() {
                        pats[k]
                    } else {
                        rot += 1;
                        pats[2 + rot % (pats.len() - 2)]
                    };
                    for sfx in 0..suffixes {
                        out.push((order, j, c, p, (rot as u32 + sfx) % 3));
                    }
                }
            }
        }
    }
    out
}

fn case_structured2(r: &mut Rng, order: u32, j: u32, c: u64, pat: u64, sfx: u32) -> Out {
    let done = 6 * j; // levels consumed by the chunks before this one
    // a prefix of `done` levels after which the state machine is in configuration c
    let mut prefix = 0u64;
    if done > 0 {
        let mask = u64::MAX >> (64 - 2 * done);
        for _ in 0..200 {
            let cand = match r.below(4) {
                0 => 0,
                1 => mask,
                _ => r.next() & mask,
            };
            prefix = cand;
            if vh::encode_2d_slow(cand, done as usize, 0).1 as u64 == c {
                break;
            }
        }
    }
    let rem = order - done; // levels from this chunk down
    let r_chunk = rem.min(6); // levels of this chunk (the last one may be partial)
    let below = rem - r_chunk;
    let chunk = pat >> (12 - 2 * r_chunk);
    let suffix = if below == 0 {
        0
    } else {
        let m = u64::MAX >> (64 - 2 * below);
        match sfx {
            0 => 0,
            1 => m,
            _ => r.next() & m,
        }
    };
    let z = if rem == 32 { 0 } else { prefix << (2 * rem) } | (chunk << (2 * below)) | suffix;
    let (x, y) = deinterleave2(z);
    case2(order, x, y, "encode_2d_lut_entry")
}

/// steering copy of the 3-D state table (entry = next_state * 8 + digit), used ONLY to choose inputs that
/// reach a given state; the verdict never depends on it
const LUT3_STEER: [u8; 96] = [
    48, 33, 27, 34, 47, 78, 28, 77, 66, 29, 51, 52, 65, 30, 72, 63, 76, 95, 75, 24, 53, 54, 82, 81, 18, 3, 17, 80, 61, 4,
    62, 15, 0, 59, 71, 60, 49, 50, 86, 85, 84, 83, 5, 90, 79, 56, 6, 89, 32, 23, 1, 94, 11, 12, 2, 93, 42, 41, 13, 14, 35,
    88, 36, 31, 92, 37, 87, 38, 91, 74, 8, 73, 46, 45, 9, 10, 7, 20, 64, 19, 70, 25, 39, 16, 69, 26, 44, 43, 22, 55, 21, 68,
    57, 40, 58, 67,
];
fn state3_after(code: u64, levels: u32) -> u64 {
    let mut s = 0u64;
    for i in (0..levels).rev() {
        s = (LUT3_STEER[(s * 8 + ((code >> (3 * i)) & 7)) as usize] >> 3) as u64;
    }
    s
}

/// (order, state, octant): every entry of the 96-entry table, at `orders_per` orders each (rotating so that
/// every order 1..=21 is used); the level at which the entry is addressed is chosen per case
fn structured3(orders_per: u32) -> Vec<(u32, u64, u64)> {
    let mut out = Vec::new();
    for s in 0..12u64 {
        for q in 0..8u64 {
            for k in 0..orders_per {
                let order = if orders_per >= MAX3 { k + 1 } else { ((s * 8 + q) as u32 * 5 + k * (MAX3 / orders_per).max(1)) % MAX3 + 1 };
                out.push((order, s, q));
            }
        }
    }
    out
}

fn case_structured3(r: &mut Rng, order: u32, s: u64, q: u64) -> Out {
    // levels above the addressed one: p; look for a prefix of p levels that reaches state s
    let mut found: Option<(u32, u64)> = None;
    'outer: for attempt in 0..40 {
        let p = if s == 0 && attempt == 0 { 0 } else { r.below(order as u64) as u32 };
        if p == 0 {
            if s == 0 {
                found = Some((0, 0));
                break;
            }
            continue;
        }
        let mask = u64::MAX >> (64 - 3 * p);
        for _ in 0..60 {
            let cand = r.next() & mask;
            if state3_after(cand, p) == s {
                found = Some((p, cand));
                break 'outer;
            }
        }
    }
    let (p, prefix) = match found {
        Some(f) => f,
        None => (0, 0), // state not reachable at this order: an ordinary cell in state 0
    };
    let below = order - p - 1;
    let suffix = if below == 0 {
        0
    } else {
        let m = u64::MAX >> (64 - 3 * below);
        match r.below(3) {
            0 => 0,
            1 => m,
            _ => r.next() & m,
        }
    };
    let code = (if p == 0 { 0 } else { prefix << (3 * (below + 1)) }) | (q << (3 * below)) | suffix;
    let (x, y, z) = deinterleave3(code);
    case3(order, x, y, z, "encode_3d_lut_entry")
}

// ------------------------------------------------------------- the public entry point

fn order_cases() -> Vec<(u32, u32)> {
    let mut v = Vec::new();
    for o in [0u32, 1, 6, 12, 13, 31, 32, 33, 34, 40, 63, 64, 65, 100, 1 << 20, u32::MAX] {
        v.push((2, o));
    }
    for o in [0u32, 1, 6, 12, 20, 21, 22, 23, 24, 32, 33, 63, 64, 65, 1 << 20, u32::MAX] {
        v.push((3, o));
    }
    v
}

/// HilbertCurve { part_count: 2, order }.partition on 8 random points: accepted iff order <= 32 / 21
fn case_order(r: &mut Rng, dim: u32, order: u32) -> Out {
    use coupe::Partition as _;
    let n = 8usize;
    let coords: Vec<[f64; 3]> = (0..n)
        .map(|_| {
            let mut c = [0.0; 3];
            for v in c.iter_mut() {
                *v = (r.next() >> 11) as f64 / (1u64 << 53) as f64 * 16.0 - 8.0;
            }
            c
        })
        .collect();
    let cc = coords.clone();
    let res = guarded(2, Duration::from_secs(30), move || {
        let w = vec![1.0f64; n];
        let mut part = vec![usize::MAX; n];
        let mut alg = coupe::HilbertCurve { part_count: 2, order };
        let e = if dim == 2 {
            let pts: Vec<coupe::Point2D> = cc.iter().map(|c| coupe::Point2D::new(c[0], c[1])).collect();
            alg.partition(&mut part, (&pts[..], w))
        } else {
            let pts: Vec<coupe::Point3D> = cc.iter().map(|c| coupe::Point3D::new(c[0], c[1], c[2])).collect();
            alg.partition(&mut part, (&pts[..], w))
        };
        e.map(|_| part)
    });
    let (coq_r, json_r) = match &res {
        Guarded::Done(Ok(p)) => (
            format!("(IOk {})", coq_nlist(p.iter().map(|x| *x as u128))),
            format!("{{\"ok\":{}}}", json_usizes(p)),
        ),
        Guarded::Done(Err(coupe::HilbertCurveError::InvalidOrder { max, actual })) => (
            format!("(IErr 4 {} {})", max, actual),
            format!("{{\"err\":\"InvalidOrder\",\"max\":{},\"actual\":{}}}", max, actual),
        ),
        Guarded::Done(Err(e)) => ("(IErr 99 0 0)".to_string(), format!("{{\"err\":{}}}", json_str(&format!("{:?}", e)))),
        Guarded::Panic(m) => ("IPanic".to_string(), format!("{{\"panic\":{}}}", json_str(m))),
        Guarded::Hang => ("IHang".to_string(), "{\"hang\":true}".to_string()),
    };
    let pts: Vec<String> = coords
        .iter()
        .map(|c| if dim == 2 { format!("[{:e},{:e}]", c[0], c[1]) } else { format!("[{:e},{:e},{:e}]", c[0], c[1], c[2]) })
        .collect();
    Out {
        coq: format!("KOrder {} {} {}", dim, order, coq_r),
        json: format!(
            "{{\"kind\":\"HilbertCurve::partition\",\"dim\":{},\"order\":{},\"part_count\":2,\"points\":[{}],\"impl\":{}}}",
            dim,
            order,
            pts.join(","),
            json_r
        ),
        key: format!("o|{}|{}|{:?}", dim, order, coords),
        nontrivial: true,
        fam: format!("partition_{}d_order_{}", dim, if (dim == 2 && order <= MAX2) || (dim == 3 && order <= MAX3) { "accepted" } else { "refused" }),
    }
}

fn case_pdep(r: &mut Rng) -> Out {
    let interleave = [
        0x5555_5555_5555_5555u64,
        0x5555_5555_5555_5555u64 << 1,
        0x9249_2492_4924_9249u64,
        0x9249_2492_4924_9249u64 << 1,
        0x9249_2492_4924_9249u64 << 2,
    ];
    let (fam, mask) = match r.below(8) {
        0 => ("pdep_random", r.next()),
        1 => ("pdep_sparse", r.next() & r.next() & r.next()),
        2 => ("pdep_dense", r.next() | r.next() | r.next()),
        3 => ("pdep_interleave_mask", *r.pick(&interleave)),
        4 => (
            "pdep_edge_mask",
            *r.pick(&[0u64, u64::MAX, 1, 1 << 63, (1 << 63) | 1, u64::MAX << 32, u64::MAX >> 32, 0xff00_fff0, u64::MAX - 1]),
        ),
        5 => ("pdep_single_bit", 1u64 << r.below(64)),
        6 => {
            let len = r.below(64) + 1;
            let run = if len == 64 { u64::MAX } else { (1u64 << len) - 1 };
            ("pdep_run", run << r.below(64 - len + 1))
        }
        _ => ("pdep_two_bits", (1u64 << r.below(64)) | (1u64 << r.below(64))),
    };
    let src = match r.below(6) {
        0 => 0,
        1 => u64::MAX,
        2 => r.next() & 0xffff_ffff,
        3 => 1u64 << r.below(64),
        _ => r.next(),
    };
    let hw = vh::pdep_u64(src, mask);
    let fb = vh::pdep_u64_fallback(src, mask);
    Out {
        coq: format!("KPdep {} {} {} {}", src, mask, hw, fb),
        json: format!(
            "{{\"kind\":\"pdep\",\"src\":{},\"mask\":{},\"pdep_u64\":{},\"pdep_u64_fallback\":{},\"bmi2\":{}}}",
            src,
            mask,
            hw,
            fb,
            bmi2()
        ),
        key: format!("p|{}|{}", src, mask),
        nontrivial: mask != 0 && src != 0,
        fam: fam.into(),
    }
}

fn bmi2() -> bool {
    #[cfg(target_arch = "x86_64")]
    {
        return is_x86_feature_detected!("bmi2");
    }
    #[allow(unreachable_code)]
    false
}

fn case_slow(r: &mut Rng) -> Out {
    let order = r.below(MAX2 as u64 + 1);
    let config = r.below(4);
    let zorder = match r.below(4) {
        0 => r.next(),
        1 => u64::MAX,
        2 => 0,
        _ => {
            if order == 0 {
                0
            } else {
                r.next() & (u64::MAX >> (64 - 2 * order))
            }
        }
    };
    let res = guarded(0, Duration::from_secs(20), move || vh::encode_2d_slow(zorder, order as usize, config as usize));
    let key = format!("s|{}|{}|{}", zorder, order, config);
    match res {
        Guarded::Done((h, c)) => Out {
            coq: format!("KSlow {} {} {} {} {}", zorder, order, config, h, c),
            json: format!(
                "{{\"kind\":\"encode_2d_slow\",\"zorder\":{},\"order\":{},\"config\":{},\"index\":{},\"final_config\":{}}}",
                zorder, order, config, h, c
            ),
            key,
            nontrivial: order >= 2,
            fam: "slow".into(),
        },
        _ => Out {
            coq: "KImplPanic 1".into(),
            json: format!("{{\"kind\":\"encode_2d_slow\",\"zorder\":{},\"order\":{},\"config\":{},\"impl\":\"panic-or-hang\"}}", zorder, order, config),
            key,
            nontrivial: true,
            fam: "slow".into(),
        },
    }
}

// ------------------------------------------------------------- segment_to_segment

fn next_up(x: f64) -> f64 {
    coupe_nextafter(x, f64::INFINITY)
}
fn next_down(x: f64) -> f64 {
    coupe_nextafter(x, f64::NEG_INFINITY)
}
/// independent nextafter (bit stepping), used only to build inputs
fn coupe_nextafter(x: f64, to: f64) -> f64 {
    if x.is_nan() || to.is_nan() || x == to {
        return to;
    }
    if x == 0.0 {
        return if to > 0.0 { f64::from_bits(1) } else { -f64::from_bits(1) };
    }
    let b = x.to_bits();
    let up = (x < to) == (x > 0.0);
    f64::from_bits(if up { b + 1 } else { b - 1 })
}

fn rand_finite(r: &mut Rng) -> f64 {
    match r.below(6) {
        0 => {
            // any finite bit pattern
            loop {
                let f = f64::from_bits(r.next());
                if f.is_finite() {
                    return f;
                }
            }
        }
        1 => (r.range(-1000, 1000) as f64) / 8.0,
        2 => (r.next() as f64 / u64::MAX as f64) * 2.0 - 1.0,
        3 => {
            let e = r.range(-1070, 1020) as i32;
            let m = 1.0 + (r.next() >> 12) as f64 / (1u64 << 52) as f64;
            let v = m * 2f64.powi(e.clamp(-1020, 1020)) * if e < -1020 { 2f64.powi(e + 1020) } else { 1.0 };
            if r.chance(1, 2) {
                -v
            } else {
                v
            }
        }
        4 => *r.pick(&[0.0, -0.0, 1.0, -1.0, f64::MAX, f64::MIN, f64::MIN_POSITIVE, 5e-324, -5e-324, 1e300, -1e300]),
        _ => r.range(-1_000_000, 1_000_000) as f64,
    }
}

/// `n / width` overflows to +inf although width > 0 (the inputs on which the pinned code hung)
fn seg_overflows(mn: f64, mx: f64, order: u32) -> bool {
    let width = mx - mn;
    let n = (1u64 << order) as f64;
    mn.is_finite() && mx.is_finite() && mn < mx && width > 0.0 && (n / width).is_infinite()
}

fn case_seg(r: &mut Rng, force_overflow: bool) -> Out {
    let mut order = match r.below(10) {
        0 => 0,
        1 => MAX2,
        2 => MAX3,
        3 => 12,
        _ => r.below(MAX2 as u64 + 1) as u32,
    };
    let (fam, mut mn, mut mx): (&str, f64, f64) = match r.below(10) {
        0 => ("seg_unit", 0.0, 1.0),
        1 => {
            let a = rand_finite(r);
            ("seg_degenerate", a, a)
        }
        2 => {
            // a handful of ulps wide
            let a = rand_finite(r);
            let mut b = a;
            for _ in 0..r.below(5) + 1 {
                b = next_up(b);
            }
            if b.is_finite() {
                ("seg_few_ulps", a, b)
            } else {
                ("seg_few_ulps", next_down(a), a)
            }
        }
        3 => ("seg_huge", -f64::MAX * (r.below(4) as f64 / 4.0), f64::MAX * ((r.below(4) + 1) as f64 / 4.0)),
        4 => {
            let e = -(r.below(300) as i32) - 700;
            ("seg_tiny_width_normal", 0.0, 2f64.powi(e.max(-1021)))
        }
        5 => ("seg_cross_zero", -(r.below(1000) as f64) / 7.0, (r.below(1000) as f64) / 3.0),
        6 => ("seg_signed_zero", -0.0, *r.pick(&[0.0, 1.0, 5e-324, 1e-300])),
        7 => {
            let a = (r.range(-1000, 1000) as f64) / 4.0;
            ("seg_dyadic", a, a + (1u64 << r.below(20)) as f64)
        }
        _ => {
            let a = rand_finite(r);
            let b = rand_finite(r);
            ("seg_random", a.min(b), a.max(b))
        }
    };
    let mut fam = fam.to_string();
    if force_overflow {
        // subnormal / tiny width at a high order: n / width = +inf, or on the overflow boundary
        order = if r.chance(1, 3) { r.below(MAX2 as u64 + 1) as u32 } else { 22 + r.below(11) as u32 };
        mn = *r.pick(&[0.0, -0.0, 1.0e-310, 1.0]);
        let n = (1u64 << order) as f64;
        let mut w = match r.below(5) {
            0 => 5e-324,
            1 => 1e-310,
            2 => 2.0e-308 / 4096.0,
            _ => n / f64::MAX, // the boundary width, then a few ulps around it
        };
        for _ in 0..r.below(4) {
            w = if r.chance(1, 2) { next_up(w) } else { next_down(w).max(5e-324) };
        }
        mx = mn + w;
        fam = if seg_overflows(mn, mx, order) { "seg_factor_overflow".into() } else { "seg_factor_near_overflow".into() };
    }
    if !(mn <= mx) {
        std::mem::swap(&mut mn, &mut mx);
    }
    if seg_overflows(mn, mx, order) {
        fam = "seg_factor_overflow".into();
    }
    // sample values: ends, their neighbours, cell boundaries +- 1 ulp, random points
    let mut vs: Vec<f64> = vec![mn, mx, next_up(mn), next_down(mx), mn / 2.0 + mx / 2.0];
    let width = mx - mn;
    let n = (1u64 << order) as f64;
    for _ in 0..6 {
        let k = match r.below(4) {
            0 => 1,
            1 => (1u64 << order) - 1,
            2 => 1u64 << order.saturating_sub(1),
            _ => r.next() & ((1u64 << order) - 1),
        };
        let b = mn + (k as f64 / n) * width;
        vs.push(b);
        vs.push(next_up(b));
        vs.push(next_down(b));
        vs.push(next_up(next_up(b)));
    }
    for _ in 0..4 {
        let t = r.next() as f64 / u64::MAX as f64;
        vs.push(mn + t * width);
        vs.push(mn * (1.0 - t) + mx * t);
    }
    let mut vs: Vec<f64> = vs.into_iter().filter(|v| mn <= *v && *v <= mx).collect();
    vs.sort_by(|a, b| a.partial_cmp(b).unwrap());
    vs.dedup_by(|a, b| a.to_bits() == b.to_bits());
    let vs2 = vs.clone();
    let o = order as usize;
    let res = guarded(0, Duration::from_millis(5_000), move || {
        let f = vh::segment_to_segment(mn, mx, o);
        vs2.iter().map(|v| f(*v)).collect::<Vec<u64>>()
    });
    let bits: Vec<u64> = vs.iter().map(|v| v.to_bits()).collect();
    let (coq_o, json_o) = match &res {
        Guarded::Done(c) => (format!("(SOk {})", nlist(c)), format!("{{\"cells\":{}}}", jlist(c))),
        Guarded::Panic(m) => ("SPanic".to_string(), format!("{{\"panic\":{}}}", json_str(m))),
        Guarded::Hang => ("SHang".to_string(), "{\"hang\":true}".to_string()),
    };
    let kfj = String::new(); // (no open known-finding class for this property)
    Out {
        coq: format!("KSeg {} {} {} {} {}", mn.to_bits(), mx.to_bits(), order, nlist(&bits), coq_o),
        json: format!(
            "{{{}\"kind\":\"segment_to_segment\",\"min\":{:e},\"max\":{:e},\"min_bits\":{},\"max_bits\":{},\"order\":{},\"value_bits\":{},\"impl\":{}}}",
            kfj,
            mn,
            mx,
            mn.to_bits(),
            mx.to_bits(),
            order,
            jlist(&bits),
            json_o
        ),
        key: format!("g|{}|{}|{}|{:?}", mn.to_bits(), mx.to_bits(), order, bits),
        nontrivial: mn < mx,
        fam,
    }
}

// ------------------------------------------------------------- exhaustive sweeps (Rust side)

struct Sweep {
    cells: u64,
    failures: u64,
    first_fail: Option<(u32, u64, u64, u64)>,
}

/// All cells at orders 1..=max: index in range, bijective (every index hit exactly once),
/// cells of consecutive indices share a face, index >> D = parent's index.
fn sweep(dim: u32, max_order: u32) -> Sweep {
    let mut s = Sweep { cells: 0, failures: 0, first_fail: None };
    let mut prev: Vec<u64> = vec![if dim == 2 { vh::encode_2d(0, 0, 0) } else { vh::encode_3d(0, 0, 0, 0) }];
    if prev[0] != 0 {
        s.failures += 1;
        s.first_fail = Some((0, 0, 0, 0));
    }
    for order in 1..=max_order {
        let side = 1u64 << order;
        let total = 1u64 << (dim * order);
        let cur = if dim == 2 { all2(order) } else { all3(order) };
        let unpack = |i: u64| -> (u64, u64, u64) {
            if dim == 2 {
                (i / side, i % side, 0)
            } else {
                (i / (side * side), (i / side) % side, i % side)
            }
        };
        let mut inv: Vec<u64> = vec![u64::MAX; total as usize];
        let fail = |s: &mut Sweep, i: u64| {
            s.failures += 1;
            if s.first_fail.is_none() {
                let (x, y, z) = unpack(i);
                s.first_fail = Some((order, x, y, z));
            }
        };
        for (i, h) in cur.iter().enumerate() {
            let i = i as u64;
            s.cells += 1;
            if *h >= total || inv[*h as usize] != u64::MAX {
                fail(&mut s, i);
                continue;
            }
            inv[*h as usize] = i;
            let (x, y, z) = unpack(i);
            let hside = side / 2;
            let pi = if dim == 2 { (x / 2) * hside + y / 2 } else { ((x / 2) * hside + y / 2) * hside + z / 2 };
            if (*h >> dim) != prev[pi as usize] {
                fail(&mut s, i);
            }
        }
        for h in 0..total - 1 {
            let (a, b) = (inv[h as usize], inv[h as usize + 1]);
            if a == u64::MAX || b == u64::MAX {
                continue; // already counted as a bijectivity failure
            }
            let (ax, ay, az) = unpack(a);
            let (bx, by, bz) = unpack(b);
            let d = ax.abs_diff(bx) + ay.abs_diff(by) + az.abs_diff(bz);
            if d != 1 {
                fail(&mut s, a);
            }
        }
        prev = cur;
    }
    s
}

fn main() {
    let a = parse_args();
    quiet_panics();
    let thorough = a.tier == "thorough";
    let mut rng = Rng::new(a.seed);
    let mut w = CaseWriter::new(
        &a.out,
        "From Coupe Require Import Lib.Prelude Lib.Report Run.RunC08.",
        "case08",
        "run08",
        250,
    );
    let mut extra: Vec<String> = Vec::new();
    let mut hangs = 0usize;
    let mut panics = 0usize;
    let overflow_cases = if thorough { 200 } else { 40 };
    let orders = order_cases();
    let st2 = if thorough { structured2(usize::MAX, 2) } else { structured2(4, 1) };
    let st3 = if thorough { structured3(MAX3) } else { structured3(5) };
    let h0 = 65 + overflow_cases; // end of the first deterministic block
    let h1 = h0 + orders.len();
    let h2 = h1 + st2.len();
    let h3 = h2 + st3.len();

    // exhaustive sweeps on the Rust side (thorough tier): orders 1..=12 (2-D), 1..=7 (3-D)
    let mut sweep_fail: Vec<(u32, u32, u64, u64, u64)> = Vec::new();
    if a.only.is_none() {
        let (m2, m3) = if thorough { (12, 7) } else { (6, 4) };
        for (dim, mo) in [(2u32, m2), (3u32, m3)] {
            let r = guarded(0, Duration::from_secs(1200), move || sweep(dim, mo));
            match r {
                Guarded::Done(s) => {
                    extra.push(format!("\"rust_exhaustive_{}d_max_order\":{}", dim, mo));
                    extra.push(format!("\"rust_exhaustive_{}d_cells\":{}", dim, s.cells));
                    extra.push(format!("\"rust_exhaustive_{}d_failures\":{}", dim, s.failures));
                    if let Some((o, x, y, z)) = s.first_fail {
                        sweep_fail.push((dim, o, x, y, z));
                    }
                }
                _ => {
                    extra.push(format!("\"rust_exhaustive_{}d_failures\":1", dim));
                    panics += 1;
                    sweep_fail.push((dim, 1, 0, 0, 0));
                }
            }
        }
    }

    for idx in 0..a.cases {
        let mut r = rng.fork();
        if let Some(o) = a.only {
            if o != idx {
                continue;
            }
        }
        // deterministic head of the stream: failures of the sweeps, the small exhaustive cases,
        // one cell per order, the known-finding family; then the random families
        let out: Out = if idx < sweep_fail.len() {
            let (dim, o, x, y, z) = sweep_fail[idx];
            if dim == 2 {
                case2(o, x, y, "sweep_failure")
            } else {
                case3(o, x, y, z, "sweep_failure")
            }
        } else if idx < 5 {
            case_all(2, idx as u32)
        } else if idx < 10 {
            case_all(3, idx as u32 - 5)
        } else if idx < 10 + 33 {
            let o = idx as u32 - 10;
            let (x, y) = (coord(&mut r, o), coord(&mut r, o));
            case2(o, x, y, "encode_2d_each_order")
        } else if idx < 43 + 22 {
            let o = idx as u32 - 43;
            let (x, y, z) = (coord(&mut r, o), coord(&mut r, o), coord(&mut r, o));
            case3(o, x, y, z, "encode_3d_each_order")
        } else if idx < h0 {
            case_seg(&mut r, true)
        } else if idx < h1 {
            let (dim, o) = orders[idx - h0];
            case_order(&mut r, dim, o)
        } else if idx < h2 {
            let (o, j, c, p, sfx) = st2[idx - h1];
            case_structured2(&mut r, o, j, c, p, sfx)
        } else if idx < h3 {
            let (o, st, q) = st3[idx - h2];
            case_structured3(&mut r, o, st, q)
        } else {
            match r.below(21) {
                20 => {
                    let dim = 2 + r.below(2) as u32;
                    let mx = if dim == 2 { MAX2 } else { MAX3 };
                    let o = match r.below(4) {
                        0 => r.below(mx as u64 + 1) as u32,
                        1 => mx + 1 + r.below(12) as u32,
                        2 => mx,
                        _ => r.next() as u32,
                    };
                    case_order(&mut r, dim, o)
                }
                0..=5 => {
                    let o = if r.chance(1, 4) { 29 + r.below(4) as u32 } else { r.below(MAX2 as u64 + 1) as u32 };
                    let (x, y) = (coord(&mut r, o), coord(&mut r, o));
                    case2(o, x, y, if o >= 29 { "encode_2d_high_order" } else { "encode_2d_random" })
                }
                6 => {
                    // beyond MAX_ORDER: correspondence only (the u64 wraps of the model are exercised)
                    let o = 33 + r.below(5) as u32;
                    let (x, y) = (coord(&mut r, o), coord(&mut r, o));
                    case2(o, x, y, "encode_2d_beyond_max_order")
                }
                7..=11 => {
                    let o = if r.chance(1, 4) { 18 + r.below(4) as u32 } else { r.below(MAX3 as u64 + 1) as u32 };
                    let (x, y, z) = (coord(&mut r, o), coord(&mut r, o), coord(&mut r, o));
                    case3(o, x, y, z, if o >= 18 { "encode_3d_high_order" } else { "encode_3d_random" })
                }
                12 | 13 => case_slow(&mut r),
                14..=16 => case_pdep(&mut r),
                _ => case_seg(&mut r, false),
            }
        };
        if out.coq.starts_with("KImplPanic") {
            panics += 1;
        }
        if out.coq.contains("SHang") {
            hangs += 1;
        }
        w.push(out.coq, out.json, &out.key, out.nontrivial, &out.fam);
        if hangs > 8 {
            break;
        }
    }
    extra.push(format!("\"cpu_has_bmi2\":{}", bmi2() as u32));
    extra.push(format!("\"structured_2d_lut_cases\":{}", st2.len().min(a.cases.saturating_sub(h1))));
    extra.push(format!("\"structured_3d_lut_cases\":{}", st3.len().min(a.cases.saturating_sub(h2))));
    extra.push(format!("\"hangs\":{}", hangs));
    extra.push(format!("\"panics\":{}", panics));
    w.finish(&extra.join(","));
}

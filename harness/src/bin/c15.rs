//! C15: KernighanLin vs Model/Kl.v — case generator and runner.
use coupe::Partition as _;
use std::time::Duration;
use verif_harness::*;

#[path = "../graphs.rs"]
mod graphs;
use graphs::*;

struct Case {
    fam: String,
    pfam: String,
    adj: Adj,
    wlen: usize,
    p0: Vec<usize>,
    mp: Option<usize>,
    mf: Option<usize>,
    mb: usize,
}

fn distinct(p: &[usize]) -> usize {
    let mut v = p.to_vec();
    v.sort();
    v.dedup();
    v.len()
}

fn gen_limit(r: &mut Rng) -> Option<usize> {
    match r.below(6) {
        0 | 1 => None,
        k => Some(k as usize - 2),
    }
}

fn gen_case(r: &mut Rng, tier: &str) -> Case {
    let big = tier == "thorough";
    let (gname, mut adj) = gen_graph(r, big);
    let n = adj.len();
    let (ida, idb) = match r.below(8) {
        0 => (1, 0),
        1 => (3, 7),
        2 => (5, 2),
        _ => (0, 1),
    };
    let (pname, mut p0) = gen_partition(r, &adj, ida, idb);
    let mut stream = "";
    let mut wlen = n;
    let sel = r.below(100);
    if sel < 4 && n >= 3 {
        // known-finding stream: more than two distinct ids (unimplemented!(), property C02)
        stream = "kf_";
        let i = r.below(n as u64) as usize;
        p0[i] = 9;
        if distinct(&p0) < 3 {
            p0[(i + 1) % n] = 11;
            p0[(i + 2) % n] = 12;
        }
    } else if sel < 12 && n >= 2 {
        // malformed stream: outside the usage contract
        stream = "malformed_";
        match r.below(5) {
            0 => wlen = n - 1,
            1 => wlen = n + 2,
            2 => {
                // partition longer than the graph
                p0.push(if r.chance(1, 2) { ida } else { idb });
                wlen = p0.len();
            }
            3 => {
                // partition shorter than the graph
                p0.pop();
                wlen = p0.len();
            }
            _ => {
                // a directed edge (non-symmetric matrix) or a self-loop
                let u = r.below(n as u64) as usize;
                let v = r.below(n as u64) as usize;
                if !adj[u].iter().any(|(x, _)| *x == v) {
                    adj[u].push((v, r.range(1, 5)));
                    adj[u].sort();
                } else {
                    wlen = 0;
                }
            }
        }
    }
    Case {
        fam: format!("{}{}", stream, gname),
        pfam: format!("partition/{}", pname),
        adj,
        wlen,
        p0,
        mp: gen_limit(r),
        mf: gen_limit(r),
        mb: r.below(4) as usize,
    }
}

fn main() {
    let a = parse_args();
    quiet_panics();
    let mut rng = Rng::new(a.seed);
    let mut w = CaseWriter::new(
        &a.out,
        "From Coupe Require Import Lib.Prelude Lib.Report Lib.Graph Run.RunC15.",
        "case15",
        "run15",
        250,
    );
    let mut hangs = 0usize;
    let mut panics = 0usize;
    let mut changed = 0usize;
    for idx in 0..a.cases {
        let mut r = rng.fork();
        let c = gen_case(&mut r, &a.tier);
        if let Some(o) = a.only {
            if o != idx {
                continue;
            }
        }
        let n = c.adj.len();
        let (indptr, indices, data) = csr(&c.adj);
        let dataf: Vec<f64> = data.iter().map(|x| *x as f64).collect();
        let weights = vec![1.0f64; c.wlen];
        let p02 = c.p0.clone();
        let (mp, mf, mb) = (c.mp, c.mf, c.mb);
        let res = guarded(0, Duration::from_secs(20), move || {
            let m = coupe::sprs::CsMat::new((n, n), indptr, indices, dataf);
            let mut p = p02;
            coupe::KernighanLin {
                max_passes: mp,
                max_flips_per_pass: mf,
                max_imbalance_per_flip: None,
                max_bad_move_in_a_row: mb,
            }
            .partition(&mut p, (m.view(), &weights[..]))
            .map(|()| p)
            .map_err(|_| coupe::Error::NotFound)
        });
        match &res {
            Guarded::Hang => hangs += 1,
            Guarded::Panic(_) => panics += 1,
            Guarded::Done(Ok(p)) => {
                if *p != c.p0 {
                    changed += 1
                }
            }
            _ => {}
        }
        let coq = format!(
            "mk15 {} {}%nat {} {} {} {}%N {}",
            coq_graph(&c.adj),
            c.wlen,
            coq_nlist(c.p0.iter().map(|x| *x as u128)),
            coq_opt_n(c.mp),
            coq_opt_n(c.mf),
            c.mb,
            coq_impl_partition(&res)
        );
        let kf = if distinct(&c.p0) > 2 {
            "\"kf\":\"kl-not-two-parts\","
        } else {
            ""
        };
        let json = format!(
            "{{{}\"graph\":{},\"weights_len\":{},\"partition\":{},\"max_passes\":{},\"max_flips_per_pass\":{},\"max_bad_move_in_a_row\":{},\"impl\":{}}}",
            kf,
            json_graph(&c.adj),
            c.wlen,
            json_usizes(&c.p0),
            json_opt(c.mp),
            json_opt(c.mf),
            c.mb,
            json_impl_partition(&res)
        );
        let key = format!("{:?}|{}|{:?}|{:?}|{:?}|{}", c.adj, c.wlen, c.p0, c.mp, c.mf, c.mb);
        // non-trivial: in the contract stream, at least 4 vertices, two parts, at least one pass and one flip allowed
        let nontrivial = !c.fam.starts_with("kf_")
            && !c.fam.starts_with("malformed_")
            && n >= 4
            && distinct(&c.p0) == 2
            && c.mp != Some(0)
            && c.mf != Some(0);
        w.push(coq, json, &key, nontrivial, &c.fam);
        *w.dist.entry(c.pfam.clone()).or_insert(0) += 1;
        if hangs > 3 {
            break;
        }
    }
    w.finish(&format!("\"hangs\":{},\"panics\":{},\"partition_changed\":{}", hangs, panics, changed));
}

//! C15: KernighanLin vs Model/Kl.v — case generator and runner.
use coupe::Partition as _;
use std::time::Duration;
use verif_harness::*;

#[path = "../graphs.rs"]
mod graphs;
use graphs::*;

/// Which `Topology<f64>` KernighanLin is run on.
#[derive(Clone, Debug)]
enum Topo {
    /// sprs CsMatView (rows sorted; its own `edge_cut` override)
    Csr,
    /// harness-side adjacency lists, neighbours in shuffled order (the trait's `edge_cut`)
    Adj,
    /// `coupe::Grid` (neighbour order x-1, x+1, y-1, y+1, ...: not sorted; the trait's `edge_cut`)
    Grid2(usize, usize),
    Grid3(usize, usize, usize),
}

/// Adjacency lists as a topology: nothing is assumed on the order of the neighbours.
struct AdjTopo(Vec<Vec<(usize, f64)>>);
impl coupe::Topology<f64> for AdjTopo {
    type Neighbors<'n> = std::iter::Cloned<std::slice::Iter<'n, (usize, f64)>> where Self: 'n;
    fn len(&self) -> usize {
        self.0.len()
    }
    fn neighbors(&self, vertex: usize) -> Self::Neighbors<'_> {
        self.0[vertex].iter().cloned()
    }
}

/// The rows `coupe::Grid` yields, in its order (axis by axis: coordinate - 1, then + 1).
fn grid_adj(dims: &[usize]) -> Adj {
    let n: usize = dims.iter().product();
    let mut a = vec![Vec::new(); n];
    for i in 0..n {
        let mut pos = Vec::new();
        let mut k = i;
        for d in dims {
            pos.push(k % d);
            k /= d;
        }
        let mut stride = 1;
        for (ax, d) in dims.iter().enumerate() {
            if pos[ax] >= 1 {
                a[i].push((i - stride, 1));
            }
            if pos[ax] + 1 < *d {
                a[i].push((i + stride, 1));
            }
            stride *= d;
        }
    }
    a
}

fn run_kl<T: coupe::Topology<f64> + Sync>(
    t: T,
    mut p: Vec<usize>,
    weights: &[f64],
    mp: Option<usize>,
    mf: Option<usize>,
    mb: usize,
) -> Result<Vec<usize>, coupe::Error> {
    coupe::KernighanLin {
        max_passes: mp,
        max_flips_per_pass: mf,
        max_imbalance_per_flip: None,
        max_bad_move_in_a_row: mb,
    }
    .partition(&mut p, (t, weights))
    .map(|()| p)
    .map_err(|_| coupe::Error::NotFound)
}

struct Case {
    topo: Topo,
    /// also evaluate the Coq model (false: thousands of vertices with unlimited flips / passes --
    /// the case is judged by the certified checker only)
    model: bool,
    fam: String,
    pfam: String,
    adj: Adj,
    wlen: usize,
    p0: Vec<usize>,
    mp: Option<usize>,
    mf: Option<usize>,
    mb: usize,
}

fn distinct(p: &[usize]) -> usize {
    let mut v = p.to_vec();
    v.sort();
    v.dedup();
    v.len()
}

fn gen_limit(r: &mut Rng) -> Option<usize> {
    match r.below(6) {
        0 | 1 => None,
        k => Some(k as usize - 2),
    }
}

/// More than 1024 vertices (block sizes of chunked / parallel scans): 1025..2200.
/// * `big_gadget`: two heavy paths (weight 100, one per part, never worth a swap) over the first
///   H >= 1024 vertices, then small path gadgets  a -w- c -w- d -w- b  (parts 1,1,0,0 in index
///   order a,b,c,d = 1,0,1,0) whose vertices all have an index >= 1024: a nearly locally optimal
///   input where a pass makes a bad swap followed by good ones inside the gadget;
/// * `big_planted`: planted bisection (edges mostly inside the parts, 1 in 20 across), the
///   planted partition as input with a few vertices misplaced, mostly at indices >= 1024.
/// Flips per pass Some(2..5) (model evaluated) or None (checker only: a pass is O(n^2) in Coq).
fn gen_big(r: &mut Rng) -> Case {
    let mb = r.range(1, 3) as usize;
    if r.chance(9, 20) {
        // the heavy prefix ends just past a power of two (block sizes 256 .. 2048 of a chunked scan)
        let base = *r.pick(&[512usize, 512, 512, 512, 512, 512, 128, 256, 1024]);
        let h = 2 * (base + r.below(50) as usize);
        let k = if r.chance(3, 4) { 1 } else { r.range(2, 3) as usize };
        let n = h + 4 * k;
        let mut adj: Adj = vec![Vec::new(); n];
        let mut p0 = vec![0usize; n];
        let mut edge = |adj: &mut Adj, u: usize, v: usize, w: i64| {
            adj[u].push((v, w));
            adj[v].push((u, w));
        };
        for u in 0..h - 1 {
            if u != h / 2 - 1 {
                edge(&mut adj, u, u + 1, 100);
            }
        }
        for part in &mut p0[h / 2..h] {
            *part = 1;
        }
        for j in 0..k {
            let b = h + 4 * j;
            let w = r.range(2, 5);
            edge(&mut adj, b, b + 2, w);
            edge(&mut adj, b + 1, b + 3, w);
            edge(&mut adj, b + 2, b + 3, w);
            p0[b] = 1;
            p0[b + 1] = 0;
            p0[b + 2] = 1;
            p0[b + 3] = 0;
        }
        for row in adj.iter_mut() {
            row.sort();
        }
        let mf = Some(if r.chance(3, 4) { *r.pick(&[2usize, 4]) } else { *r.pick(&[3usize, 5, 6]) });
        return Case {
            topo: Topo::Csr,
            model: true,
            fam: "big_gadget".to_string(),
            pfam: "partition/big_gadget".to_string(),
            wlen: n,
            adj,
            p0,
            mp: *r.pick(&[None, Some(1), Some(2), Some(3)]),
            mf,
            mb,
        };
    }
    // 1025..2200, the smaller sizes more often (cost of the evaluation in Coq)
    let n = r.range(1025, 2200).min(r.range(1025, 2200)) as usize;
    let planted: Vec<usize> = (0..n).map(|_| r.below(2) as usize).collect();
    let mut adj: Adj = vec![Vec::new(); n];
    let tries = r.range(4, 7);
    for u in 0..n {
        for _ in 0..tries {
            let v = r.below(n as u64) as usize;
            if planted[u] != planted[v] && !r.chance(1, 20) {
                continue;
            }
            if v == u || adj[u].iter().any(|(x, _)| *x == v) {
                continue;
            }
            let w = r.range(1, 5);
            adj[u].push((v, w));
            adj[v].push((u, w));
        }
    }
    for row in adj.iter_mut() {
        row.sort();
    }
    // a few misplaced vertices, mostly past index 1024 (pairs, so that the sizes stay close)
    let mut p0 = planted;
    let misplaced = if r.chance(1, 2) { 0 } else { r.range(1, 4) };
    for _ in 0..misplaced {
        let i = if r.chance(3, 4) { r.range(1024, n as i64 - 1) as usize } else { r.below(n as u64) as usize };
        p0[i] = 1 - p0[i];
    }
    let (model, mf, mp) = if r.chance(1, 3) {
        (true, Some(r.range(2, 5) as usize), Some(r.range(1, 3) as usize))
    } else {
        (false, None, *r.pick(&[None, None, Some(2), Some(4)]))
    };
    Case {
        topo: Topo::Csr,
        model,
        fam: if model { "big_planted".to_string() } else { "big_planted_checker_only".to_string() },
        pfam: "partition/big_planted".to_string(),
        wlen: n,
        adj,
        p0,
        mp,
        mf,
        mb,
    }
}

fn gen_case(r: &mut Rng, tier: &str) -> Case {
    let big = tier == "thorough";
    // VERIF_C15_BIG_ONLY=1: exploration aid, every case from the > 1024-vertex families
    if r.chance(1, 320) || std::env::var_os("VERIF_C15_BIG_ONLY").is_some() {
        return gen_big(r);
    }
    let (mut gname, mut adj) = gen_graph(r, big);
    let mut topo = Topo::Csr;
    match r.below(10) {
        0 | 1 => {
            // the same graph as adjacency lists with shuffled rows
            topo = Topo::Adj;
            for row in adj.iter_mut() {
                for i in (1..row.len()).rev() {
                    let j = r.below(i as u64 + 1) as usize;
                    row.swap(i, j);
                }
            }
        }
        2 | 3 => {
            if r.chance(2, 3) {
                let (w, h) = (r.range(1, if big { 5 } else { 4 }) as usize, r.range(1, 4) as usize);
                topo = Topo::Grid2(w, h);
                adj = grid_adj(&[w, h]);
                gname = "Grid2";
            } else {
                let (w, h, d) = (r.range(1, 3) as usize, r.range(1, 3) as usize, r.range(1, 3) as usize);
                topo = Topo::Grid3(w, h, d);
                adj = grid_adj(&[w, h, d]);
                gname = "Grid3";
            }
        }
        _ => {}
    }
    let is_grid = matches!(topo, Topo::Grid2(..) | Topo::Grid3(..));
    let n = adj.len();
    let (ida, idb) = match r.below(8) {
        0 => (1, 0),
        1 => (3, 7),
        2 => (5, 2),
        _ => (0, 1),
    };
    let (pname, mut p0) = gen_partition(r, &adj, ida, idb);
    let mut stream = "";
    let mut wlen = n;
    let sel = r.below(100);
    if sel < 4 && n >= 3 {
        // known-finding stream: more than two distinct ids (unimplemented!(), property C02)
        stream = "kf_";
        let i = r.below(n as u64) as usize;
        p0[i] = 9;
        if distinct(&p0) < 3 {
            p0[(i + 1) % n] = 11;
            p0[(i + 2) % n] = 12;
        }
    } else if sel < 12 && n >= 2 && !is_grid {
        // malformed stream: outside the usage contract
        stream = "malformed_";
        match r.below(5) {
            0 => wlen = n - 1,
            1 => wlen = n + 2,
            2 => {
                // partition longer than the graph
                p0.push(if r.chance(1, 2) { ida } else { idb });
                wlen = p0.len();
            }
            3 => {
                // partition shorter than the graph
                p0.pop();
                wlen = p0.len();
            }
            _ => {
                // a directed edge (non-symmetric matrix) or a self-loop
                let u = r.below(n as u64) as usize;
                let v = r.below(n as u64) as usize;
                if !adj[u].iter().any(|(x, _)| *x == v) {
                    adj[u].push((v, r.range(1, 5)));
                    adj[u].sort();
                } else {
                    wlen = 0;
                }
            }
        }
    }
    let tname = match topo {
        Topo::Csr => "",
        Topo::Adj => "adjlist:",
        _ => "",
    };
    Case {
        topo,
        model: true,
        fam: format!("{}{}{}", stream, tname, gname),
        pfam: format!("partition/{}", pname),
        adj,
        wlen,
        p0,
        mp: gen_limit(r),
        mf: gen_limit(r),
        mb: r.below(4) as usize,
    }
}

fn main() {
    let a = parse_args();
    quiet_panics();
    let mut rng = Rng::new(a.seed);
    let mut w = CaseWriter::new(
        &a.out,
        "From Coupe Require Import Lib.Prelude Lib.Report Lib.Graph Run.RunC15.",
        "case15",
        "run15",
        250,
    );
    let mut hangs = 0usize;
    let mut panics = 0usize;
    let mut changed = 0usize;
    for idx in 0..a.cases {
        let mut r = rng.fork();
        let c = gen_case(&mut r, &a.tier);
        if let Some(o) = a.only {
            if o != idx {
                continue;
            }
        }
        let n = c.adj.len();
        let weights = vec![1.0f64; c.wlen];
        let p02 = c.p0.clone();
        let (mp, mf, mb) = (c.mp, c.mf, c.mb);
        let adj2 = c.adj.clone();
        let topo2 = c.topo.clone();
        let res = guarded(0, Duration::from_secs(if n > 1000 { 240 } else { 20 }), move || match topo2 {
            Topo::Csr => {
                let (indptr, indices, data) = csr(&adj2);
                let dataf: Vec<f64> = data.iter().map(|x| *x as f64).collect();
                let m = coupe::sprs::CsMat::new((n, n), indptr, indices, dataf);
                run_kl(m.view(), p02, &weights, mp, mf, mb)
            }
            Topo::Adj => {
                let t = AdjTopo(adj2.iter().map(|r| r.iter().map(|(u, w)| (*u, *w as f64)).collect()).collect());
                run_kl(&t, p02, &weights, mp, mf, mb)
            }
            Topo::Grid2(w, h) => {
                let nz = |x: usize| std::num::NonZeroUsize::new(x).unwrap();
                run_kl(coupe::Grid::new_2d(nz(w), nz(h)), p02, &weights, mp, mf, mb)
            }
            Topo::Grid3(w, h, d) => {
                let nz = |x: usize| std::num::NonZeroUsize::new(x).unwrap();
                run_kl(coupe::Grid::new_3d(nz(w), nz(h), nz(d)), p02, &weights, mp, mf, mb)
            }
        });
        match &res {
            Guarded::Hang => hangs += 1,
            Guarded::Panic(_) => panics += 1,
            Guarded::Done(Ok(p)) => {
                if *p != c.p0 {
                    changed += 1
                }
            }
            _ => {}
        }
        let coq = format!(
            "mk15 {} {} {} {}%nat {} {} {} {}%N {}",
            coq_graph(&c.adj),
            coq_bool(matches!(c.topo, Topo::Csr)),
            coq_bool(c.model),
            c.wlen,
            coq_nlist(c.p0.iter().map(|x| *x as u128)),
            coq_opt_n(c.mp),
            coq_opt_n(c.mf),
            c.mb,
            coq_impl_partition(&res)
        );
        let kf = if distinct(&c.p0) > 2 {
            "\"kf\":\"kl-not-two-parts\","
        } else {
            ""
        };
        let json = format!(
            "{{{}\"model_evaluated\":{},\"topology\":{},\"graph\":{},\"weights_len\":{},\"partition\":{},\"max_passes\":{},\"max_flips_per_pass\":{},\"max_bad_move_in_a_row\":{},\"impl\":{}}}",
            kf,
            c.model,
            json_str(&format!("{:?}", c.topo)),
            json_graph(&c.adj),
            c.wlen,
            json_usizes(&c.p0),
            json_opt(c.mp),
            json_opt(c.mf),
            c.mb,
            json_impl_partition(&res)
        );
        let key = format!("{:?}|{:?}|{}|{:?}|{:?}|{:?}|{}", c.topo, c.adj, c.wlen, c.p0, c.mp, c.mf, c.mb);
        // non-trivial: in the contract stream, at least 4 vertices, two parts, at least one pass and one flip allowed
        let nontrivial = !c.fam.starts_with("kf_")
            && !c.fam.starts_with("malformed_")
            && n >= 4
            && distinct(&c.p0) == 2
            && c.mp != Some(0)
            && c.mf != Some(0);
        w.push(coq, json, &key, nontrivial, &c.fam);
        *w.dist.entry(c.pfam.clone()).or_insert(0) += 1;
        if hangs > 3 {
            break;
        }
    }
    w.finish(&format!("\"hangs\":{},\"panics\":{},\"partition_changed\":{}", hangs, panics, changed));
}

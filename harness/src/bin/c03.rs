//! C03: Rcb / Rib vs Model/Rcb.v — ids must equal the model's, and the
//! certified checker `check_bisect` judges the implementation's ids.
#[path = "../rcb_common.rs"]
mod rcb_common;

fn main() {
    rcb_common::drive(
        false,
        "From Coupe Require Import Lib.Prelude Lib.Report Run.RunC03.",
        "run03",
    );
}

//! C17: the C API (ffi/, built from the CURRENT tree as a cdylib and loaded with dlopen) against the
//! Rust API on the same data, and against Model/Ffi.v.
//!
//! Per case: (1) the Rust reference (`coupe::X.partition`) runs under catch_unwind + watchdog on the values
//! the data set denotes; (2) the C entry point is called on the same data through one of the three
//! representations (array / constant / callback) and one of the three Type tags; when the Rust reference
//! panicked, the C call is made in a child process (re-exec of this binary), because a panic that is not
//! contained would abort the process; (3) the case (data as the C caller laid it out, what the harness
//! handed to the Rust API, both results) is written as a Coq term for Run/RunC17.v.
use coupe::rayon::prelude::*;
use coupe::Partition as _;
use std::os::raw::{c_char, c_int, c_void};
use std::path::{Path, PathBuf};
use std::time::Duration;
use verif_harness::*;

type H = *mut c_void;
type Ith = extern "C" fn(*const c_void, usize) -> *const c_void;

#[allow(dead_code)]
struct Api {
    lib: libloading::Library,
    data_array: unsafe extern "C" fn(usize, c_int, *const c_void) -> H,
    data_constant: unsafe extern "C" fn(usize, c_int, *const c_void) -> H,
    data_fn: unsafe extern "C" fn(*const c_void, usize, c_int, Ith) -> H,
    data_free: unsafe extern "C" fn(H),
    adjncy_csr: unsafe extern "C" fn(usize, *const usize, *const usize, c_int, *const c_void) -> H,
    adjncy_csr_unchecked: unsafe extern "C" fn(usize, *const usize, *const usize, c_int, *const c_void) -> H,
    adjncy_free: unsafe extern "C" fn(H),
    rcb: unsafe extern "C" fn(*mut usize, usize, H, H, usize, f64) -> c_int,
    rib: unsafe extern "C" fn(*mut usize, usize, H, H, usize, f64) -> c_int,
    hilbert: unsafe extern "C" fn(*mut usize, H, H, usize, u32) -> c_int,
    greedy: unsafe extern "C" fn(*mut usize, H, usize) -> c_int,
    kk: unsafe extern "C" fn(*mut usize, H, usize) -> c_int,
    ckk: unsafe extern "C" fn(*mut usize, H, f64) -> c_int,
    fm: unsafe extern "C" fn(*mut usize, H, H, usize, usize, f64, usize) -> c_int,
    strerror: unsafe extern "C" fn(c_int) -> *const c_char,
}

unsafe fn sym<T: Copy>(lib: &libloading::Library, name: &str) -> T {
    let s: libloading::Symbol<T> = lib
        .get(name.as_bytes())
        .unwrap_or_else(|e| panic!("symbol {name} not exported by the library: {e}"));
    *s
}

fn load(path: &Path) -> &'static Api {
    unsafe {
        let lib = libloading::Library::new(path).expect("dlopen of libcoupe.so");
        let api = Api {
            data_array: sym(&lib, "coupe_data_array"),
            data_constant: sym(&lib, "coupe_data_constant"),
            data_fn: sym(&lib, "coupe_data_fn"),
            data_free: sym(&lib, "coupe_data_free"),
            adjncy_csr: sym(&lib, "coupe_adjncy_csr"),
            adjncy_csr_unchecked: sym(&lib, "coupe_adjncy_csr_unchecked"),
            adjncy_free: sym(&lib, "coupe_adjncy_free"),
            rcb: sym(&lib, "coupe_rcb"),
            rib: sym(&lib, "coupe_rib"),
            hilbert: sym(&lib, "coupe_hilbert"),
            greedy: sym(&lib, "coupe_greedy"),
            kk: sym(&lib, "coupe_karmarkar_karp"),
            ckk: sym(&lib, "coupe_karmarkar_karp_complete"),
            fm: sym(&lib, "coupe_fiduccia_mattheyses"),
            strerror: sym(&lib, "coupe_strerror"),
            lib,
        };
        Box::leak(Box::new(api))
    }
}

/// Build the cdylib from the tree under check into the run cache (never into the tree itself).
fn build_ffi(out: &str) -> PathBuf {
    let repo = std::env::var("VERIF_REPO").unwrap_or_else(|_| "/repo".into());
    let outp = std::fs::canonicalize(out).unwrap_or_else(|_| PathBuf::from(out));
    let alt: String = if repo == "/repo" {
        String::new()
    } else {
        format!("-{}", repo.chars().map(|c| if c.is_alphanumeric() { c } else { '_' }).collect::<String>())
    };
    let tdir = match std::env::var("VERIF_FFI_TARGET") {
        Ok(t) => PathBuf::from(t),
        Err(_) => {
            let gp = outp.parent().and_then(|p| p.parent());
            match gp {
                Some(c) if c.file_name().map(|n| n == ".cache").unwrap_or(false) => c.join(format!("ffi-target{alt}")),
                _ => outp.join(format!("ffi-target{alt}")),
            }
        }
    };
    // same profile as this binary (check.py also runs a release build of the harness in the thorough tier):
    // overflow checks and debug assertions are then on, or off, on both sides
    let release = !cfg!(debug_assertions);
    let mut cmd = std::process::Command::new("cargo");
    cmd.args(["build", "--offline", "--locked"]);
    if release {
        cmd.arg("--release");
    }
    let o = cmd
        .arg("--manifest-path")
        .arg(format!("{repo}/ffi/Cargo.toml"))
        .arg("--target-dir")
        .arg(&tdir)
        .env("CARGO_NET_OFFLINE", "true")
        .env("CARGO_PROFILE_DEV_DEBUG", "0")
        .output()
        .expect("cargo");
    if !o.status.success() {
        eprintln!("the ffi crate does not build from {repo}:\n{}", String::from_utf8_lossy(&o.stderr));
        std::process::exit(3);
    }
    tdir.join(if release { "release" } else { "debug" }).join("libcoupe.so")
}

// ---------------------------------------------------------------- data sets

#[derive(Clone, Debug, PartialEq)]
enum Cells {
    I32(Vec<i32>),
    I64(Vec<i64>),
    F64(Vec<f64>),
}
impl Cells {
    fn len(&self) -> usize {
        match self {
            Cells::I32(v) => v.len(),
            Cells::I64(v) => v.len(),
            Cells::F64(v) => v.len(),
        }
    }
    fn ptr(&self) -> *const u8 {
        match self {
            Cells::I32(v) => v.as_ptr() as *const u8,
            Cells::I64(v) => v.as_ptr() as *const u8,
            Cells::F64(v) => v.as_ptr() as *const u8,
        }
    }
    fn size(&self) -> usize {
        match self {
            Cells::I32(_) => 4,
            Cells::I64(_) | Cells::F64(_) => 8,
        }
    }
    fn ty(&self) -> u8 {
        match self {
            Cells::I32(_) => 0,
            Cells::I64(_) => 1,
            Cells::F64(_) => 2,
        }
    }
    fn coq(&self, from: usize, to: usize) -> String {
        let v: Vec<String> = match self {
            Cells::I32(v) => v[from..to].iter().map(|x| format!("VInt {}", coq_z(*x as i128))).collect(),
            Cells::I64(v) => v[from..to].iter().map(|x| format!("VInt64 {}", coq_z(*x as i128))).collect(),
            Cells::F64(v) => v[from..to].iter().map(|x| format!("VD {} {}", x.to_bits() >> 32, x.to_bits() & 0xffff_ffff)).collect(),
        };
        format!("[{}]", v.join(";"))
    }
    fn json(&self) -> String {
        match self {
            Cells::I32(v) => format!("{:?}", v),
            Cells::I64(v) => format!("{:?}", v),
            Cells::F64(v) => format!("[{}]", v.iter().map(|x| format!("\"{:e}\"", x)).collect::<Vec<_>>().join(",")),
        }
    }
    /// blocks of `w` cells in reverse order (storage behind a callback that counts from the end)
    fn rev_blocks(&self, w: usize) -> Cells {
        fn rb<T: Copy>(v: &[T], w: usize) -> Vec<T> {
            let mut o = Vec::with_capacity(v.len());
            for b in v.chunks(w.max(1)).rev() {
                o.extend_from_slice(b);
            }
            o
        }
        match self {
            Cells::I32(v) => Cells::I32(rb(v, w)),
            Cells::I64(v) => Cells::I64(rb(v, w)),
            Cells::F64(v) => Cells::F64(rb(v, w)),
        }
    }
    fn repeat(&self, n: usize) -> Cells {
        fn rp<T: Copy>(v: &[T], n: usize) -> Vec<T> {
            let mut o = Vec::with_capacity(v.len() * n);
            for _ in 0..n {
                o.extend_from_slice(v);
            }
            o
        }
        match self {
            Cells::I32(v) => Cells::I32(rp(v, n)),
            Cells::I64(v) => Cells::I64(rp(v, n)),
            Cells::F64(v) => Cells::F64(rp(v, n)),
        }
    }
}

const ARRAY: u8 = 0;
const CONSTANT: u8 = 1;
const FN: u8 = 2;
const REPR_NAMES: [&str; 3] = ["array", "constant", "fn"];
const TY_COQ: [&str; 3] = ["TInt", "TInt64", "TDouble"];
const TY_NAMES: [&str; 3] = ["int", "int64", "double"];

/// A data set as the C caller lays it out.  `elems`: for array / callback the len*w cells of the elements
/// in order; for a constant the w cells of the one value.
#[derive(Clone, Debug)]
struct DataSpec {
    repr: u8,
    tag: u8,
    len: usize,
    w: usize,
    elems: Cells,
    /// callback only: the storage holds the elements in reverse order and i_th counts from the end
    rev: bool,
}
impl DataSpec {
    /// the cells of all elements in order, as the algorithm must see them
    fn logical(&self) -> Cells {
        if self.repr == CONSTANT {
            self.elems.repeat(self.len)
        } else {
            self.elems.clone()
        }
    }
    fn coq(&self) -> String {
        let t = TY_COQ[self.tag as usize];
        match self.repr {
            ARRAY => format!("(DArray {} {} {})", self.len, t, self.elems.coq(0, self.elems.len())),
            CONSTANT => format!("(DConstant {} {} {})", self.len, t, self.elems.coq(0, self.elems.len())),
            _ => {
                let rows: Vec<String> = (0..self.len).map(|i| self.elems.coq(i * self.w, (i + 1) * self.w)).collect();
                format!("(DFn {} {} (tbl [{}]))", self.len, t, rows.join(";"))
            }
        }
    }
    fn json(&self) -> String {
        format!(
            "{{\"repr\":\"{}\",\"tag\":\"{}\",\"len\":{},\"cells_per_element\":{},\"cells\":{}}}",
            REPR_NAMES[self.repr as usize],
            TY_NAMES[self.tag as usize],
            self.len,
            self.w,
            self.elems.json()
        )
    }
}

#[repr(C)]
struct FnCtx {
    base: *const u8,
    stride: usize,
    len: usize,
    rev: bool,
}
extern "C" fn i_th(ctx: *const c_void, i: usize) -> *const c_void {
    // no panic may leave this function: plain pointer arithmetic
    let c = unsafe { &*(ctx as *const FnCtx) };
    let k = if c.rev { c.len.wrapping_sub(1).wrapping_sub(i) } else { i };
    unsafe { c.base.add(k.wrapping_mul(c.stride)) as *const c_void }
}

/// A live coupe_data handle together with the memory it points to.
struct Live {
    h: H,
    _store: Cells,
    _ctx: Option<Box<FnCtx>>,
}
impl Live {
    fn new(api: &Api, d: &DataSpec) -> Live {
        let store = if d.repr == FN && d.rev { d.elems.rev_blocks(d.w) } else { d.elems.clone() };
        unsafe {
            match d.repr {
                ARRAY => Live { h: (api.data_array)(d.len, d.tag as c_int, store.ptr() as *const c_void), _store: store, _ctx: None },
                CONSTANT => Live { h: (api.data_constant)(d.len, d.tag as c_int, store.ptr() as *const c_void), _store: store, _ctx: None },
                _ => {
                    let ctx = Box::new(FnCtx { base: store.ptr(), stride: d.w * store.size(), len: d.len, rev: d.rev });
                    let h = (api.data_fn)(&*ctx as *const FnCtx as *const c_void, d.len, d.tag as c_int, i_th);
                    Live { h, _store: store, _ctx: Some(ctx) }
                }
            }
        }
    }
    fn free(self, api: &Api) {
        unsafe { (api.data_free)(self.h) }
    }
}

#[derive(Clone, Debug)]
struct Adj {
    size: usize,
    xadj: Vec<usize>,
    adjncy: Vec<usize>,
    vals: Cells,
}
impl Adj {
    fn coq(&self) -> String {
        format!(
            "(mk_adj {} {} {} {} {})",
            self.size,
            coq_nlist(self.xadj.iter().map(|x| *x as u128)),
            coq_nlist(self.adjncy.iter().map(|x| *x as u128)),
            TY_COQ[self.vals.ty() as usize],
            self.vals.coq(0, self.vals.len())
        )
    }
    fn json(&self) -> String {
        format!(
            "{{\"size\":{},\"xadj\":{},\"adjncy\":{},\"type\":\"{}\",\"values\":{}}}",
            self.size,
            json_usizes(&self.xadj),
            json_usizes(&self.adjncy),
            TY_NAMES[self.vals.ty() as usize],
            self.vals.json()
        )
    }
}

// ---------------------------------------------------------------- cases

const RCB: u8 = 0;
const RIB: u8 = 1;
const HILBERT: u8 = 2;
const GREEDY: u8 = 3;
const KK: u8 = 4;
const CKK: u8 = 5;
const FM: u8 = 6;
const ADJNCY: u8 = 7;
const ENTRY_NAMES: [&str; 8] = ["rcb", "rib", "hilbert", "greedy", "karmarkar_karp", "karmarkar_karp_complete", "fiduccia_mattheyses", "adjncy_csr"];

#[derive(Clone, Debug)]
struct Case {
    entry: u8,
    dim: usize,
    points: Option<DataSpec>,
    weights: DataSpec,
    adj: Option<Adj>,
    /// rcb/rib: a = iter_count, f = tolerance; hilbert: a = part_count, b = order; greedy/kk: a = part_count;
    /// ckk: f = tolerance; fm: a = max_passes, b = max_moves_per_pass, c = max_bad_moves_in_a_row, f = max_imbalance
    a: usize,
    b: usize,
    c: usize,
    f: f64,
    p0: Vec<usize>,
    family: String,
    /// known-finding class computed from the input alone ("" = none)
    kf: &'static str,
    /// run on the four-worker instance of the library (exact inputs only)
    mt: bool,
    /// large data set: compared in the harness, only a summary goes to Coq
    big: bool,
}

#[derive(Clone, Debug)]
enum RefRes {
    NotCalled,
    Ok(Vec<usize>),
    Err(String, String, Vec<usize>),
    Panic(String),
    Hang,
}
#[derive(Clone, Debug)]
enum CRes {
    Ret(i64, Vec<usize>),
    Abort(String),
    Hang,
}

fn coq_error(e: &coupe::Error) -> String {
    match e {
        coupe::Error::NotFound => "NotFound".into(),
        coupe::Error::InputLenMismatch { expected, actual } => format!("(InputLenMismatch {} {})", expected, actual),
        coupe::Error::NegativeValues => "NegativeValues".into(),
        coupe::Error::BiPartitioningOnly => "BiPartitioningOnly".into(),
        _ => "UNKNOWN_VARIANT_OF_coupe_Error".into(), // does not type-check in Coq: a new variant must be looked at
    }
}

fn pts<const D: usize>(c: &Cells) -> Vec<coupe::PointND<D>> {
    match c {
        Cells::F64(v) => v.chunks(D).map(coupe::PointND::<D>::from_column_slice).collect(),
        _ => unreachable!(),
    }
}

macro_rules! by_type {
    ($cells:expr, $v:ident, $body:expr) => {
        match $cells {
            Cells::I32($v) => $body,
            Cells::I64($v) => $body,
            Cells::F64($v) => $body,
        }
    };
}

fn conv<E: std::fmt::Debug>(r: Result<(), E>, f: impl Fn(&E) -> String) -> Result<(), (String, String)> {
    r.map_err(|e| (f(&e), format!("{:?}", e)))
}

/// Runs the Rust reference on `arr[..n]`; `n` is the element count the C glue uses for the output slice.
fn run_ref(c: &Case, arr: &mut [usize]) -> Option<Result<(), (String, String)>> {
    let w = c.weights.logical();
    let ce = |e: &coupe::Error| coq_error(e);
    match c.entry {
        GREEDY => {
            let n = c.weights.len;
            Some(by_type!(&w, v, conv(coupe::Greedy { part_count: c.a }.partition(&mut arr[..n], v.iter().cloned()), ce)))
        }
        KK => {
            let n = c.weights.len;
            let mut alg = coupe::KarmarkarKarp { part_count: c.a };
            Some(match &w {
                Cells::I32(v) => conv(alg.partition(&mut arr[..n], v.iter().cloned()), ce),
                Cells::I64(v) => conv(alg.partition(&mut arr[..n], v.iter().cloned()), ce),
                Cells::F64(v) => conv(alg.partition(&mut arr[..n], v.iter().map(|x| coupe::Real::from(*x))), ce),
            })
        }
        CKK => {
            let n = c.weights.len;
            Some(by_type!(&w, v, conv(coupe::CompleteKarmarkarKarp { tolerance: c.f }.partition(&mut arr[..n], v.iter().cloned()), ce)))
        }
        RCB | RIB => {
            let p = c.points.as_ref().unwrap();
            let n = p.len;
            let pl = p.logical();
            let (it, tol) = (c.a, c.f);
            match (c.entry, c.dim) {
                (RCB, 2) => {
                    let ps = pts::<2>(&pl);
                    Some(by_type!(&w, v, conv(coupe::Rcb { iter_count: it, tolerance: tol }.partition(&mut arr[..n], (ps.par_iter().cloned(), v.par_iter().cloned())), ce)))
                }
                (RCB, 3) => {
                    let ps = pts::<3>(&pl);
                    Some(by_type!(&w, v, conv(coupe::Rcb { iter_count: it, tolerance: tol }.partition(&mut arr[..n], (ps.par_iter().cloned(), v.par_iter().cloned())), ce)))
                }
                (RIB, 2) => {
                    let ps = pts::<2>(&pl);
                    Some(by_type!(&w, v, conv(coupe::Rib { iter_count: it, tolerance: tol }.partition(&mut arr[..n], (&ps[..], v.par_iter().cloned())), ce)))
                }
                (RIB, 3) => {
                    let ps = pts::<3>(&pl);
                    Some(by_type!(&w, v, conv(coupe::Rib { iter_count: it, tolerance: tol }.partition(&mut arr[..n], (&ps[..], v.par_iter().cloned())), ce)))
                }
                _ => None,
            }
        }
        HILBERT => {
            let p = c.points.as_ref().unwrap();
            let n = p.len;
            let ps = pts::<2>(&p.logical());
            match &w {
                Cells::F64(v) => Some(conv(
                    coupe::HilbertCurve { part_count: c.a, order: c.b as u32 }.partition(&mut arr[..n], (&ps[..], &v[..])),
                    |e| match e {
                        coupe::HilbertCurveError::InvalidOrder { max, actual } => format!("(InvalidOrder {} {})", max, actual),
                        #[allow(unreachable_patterns)]
                        _ => "UNKNOWN_VARIANT_OF_HilbertCurveError".into(),
                    },
                )),
                _ => None,
            }
        }
        ADJNCY => {
            // the structure check of the CSR constructor: arr[0] := 1 if sprs accepts the matrix
            let a = c.adj.as_ref().unwrap();
            let ok = by_type!(&a.vals, v, coupe::sprs::CsMatView::try_new((a.size, a.size), &a.xadj[..], &a.adjncy[..], &v[..]).is_ok());
            arr[0] = ok as usize;
            Some(Ok(()))
        }
        _ => {
            // FM
            let a = c.adj.as_ref().unwrap();
            let n = c.weights.len;
            let vals = match &a.vals {
                Cells::I64(v) => v,
                _ => return None,
            };
            let m = unsafe { coupe::sprs::CsMatView::<i64>::new_unchecked(coupe::sprs::CSR, (a.size, a.size), &a.xadj, &a.adjncy, vals) };
            let mut alg = coupe::FiducciaMattheyses {
                max_passes: if c.a == 0 { None } else { Some(c.a) },
                max_moves_per_pass: if c.b == 0 { None } else { Some(c.b) },
                max_imbalance: if c.f <= 0.0 { None } else { Some(c.f) },
                max_bad_move_in_a_row: c.c,
            };
            Some(by_type!(&w, v, conv(alg.partition(&mut arr[..n], (m, &v[..])).map(|_| ()), ce)))
        }
    }
}

/// The C entry point on the data as laid out by the caller.
fn run_c(api: &Api, c: &Case, arr: &mut [usize]) -> i64 {
    if c.entry == ADJNCY {
        // arr[0] := 1 if the checked constructor returns a matrix (and, for a well-formed input, the
        // unchecked one too)
        let a = c.adj.as_ref().unwrap();
        unsafe {
            let h = (api.adjncy_csr)(a.size, a.xadj.as_ptr(), a.adjncy.as_ptr(), a.vals.ty() as c_int, a.vals.ptr() as *const c_void);
            let mut ok = !h.is_null();
            (api.adjncy_free)(h);
            if ok && c.a == 1 {
                let h2 = (api.adjncy_csr_unchecked)(a.size, a.xadj.as_ptr(), a.adjncy.as_ptr(), a.vals.ty() as c_int, a.vals.ptr() as *const c_void);
                ok = !h2.is_null();
                (api.adjncy_free)(h2);
            }
            arr[0] = ok as usize;
        }
        return 0;
    }
    let w = Live::new(api, &c.weights);
    let p = c.points.as_ref().map(|p| Live::new(api, p));
    let code = unsafe {
        match c.entry {
            RCB => (api.rcb)(arr.as_mut_ptr(), c.dim, p.as_ref().unwrap().h, w.h, c.a, c.f),
            RIB => (api.rib)(arr.as_mut_ptr(), c.dim, p.as_ref().unwrap().h, w.h, c.a, c.f),
            HILBERT => (api.hilbert)(arr.as_mut_ptr(), p.as_ref().unwrap().h, w.h, c.a, c.b as u32),
            GREEDY => (api.greedy)(arr.as_mut_ptr(), w.h, c.a),
            KK => (api.kk)(arr.as_mut_ptr(), w.h, c.a),
            CKK => (api.ckk)(arr.as_mut_ptr(), w.h, c.f),
            _ => {
                let a = c.adj.as_ref().unwrap();
                let h = (api.adjncy_csr)(a.size, a.xadj.as_ptr(), a.adjncy.as_ptr(), a.vals.ty() as c_int, a.vals.ptr() as *const c_void);
                assert!(!h.is_null(), "coupe_adjncy_csr rejected a well-formed matrix");
                let r = (api.fm)(arr.as_mut_ptr(), h, w.h, c.a, c.b, c.f, c.c);
                (api.adjncy_free)(h);
                r
            }
        }
    };
    w.free(api);
    if let Some(p) = p {
        p.free(api)
    }
    code as i64
}

// ---------------------------------------------------------------- generators

fn gen_weights(r: &mut Rng, n: usize, ty: u8, fam: &mut String) -> Cells {
    let k = r.below(8);
    let ints: Vec<i64> = match k {
        0 => {
            fam.push_str("w-uniform");
            (0..n).map(|_| r.range(0, 100)).collect()
        }
        1 => {
            fam.push_str("w-ties");
            let v = r.range(1, 9);
            (0..n).map(|_| if r.chance(3, 4) { v } else { r.range(0, 9) }).collect()
        }
        2 => {
            fam.push_str("w-zeros");
            (0..n).map(|_| if r.chance(1, 2) { 0 } else { r.range(0, 20) }).collect()
        }
        3 => {
            fam.push_str("w-dominant");
            let mut v: Vec<i64> = (0..n).map(|_| r.range(0, 10)).collect();
            if n > 0 {
                let i = r.below(n as u64) as usize;
                v[i] = r.range(50, 1000);
            }
            v
        }
        4 => {
            fam.push_str("w-ones");
            vec![1; n]
        }
        5 => {
            fam.push_str("w-small");
            (0..n).map(|_| r.range(1, 4)).collect()
        }
        6 => {
            fam.push_str("w-negative");
            (0..n).map(|_| r.range(-20, 20)).collect()
        }
        _ => {
            fam.push_str("w-skewed");
            (0..n).map(|i| 1 << (i % 12)).collect()
        }
    };
    match ty {
        0 => Cells::I32(ints.iter().map(|x| *x as i32).collect()),
        1 => Cells::I64(ints),
        _ => {
            // integer-valued or dyadic: sums are exact whatever the order of the additions
            let q = *r.pick(&[1.0, 1.0, 0.5, 0.25]);
            Cells::F64(ints.iter().map(|x| *x as f64 * q).collect())
        }
    }
}

/// Doubles on which a slip of the type dispatch shows (a double read or converted as an integer, a sum or a
/// tolerance truncated): proper fractions, non-dyadic fractional parts, magnitudes beyond 2^53, negative zero and
/// subnormals.  All values are >= -0.0, so weight sums stay non-negative.
fn special_doubles(r: &mut Rng, n: usize) -> (Vec<f64>, &'static str) {
    match r.below(5) {
        0 => ((0..n).map(|_| (r.below(1000) as f64 + 1.0) / 1001.0).collect(), "fractions-below-one"),
        1 => ((0..n).map(|_| r.range(0, 50) as f64 + r.range(1, 9) as f64 / 10.0).collect(), "tenths"),
        2 => ((0..n).map(|_| r.range(0, 6) as f64 + *r.pick(&[0.5, 0.25, 0.75, 0.125, 0.9])).collect(), "small-with-fraction"),
        3 => (
            (0..n)
                .map(|_| match r.below(3) {
                    0 => 9007199254740992.0 + 2.0 * r.below(50) as f64,
                    1 => 1.0e19 + 4096.0 * r.below(50) as f64,
                    _ => 3.5e18 * (1 + r.below(3)) as f64,
                })
                .collect(),
            "beyond-2^53",
        ),
        _ => (
            (0..n)
                .map(|_| match r.below(4) {
                    0 => -0.0,
                    1 => f64::from_bits(1 + r.below(1000)),
                    2 => f64::MIN_POSITIVE * (1 + r.below(4)) as f64,
                    _ => 0.3 + r.below(4) as f64 * 0.7,
                })
                .collect(),
            "negzero-subnormal",
        ),
    }
}

fn gen_points(r: &mut Rng, n: usize, dim: usize, grid: f64, fam: &mut String) -> Cells {
    let k = r.below(6);
    let mut v = Vec::with_capacity(n * dim);
    let g = |r: &mut Rng, lo: i64, hi: i64| r.range(lo, hi) as f64 * grid;
    match k {
        0 => {
            fam.push_str("p-uniform");
            for _ in 0..n * dim {
                v.push(g(r, -40, 40));
            }
        }
        1 => {
            fam.push_str("p-clustered");
            let cs: Vec<Vec<f64>> = (0..3).map(|_| (0..dim).map(|_| g(r, -40, 40)).collect()).collect();
            for _ in 0..n {
                let c = &cs[r.below(3) as usize];
                for d in 0..dim {
                    v.push(c[d] + g(r, -3, 3));
                }
            }
        }
        2 => {
            fam.push_str("p-collinear");
            for _ in 0..n {
                let t = g(r, -40, 40);
                for d in 0..dim {
                    v.push(if d == 0 { t } else { 2.0 * t + d as f64 });
                }
            }
        }
        3 => {
            fam.push_str("p-coincident");
            let c: Vec<f64> = (0..dim).map(|_| g(r, -8, 8)).collect();
            for _ in 0..n {
                for d in 0..dim {
                    v.push(if r.chance(1, 6) { c[d] + 1.0 } else { c[d] });
                }
            }
        }
        4 => {
            fam.push_str("p-lattice");
            for i in 0..n {
                for d in 0..dim {
                    v.push(((i >> (2 * d)) & 3) as f64);
                }
            }
        }
        _ => {
            fam.push_str("p-outlier");
            for i in 0..n {
                for _ in 0..dim {
                    v.push(if i == 0 { 1024.0 } else { g(r, -8, 8) });
                }
            }
        }
    }
    Cells::F64(v)
}

/// Wrap the logical element cells into one of the three representations.  A constant data set needs all
/// elements equal: the first element is kept.
fn wrap(r: &mut Rng, repr: u8, tag: u8, n: usize, w: usize, cells: Cells) -> DataSpec {
    match repr {
        CONSTANT => {
            let one = match &cells {
                Cells::I32(v) => Cells::I32(if v.len() >= w { v[..w].to_vec() } else { vec![7; w] }),
                Cells::I64(v) => Cells::I64(if v.len() >= w { v[..w].to_vec() } else { vec![7; w] }),
                Cells::F64(v) => Cells::F64(if v.len() >= w { v[..w].to_vec() } else { vec![1.5; w] }),
            };
            DataSpec { repr, tag, len: n, w, elems: one, rev: false }
        }
        FN => DataSpec { repr, tag, len: n, w, elems: cells, rev: r.chance(1, 2) },
        _ => DataSpec { repr, tag, len: n, w, elems: cells, rev: false },
    }
}

/// Random symmetric graph on n vertices as sorted CSR with positive i64 edge weights.
fn gen_graph(r: &mut Rng, n: usize) -> (Vec<usize>, Vec<usize>, Vec<i64>) {
    let mut rows: Vec<std::collections::BTreeMap<usize, i64>> = vec![Default::default(); n];
    let mut edge = |rows: &mut Vec<std::collections::BTreeMap<usize, i64>>, i: usize, j: usize, w: i64| {
        if i != j && i < n && j < n {
            rows[i].insert(j, w);
            rows[j].insert(i, w);
        }
    };
    match r.below(5) {
        0 => {
            // path
            for i in 1..n {
                let w = r.range(1, 4);
                edge(&mut rows, i - 1, i, w);
            }
        }
        1 => {
            // grid of width 4
            for i in 0..n {
                if i % 4 != 3 {
                    edge(&mut rows, i, i + 1, 1);
                }
                edge(&mut rows, i, i + 4, 1);
            }
        }
        2 => {
            // star + isolated vertices
            for i in 1..n {
                if r.chance(2, 3) {
                    let w = r.range(1, 9);
                    edge(&mut rows, 0, i, w);
                }
            }
        }
        3 => {
            // two cliques joined by one edge
            let h = n / 2;
            for i in 0..n {
                for j in 0..i {
                    if (i < h) == (j < h) {
                        edge(&mut rows, i, j, 2);
                    }
                }
            }
            if h > 0 && h < n {
                edge(&mut rows, 0, h, 1);
            }
        }
        _ => {
            let m = r.below(3 * n as u64 + 1);
            for _ in 0..m {
                let i = r.below(n.max(1) as u64) as usize;
                let j = r.below(n.max(1) as u64) as usize;
                let w = r.range(1, 20);
                edge(&mut rows, i, j, w);
            }
        }
    }
    let mut xadj = vec![0usize];
    let mut adjncy = Vec::new();
    let mut vals = Vec::new();
    for row in &rows {
        for (j, w) in row {
            adjncy.push(*j);
            vals.push(*w);
        }
        xadj.push(adjncy.len());
    }
    (xadj, adjncy, vals)
}

fn pick_repr_tag(r: &mut Rng, slice_only: bool) -> (u8, u8) {
    (if slice_only { ARRAY } else { r.below(3) as u8 }, r.below(3) as u8)
}

const BIG_SIZES: [usize; 8] = [4095, 4096, 4097, 5000, 8191, 8192, 8193, 10000];
const BIG_RAGGED: [usize; 5] = [4097, 5000, 8191, 8193, 10000];
const BIG_BOUNDARY: [usize; 3] = [4095, 4096, 8192];
/// (entry, representation of the data the entry point copies): the first indices of a run are the large cases
const BIG_COMBOS: [(u8, u8); 12] = [
    (RIB, FN), (HILBERT, FN), (FM, FN), (RIB, ARRAY), (HILBERT, CONSTANT), (FM, ARRAY),
    (RIB, CONSTANT), (HILBERT, ARRAY), (FM, CONSTANT), (RCB, FN), (RCB, ARRAY), (RCB, CONSTANT),
];
fn big_count(tier: &str, slice_only: bool) -> usize {
    if slice_only {
        0
    } else if tier == "thorough" {
        BIG_COMBOS.len() * BIG_SIZES.len()
    } else {
        // every (entry that copies, representation) twice: a length that is not a multiple of 4096 and a boundary one
        18
    }
}

/// Large data sets (4095 .. 10000 elements) for the entry points that copy a data set into a vector
/// (coupe_rib points, coupe_hilbert points and weights, coupe_fiduccia_mattheyses weights; coupe_rcb in the
/// thorough tier), every representation, element types in rotation.
fn gen_big(r: &mut Rng, tier: &str, idx: usize) -> Case {
    let (entry, repr, n) = if tier == "thorough" {
        let (e, rp) = BIG_COMBOS[idx / BIG_SIZES.len()];
        (e, rp, BIG_SIZES[idx % BIG_SIZES.len()])
    } else {
        let (e, rp) = BIG_COMBOS[(idx / 2) % 9];
        (e, rp, if idx % 2 == 0 { *r.pick(&BIG_RAGGED) } else { *r.pick(&BIG_BOUNDARY) })
    };
    let other = r.below(3) as u8;
    let wty = if entry == HILBERT { 2 } else { ((idx + r.below(3) as usize) % 3) as u8 };
    let ints: Vec<i64> = (0..n).map(|_| r.range(1, 9)).collect();
    let wcells = match wty {
        0 => Cells::I32(ints.iter().map(|x| *x as i32).collect()),
        1 => Cells::I64(ints),
        _ => Cells::F64(ints.iter().map(|x| *x as f64 + *r.pick(&[0.0, 0.5, 0.3, 0.25])).collect()),
    };
    let mut c = Case { entry, dim: 0, points: None, weights: wrap(r, ARRAY, wty, 0, 1, Cells::I64(vec![])), adj: None, a: 0, b: 0, c: 0, f: 0.0, p0: vec![], family: String::new(), kf: "", mt: false, big: true };
    let extra = r.below(2) as usize;
    if entry == FM {
        // a path with a few chords, or a grid of width 64
        let mut rows: Vec<std::collections::BTreeMap<usize, i64>> = vec![Default::default(); n];
        let grid = r.chance(1, 2);
        for i in 0..n {
            let mut e = |a: usize, b: usize, w: i64| {
                if a != b && a < n && b < n {
                    rows[a].insert(b, w);
                    rows[b].insert(a, w);
                }
            };
            if grid {
                if i % 64 != 63 {
                    e(i, i + 1, 1);
                }
                e(i, i + 64, 1);
            } else {
                e(i, i + 1, r.range(1, 4));
                if r.chance(1, 50) {
                    e(i, r.below(n as u64) as usize, 2);
                }
            }
        }
        let mut xadj = vec![0usize];
        let mut adjncy = Vec::new();
        let mut vals = Vec::new();
        for row in &rows {
            for (j, w) in row {
                adjncy.push(*j);
                vals.push(*w);
            }
            xadj.push(adjncy.len());
        }
        c.adj = Some(Adj { size: n, xadj, adjncy, vals: Cells::I64(vals) });
        c.weights = wrap(r, repr, wty, n, 1, wcells);
        c.a = 1;
        c.b = 300;
        c.c = 2;
        c.f = 0.25;
        let mut p0: Vec<usize> = (0..n).map(|_| r.below(2) as usize).collect();
        p0.extend((0..extra).map(|i| 1000 + i));
        c.p0 = p0;
    } else {
        c.dim = if entry == HILBERT { 0 } else if r.chance(1, 2) { 2 } else { 3 };
        let w = if c.dim == 3 { 3 } else { 2 };
        let pcells = Cells::F64((0..n * w).map(|_| r.range(-4000, 4000) as f64 * 0.25).collect());
        c.points = Some(wrap(r, repr, 2, n, w, pcells));
        // hilbert copies its weights too: same representation; rib / rcb iterate over them: any representation
        c.weights = wrap(r, if entry == HILBERT { repr } else { other }, wty, n, 1, wcells);
        if entry == HILBERT {
            c.a = *r.pick(&[2usize, 5, 7, 16]);
            c.b = *r.pick(&[6usize, 10, 16]);
        } else {
            c.a = *r.pick(&[2usize, 3, 4]);
            c.f = 0.05;
        }
        c.p0 = (0..n + extra).map(|i| 1000 + i).collect();
    }
    c.family = format!(
        "large/{}/{}-{}",
        ENTRY_NAMES[entry as usize],
        REPR_NAMES[repr as usize],
        TY_NAMES[wty as usize]
    );
    c
}

fn digest(v: &[usize]) -> u64 {
    let mut h: u64 = 0xcbf2_9ce4_8422_2325;
    for x in v {
        for b in (*x as u64).to_le_bytes() {
            h ^= b as u64;
            h = h.wrapping_mul(0x0000_0100_0000_01b3);
        }
    }
    h >> 1
}

fn gen_case(r: &mut Rng, tier: &str, slice_only: bool, idx: usize) -> Case {
    if idx < big_count(tier, slice_only) {
        return gen_big(r, tier, idx);
    }
    let big = tier == "thorough";
    let entry = if slice_only {
        GREEDY
    } else {
        // the CSR constructor gets a small share
        match r.below(22) {
            21 => ADJNCY,
            k => (k % 7) as u8,
        }
    };
    let mut fam = format!("{}/", ENTRY_NAMES[entry as usize]);
    let nmax = if entry == CKK { 11 } else if big { 40 } else { 24 };
    let mut n = match r.below(12) {
        0 => 0,
        1 => 1,
        2 => 2,
        3 => 1 << r.range(2, 4),
        _ => r.range(3, nmax) as usize,
    };
    let (wrepr, wty) = pick_repr_tag(r, slice_only);
    let mut special = String::new();
    let mut scratch = String::new();
    let mut dbl = ""; // family of special doubles used for the weights, if any
    let mut c = Case { entry, dim: 0, points: None, weights: wrap(r, ARRAY, wty, 0, 1, Cells::I64(vec![])), adj: None, a: 0, b: 0, c: 0, f: 0.0, p0: vec![], family: String::new(), kf: "", mt: false, big: false };
    let extra = r.below(3) as usize;
    match entry {
        GREEDY | KK | CKK => {
            let mut wcells = gen_weights(r, n, wty, &mut scratch);
            if wty == 2 && !slice_only && r.chance(1, 2) {
                let (v, name) = special_doubles(r, n);
                wcells = Cells::F64(v);
                dbl = name;
            }
            c.a = match r.below(8) {
                0 => 0,
                1 => 1,
                2 | 3 => 2,
                4 => 3,
                5 => n,
                6 => n + 2,
                _ => r.range(2, 6) as usize,
            };
            c.f = match r.below(8) {
                0 | 1 => 0.0,
                2 => 0.01,
                3 => 0.05,
                4 => 0.1,
                5 => 0.5,
                6 => 1.0,
                _ => (r.below(1000) as f64) / 1000.0,
            };
            // inputs known to make the library panic inside the guarded region
            if !slice_only && r.chance(1, 9) {
                match (entry, r.below(4)) {
                    (KK, 0) | (KK, 1) => {
                        // Real::cmp: "cannot compare with NaN"
                        n = n.max(2);
                        let mut v: Vec<f64> = (0..n).map(|_| r.range(0, 50) as f64).collect();
                        let i = r.below(n as u64) as usize;
                        v[i] = f64::NAN;
                        wcells = Cells::F64(v);
                        c.a = *r.pick(&[2, 3]);
                        special = "panic-nan-weight".into();
                    }
                    (CKK, 0) | (CKK, 1) => {
                        // T::from_f64(sum * tolerance).unwrap() on a tolerance that does not convert
                        n = n.clamp(2, 8);
                        wcells = if r.chance(1, 2) { Cells::I32((0..n).map(|_| r.range(1, 50) as i32).collect()) } else { Cells::I64((0..n).map(|_| r.range(1, 50)).collect()) };
                        c.f = *r.pick(&[f64::NAN, 1e30, f64::INFINITY]);
                        special = "panic-tolerance".into();
                    }
                    (GREEDY, 0) | (KK, 2) => {
                        // vec![zero; usize::MAX] / num_parts * weight_count: capacity / arithmetic overflow
                        n = n.max(2);
                        wcells = Cells::I64((0..n).map(|_| r.range(1, 50)).collect());
                        c.a = usize::MAX;
                        special = "panic-huge-part-count".into();
                    }
                    _ => {
                        // i32 sums overflow (the cdylib and the harness are built with overflow checks)
                        n = n.max(4);
                        wcells = Cells::I32((0..n).map(|_| i32::MAX - r.range(0, 3) as i32).collect());
                        c.a = 2;
                        c.f = 0.0;
                        special = "panic-i32-overflow".into();
                    }
                }
            }
            let t = wcells.ty();
            c.weights = wrap(r, wrepr, t, n, 1, wcells);
            fam.push_str(&format!("{}-{}", REPR_NAMES[wrepr as usize], TY_NAMES[t as usize]));
            if !dbl.is_empty() && special.is_empty() {
                fam.push_str(&format!("/{}", dbl));
            }
            c.p0 = (0..n + extra).map(|i| 1000 + i).collect();
        }
        RCB | RIB | HILBERT => {
            c.dim = if entry == HILBERT {
                0
            } else {
                match r.below(10) {
                    0..=3 => 2,
                    4..=7 => 3,
                    _ => *r.pick(&[0usize, 1, 4, 5, 7, usize::MAX]),
                }
            };
            let w = if c.dim == 3 { 3 } else { 2 };
            // the four-worker instance: only inputs whose arithmetic is exact whatever the reduction tree
            // (DESIGN C06): Rcb on a dyadic grid; Rib / Hilbert additionally need 2^k points on an integer grid
            c.mt = r.chance(1, 6);
            let mut grid = 0.25;
            if c.mt && entry != RCB {
                n = 1 << r.range(0, 5);
                grid = 1.0;
            }
            let pcells = gen_points(r, n, w, grid, &mut scratch);
            let (prepr, _) = pick_repr_tag(r, false);
            // points must be announced as double (fix eb2545c): mostly so, sometimes another tag -> BAD_TYPE
            let ptag = if r.chance(4, 5) { 2 } else { r.below(2) as u8 };
            c.points = Some(wrap(r, prepr, ptag, n, w, pcells));
            if ptag != 2 && special.is_empty() {
                special = "points-not-double".into();
            }
            // weights: same length, or the mismatched-length stream
            let mut wn = n;
            if r.chance(1, 8) {
                wn = match r.below(3) {
                    0 => 0,
                    1 => n + 1 + r.below(2) as usize,
                    _ => n.saturating_sub(1),
                };
                if wn != n {
                    special = "len-mismatch".into();
                }
            }
            let wt = if entry == HILBERT && r.chance(5, 6) { 2 } else { wty };
            let mut wcells = gen_weights(r, wn, wt, &mut scratch);
            if let Cells::F64(v) = &mut wcells {
                // Rcb / Hilbert divide by weight sums: keep them positive
                for x in v.iter_mut() {
                    *x = x.abs() + 1.0;
                }
            }
            if entry == HILBERT && wt == 2 && !c.mt && r.chance(1, 2) {
                // (not on the four-worker instance: these sums are not exact)
                let (mut v, name) = special_doubles(r, wn);
                if let Some(x) = v.first_mut() {
                    *x += 0.5; // a positive total whatever the family
                }
                wcells = Cells::F64(v);
                dbl = name;
            }
            if let Cells::I32(v) = &mut wcells {
                for x in v.iter_mut() {
                    *x = x.abs() + 1;
                }
            }
            if let Cells::I64(v) = &mut wcells {
                for x in v.iter_mut() {
                    *x = x.abs() + 1;
                }
            }
            c.weights = wrap(r, wrepr, wt, wn, 1, wcells);
            if entry == HILBERT {
                c.a = match r.below(8) {
                    0 => 0,
                    1 => 1,
                    2 | 3 => 2,
                    4 => 3,
                    5 => n,
                    6 => n + 2,
                    _ => r.range(2, 6) as usize,
                };
                c.b = *r.pick(&[0usize, 1, 2, 3, 4, 8, 12, 16, 31, 32, 33, 64, u32::MAX as usize]);
                if c.b > 32 {
                    special = "invalid-order".into();
                }
                if wt != 2 {
                    special = "weights-not-double".into();
                }
            } else {
                c.a = r.below(5) as usize;
                c.f = *r.pick(&[0.05, 0.1, 0.0, 0.5]);
                if c.dim != 2 && c.dim != 3 {
                    special = "bad-dimension".into();
                }
            }
            fam.push_str(&format!("{}-points/{}-{}", REPR_NAMES[prepr as usize], REPR_NAMES[wrepr as usize], TY_NAMES[wt as usize]));
            if !dbl.is_empty() {
                fam.push_str(&format!("/{}", dbl));
            }
            c.p0 = (0..n.max(wn) + extra).map(|i| 1000 + i).collect();
        }
        FM => {
            let (xadj, adjncy, vals) = gen_graph(r, n);
            let vals = match r.below(8) {
                0 => {
                    special = "adjacency-not-int64".into();
                    Cells::I32(vals.iter().map(|x| *x as i32).collect())
                }
                1 => {
                    special = "adjacency-not-int64".into();
                    Cells::F64(vals.iter().map(|x| *x as f64).collect())
                }
                _ => Cells::I64(vals),
            };
            c.adj = Some(Adj { size: n, xadj, adjncy, vals });
            // weights: usually one per vertex; sometimes another count (the algorithm reports the mismatch)
            let mut wn = n;
            if r.chance(1, 10) {
                wn = if r.chance(1, 2) { n + 1 } else { n.saturating_sub(1) };
                if wn != n && special.is_empty() {
                    special = "len-mismatch".into();
                }
            }
            let mut wcells = gen_weights(r, wn, wty, &mut scratch);
            match &mut wcells {
                Cells::I32(v) => v.iter_mut().for_each(|x| *x = x.abs()),
                Cells::I64(v) => v.iter_mut().for_each(|x| *x = x.abs()),
                Cells::F64(v) => v.iter_mut().for_each(|x| *x = x.abs()),
            }
            c.weights = wrap(r, wrepr, wty, wn, 1, wcells);
            c.a = *r.pick(&[0usize, 1, 2, 5]);
            c.b = *r.pick(&[0usize, 0, 1, 3, n]);
            c.c = *r.pick(&[0usize, 1, 2, 5]);
            c.f = *r.pick(&[-1.0, 0.0, 0.05, 0.25, 1.0, 1.0]);
            if r.chance(1, 14) && wty != 2 && special.is_empty() {
                // W::from_f64(NaN).unwrap() for an integer weight type
                c.f = f64::NAN;
                special = "panic-nan-imbalance".into();
            }
            let mut p0: Vec<usize> = (0..wn).map(|_| r.below(2) as usize).collect();
            if r.chance(1, 12) && wn > 0 {
                let i = r.below(wn as u64) as usize;
                p0[i] = 2 + r.below(2) as usize;
                if special.is_empty() {
                    special = "three-parts".into();
                }
            }
            p0.extend((0..extra).map(|i| 1000 + i));
            c.p0 = p0;
            fam.push_str(&format!("{}-{}", REPR_NAMES[wrepr as usize], TY_NAMES[wty as usize]));
        }
        _ => {
            // coupe_adjncy_csr: well-formed or structurally broken matrices (always inside the memory contract:
            // xadj has size+1 entries, its last one is the length of adjncy and of data)
            let (mut xadj, mut adjncy, vals) = gen_graph(r, n);
            let k = r.below(6);
            let m = adjncy.len();
            match k {
                0 if m >= 2 => {
                    // a row with its columns out of order or duplicated
                    let row = (0..n).find(|i| xadj[i + 1] - xadj[*i] >= 2);
                    if let Some(i) = row {
                        let s = xadj[i];
                        if r.chance(1, 2) {
                            adjncy.swap(s, s + 1);
                            special = "unsorted-row".into();
                        } else {
                            adjncy[s + 1] = adjncy[s];
                            special = "duplicate-column".into();
                        }
                    }
                }
                1 if m >= 1 => {
                    let i = r.below(m as u64) as usize;
                    adjncy[i] = n + r.below(3) as usize;
                    special = "column-out-of-range".into();
                }
                2 if n >= 2 => {
                    // xadj not monotone (last entry kept)
                    let i = 1 + r.below(n as u64 - 1) as usize;
                    xadj[i] = xadj[i + 1] + 1 + r.below(2) as usize;
                    if xadj[i] > m {
                        xadj[i] = m;
                    }
                    special = "xadj-not-sorted".into();
                }
                3 if n >= 1 && m >= 1 => {
                    xadj[0] = 1;
                    special = "xadj-not-from-zero".into();
                }
                _ => {}
            }
            let vals = match r.below(3) {
                0 => Cells::I32(vals.iter().map(|x| *x as i32).collect()),
                1 => Cells::I64(vals),
                _ => Cells::F64(vals.iter().map(|x| *x as f64).collect()),
            };
            c.a = r.below(2) as usize; // 1: also try the unchecked constructor (well-formed input only)
            c.adj = Some(Adj { size: n, xadj, adjncy, vals });
            c.p0 = vec![9];
            fam.push_str("csr");
        }
    }
    if !special.is_empty() {
        fam = format!("{}/{}", ENTRY_NAMES[entry as usize], special);
    }
    if c.mt {
        fam.push_str("/4-threads");
    }
    c.family = fam;
    c
}

// ---------------------------------------------------------------- main

fn coq_opt_n(x: Option<u128>) -> String {
    match x {
        Some(v) => format!("Some {}%N", v),
        None => "None".into(),
    }
}

fn numty(c: &Case) -> &'static str {
    match (c.entry, c.weights.logical().ty()) {
        (_, 0) => "I32",
        (_, 1) => "I64",
        (KK, _) => "RealF64",
        _ => "F64",
    }
}

/// Runs the C calls of the listed cases in child processes (re-exec of this binary).  A child that dies or
/// stops answering is blamed on the first case it has not answered; the rest is handed to a new child.
fn run_children(a: &Args, so: &Path, mt: bool, list: Vec<usize>, out: &mut std::collections::HashMap<usize, CRes>) {
    use std::io::BufRead as _;
    let mut remaining: std::collections::VecDeque<usize> = list.into();
    while !remaining.is_empty() {
        let ids: Vec<String> = remaining.iter().map(|x| x.to_string()).collect();
        let mut ch = std::process::Command::new(std::env::current_exe().unwrap())
            .args(["--child", "--seed", &a.seed.to_string(), "--cases", &a.cases.to_string(), "--tier", &a.tier, "--out", &a.out])
            .env("VERIF_FFI_SO", so)
            .env("C17_LIST", ids.join(","))
            .env("RAYON_NUM_THREADS", if mt { "4" } else { "1" })
            .env("RUST_BACKTRACE", "0")
            .stdout(std::process::Stdio::piped())
            .stderr(std::process::Stdio::null())
            .spawn()
            .expect("re-exec");
        let stdout = ch.stdout.take().unwrap();
        let (tx, rx) = std::sync::mpsc::channel::<String>();
        std::thread::spawn(move || {
            for l in std::io::BufReader::new(stdout).lines().map_while(Result::ok) {
                if tx.send(l).is_err() {
                    break;
                }
            }
        });
        loop {
            match rx.recv_timeout(Duration::from_secs(40)) {
                Ok(l) => {
                    if let Some(rest) = l.strip_prefix("RESULT ") {
                        let mut it = rest.split(' ');
                        let idx: usize = it.next().unwrap().parse().unwrap();
                        let code: i64 = it.next().unwrap().parse().unwrap();
                        let arr: Vec<usize> = it.next().unwrap_or("").split(',').filter(|x| !x.is_empty()).map(|x| x.parse().unwrap()).collect();
                        out.insert(idx, CRes::Ret(code, arr));
                        remaining.retain(|x| *x != idx);
                    }
                }
                Err(std::sync::mpsc::RecvTimeoutError::Timeout) => {
                    let _ = ch.kill();
                    let _ = ch.wait();
                    if let Some(i) = remaining.pop_front() {
                        out.insert(i, CRes::Hang);
                    }
                    break;
                }
                Err(std::sync::mpsc::RecvTimeoutError::Disconnected) => {
                    let st = ch.wait();
                    if let Some(i) = remaining.pop_front() {
                        out.insert(i, CRes::Abort(format!("the process running the C call died: {:?}", st)));
                    }
                    break;
                }
            }
        }
    }
}

/// First use of the library's global rayon pool (its size is read from the environment at that moment).
fn warm_up(api: &Api) {
    let c = Case {
        entry: RCB,
        dim: 2,
        points: Some(DataSpec { repr: ARRAY, tag: 2, len: 4, w: 2, elems: Cells::F64(vec![0., 0., 1., 0., 0., 1., 1., 1.]), rev: false }),
        weights: DataSpec { repr: CONSTANT, tag: 0, len: 4, w: 1, elems: Cells::I32(vec![1]), rev: false },
        adj: None,
        a: 1,
        b: 0,
        c: 0,
        f: 0.05,
        p0: vec![0; 4],
        family: String::new(),
        kf: "",
        mt: false,
        big: false,
    };
    let mut arr = c.p0.clone();
    let code = run_c(api, &c, &mut arr);
    assert_eq!(code, 0, "warm-up call of coupe_rcb failed");
}

/// Runtime side of ffi_names_agree: every function coupe.h declares resolves in the library that was built,
/// and coupe_strerror knows every code of the header's enum.
fn check_exports(api: &Api, out: &str) {
    let repo = std::env::var("VERIF_REPO").unwrap_or_else(|_| "/repo".into());
    let hdr = std::fs::read_to_string(format!("{repo}/ffi/include/coupe.h")).expect("coupe.h");
    let mut missing = Vec::new();
    let mut count = 0;
    let mut i = 0;
    let b = hdr.as_bytes();
    while let Some(p) = hdr[i..].find("coupe_") {
        let s = i + p;
        let mut e = s;
        while e < b.len() && (b[e].is_ascii_alphanumeric() || b[e] == b'_') {
            e += 1;
        }
        let name = &hdr[s..e];
        let prev_ok = s == 0 || !(b[s - 1].is_ascii_alphanumeric() || b[s - 1] == b'_');
        let mut k = e;
        while k < b.len() && b[k] == b' ' {
            k += 1;
        }
        // a declaration: `name(` at the start of a prototype (not inside a comment line)
        let line_start = hdr[..s].rfind('\n').map(|x| x + 1).unwrap_or(0);
        let in_comment = hdr[line_start..s].trim_start().starts_with('*') || hdr[line_start..s].contains("/*");
        if prev_ok && !in_comment && k < b.len() && b[k] == b'(' {
            count += 1;
            let ok = unsafe { api.lib.get::<unsafe extern "C" fn()>(name.as_bytes()).is_ok() };
            if !ok {
                missing.push(name.to_string());
            }
        }
        i = e;
    }
    let mut msgs = 0;
    for code in 0..hdr.lines().filter(|l| l.trim_start().starts_with("COUPE_ERR_") && l.trim_end().ends_with(',')).count() as c_int {
        let p = unsafe { (api.strerror)(code) };
        if !p.is_null() && unsafe { std::ffi::CStr::from_ptr(p) }.to_bytes().len() > 3 {
            msgs += 1;
        }
    }
    std::fs::write(
        format!("{out}/exports.json"),
        format!("{{\"declared\":{},\"missing\":{:?},\"strerror_messages\":{}}}", count, missing, msgs),
    )
    .unwrap();
    let codes = hdr.lines().filter(|l| l.trim_start().starts_with("COUPE_ERR_") && l.trim_end().ends_with(',')).count();
    if !missing.is_empty() || count == 0 || msgs != codes {
        eprintln!("coupe.h declares functions the library does not export: {:?} (declared {}, messages {})", missing, count, msgs);
        std::process::exit(4);
    }
}

fn main() {
    let a = parse_args();
    quiet_panics();
    // the library's own panic hook prints a backtrace per panic when this is set (20x slower)
    std::env::set_var("RUST_BACKTRACE", "0");
    let argv: Vec<String> = std::env::args().collect();
    let child = argv.iter().any(|x| x == "--child");
    let slice_only = std::env::var("C17_SLICE").is_ok();
    let mut rng = Rng::new(a.seed);

    if child {
        // run the C calls of the listed cases, one RESULT line each (flushed); the parent interprets a missing
        // line followed by an abnormal exit as an abort at that case
        let list: Vec<usize> = std::env::var("C17_LIST").expect("C17_LIST").split(',').filter(|x| !x.is_empty()).map(|x| x.parse().unwrap()).collect();
        let api = load(&PathBuf::from(std::env::var("VERIF_FFI_SO").expect("VERIF_FFI_SO")));
        let last = *list.iter().max().unwrap_or(&0);
        let mut cases = std::collections::HashMap::new();
        for i in 0..=last {
            let mut r = rng.fork();
            if list.contains(&i) {
                cases.insert(i, gen_case(&mut r, &a.tier, slice_only, i));
            }
        }
        for i in &list {
            let c = &cases[i];
            let mut arr = c.p0.clone();
            let code = run_c(api, c, &mut arr);
            use std::io::Write as _;
            let mut o = std::io::stdout().lock();
            writeln!(o, "RESULT {} {} {}", i, code, arr.iter().map(|x| x.to_string()).collect::<Vec<_>>().join(",")).unwrap();
            o.flush().unwrap();
        }
        return;
    }

    // Two instances of the library.  (1) one worker in the library's global rayon pool and in the harness's own:
    // the reduction trees of the two sides are then the same function of the input length, so even inexact
    // float sums agree.  (2) a copy of the .so (separate statics, hence a separate global pool) with four workers,
    // used only on inputs whose arithmetic is exact (DESIGN C06: `exact` / `exact_obb`), against the Rust API in a
    // four-worker pool: real concurrency for the callback and constant representations.
    let so = build_ffi(&a.out);
    std::env::set_var("RAYON_NUM_THREADS", "1");
    let api1 = load(&so);
    warm_up(api1);
    let _ = coupe::rayon::current_num_threads(); // the harness's global pool: created now, with one worker
    let so_mt = so.with_file_name(format!("libcoupe_mt_{}.so", std::process::id()));
    std::fs::copy(&so, &so_mt).expect("copy of the .so");
    std::env::set_var("RAYON_NUM_THREADS", "4");
    let api4 = load(&so_mt);
    warm_up(api4);
    let _ = std::fs::remove_file(&so_mt);
    std::env::set_var("RAYON_NUM_THREADS", "1");

    check_exports(api1, &a.out);

    let mut w = CaseWriter::new(&a.out, "From Coq Require Import Uint63.\nFrom Coupe Require Import Lib.Prelude Lib.Report Model.Ffi Run.RunC17.", "case17", "run17", 250);
    let (mut hangs, mut ref_panics, mut aborts) = (0usize, 0usize, 0usize);
    let mut large = 0usize;
    // (1) the cases and the Rust reference
    let mut all: Vec<(usize, Case, RefRes)> = Vec::new();
    for idx in 0..a.cases {
        let mut r = rng.fork();
        if let Some(o) = a.only {
            if o != idx {
                continue;
            }
        }
        let c = gen_case(&mut r, &a.tier, slice_only, idx);
        let c1 = c.clone();
        let t_case = std::time::Instant::now();
        let rr = guarded(if c.mt { 4 } else { 0 }, Duration::from_secs(20), move || {
            let mut arr = c1.p0.clone();
            let r = run_ref(&c1, &mut arr);
            (r, arr)
        });
        let rres = match rr {
            Guarded::Done((None, _)) => RefRes::NotCalled,
            Guarded::Done((Some(Ok(())), arr)) => RefRes::Ok(arr),
            Guarded::Done((Some(Err((coq, dbg))), arr)) => RefRes::Err(coq, dbg, arr),
            Guarded::Panic(m) => {
                ref_panics += 1;
                RefRes::Panic(m)
            }
            Guarded::Hang => {
                hangs += 1;
                RefRes::Hang
            }
        };
        if t_case.elapsed() > Duration::from_secs(2) {
            eprintln!("slow reference run: case {} ({}) took {:?}", idx, c.family, t_case.elapsed());
        }
        all.push((idx, c, rres));
        if hangs > 3 {
            break;
        }
    }
    // (2a) the C calls that may abort the process (the Rust reference panicked or hung): in child processes
    let mut child_res: std::collections::HashMap<usize, CRes> = Default::default();
    let mut children = 0usize;
    for mt in [false, true] {
        let list: Vec<usize> = all.iter().filter(|(_, c, r)| c.mt == mt && matches!(r, RefRes::Panic(_) | RefRes::Hang)).map(|(i, _, _)| *i).collect();
        children += list.len();
        run_children(&a, &so, mt, list, &mut child_res);
    }
    for (idx, c, rres) in all.into_iter() {
        // (2b) the other C calls: in this process
        let cres = if let Some(r) = child_res.remove(&idx) {
            match &r {
                CRes::Abort(_) => aborts += 1,
                CRes::Hang => hangs += 1,
                _ => {}
            }
            r
        } else {
            let c2 = c.clone();
            let api = if c.mt { api4 } else { api1 };
            match guarded(0, Duration::from_secs(20), move || {
                let mut arr = c2.p0.clone();
                let code = run_c(api, &c2, &mut arr);
                (code, arr)
            }) {
                Guarded::Done((code, arr)) => CRes::Ret(code, arr),
                Guarded::Panic(m) => {
                    aborts += 1;
                    CRes::Abort(format!("unwound into the caller: {m}"))
                }
                Guarded::Hang => {
                    hangs += 1;
                    CRes::Hang
                }
            }
        };
        // (3) the case
        if c.big {
            // compared here; only the summary goes to Coq (Run/RunC17.v, prop_large)
            let n = c.weights.len;
            let (rarr, rcoq, rjson): (Option<&Vec<usize>>, String, String) = match &rres {
                RefRes::Ok(arr) => (Some(arr), "(RROk [])".into(), "\"ok\"".into()),
                RefRes::Err(e, d, arr) => (Some(arr), format!("(RRErr {} [])", e), json_str(d)),
                RefRes::Panic(m) => (None, "RRPanic".into(), format!("{{\"panic\":{}}}", json_str(m))),
                _ => (None, "RRHang".into(), "\"hang\"".into()),
            };
            let (code, carr) = match &cres {
                CRes::Ret(code, arr) => (*code, Some(arr)),
                _ => (-1, None),
            };
            let (mut verdict, mut first, mut ndiff, mut h1, mut h2) = (0u64, 0usize, 0usize, 0u64, 0u64);
            if let (Some(ra), Some(ca)) = (rarr, carr) {
                h1 = digest(ra);
                h2 = digest(ca);
                if c.entry == FM && matches!(rres, RefRes::Ok(_)) {
                    // HashSet order: only the deterministic shape (ids in {0,1}, tail untouched, cut not worse)
                    let a = c.adj.as_ref().unwrap();
                    let vals = match &a.vals {
                        Cells::I64(v) => v,
                        _ => unreachable!(),
                    };
                    let cut = |p: &[usize]| -> i64 {
                        let mut s = 0;
                        for i in 0..a.size {
                            for k in a.xadj[i]..a.xadj[i + 1] {
                                if p[i] != p[a.adjncy[k]] {
                                    s += vals[k];
                                }
                            }
                        }
                        s
                    };
                    let ok = ca.len() == c.p0.len() && ca[..n].iter().all(|x| *x <= 1) && ca[n..] == c.p0[n..] && cut(&ca[..n]) <= cut(&c.p0[..n]);
                    verdict = ok as u64;
                } else {
                    for i in 0..ra.len().max(ca.len()) {
                        if ra.get(i) != ca.get(i) {
                            if ndiff == 0 {
                                first = i + 1;
                            }
                            ndiff += 1;
                        }
                    }
                    verdict = (ndiff == 0) as u64;
                }
            } else if matches!(rres, RefRes::Panic(_)) && carr.is_some() {
                verdict = 1;
            }
            let (prep, ptag) = c.points.as_ref().map(|p| (p.repr, p.tag)).unwrap_or((9, 9));
            let ccoq = match &cres {
                CRes::Ret(code, _) => format!("(CRet {}%N [])", code),
                CRes::Abort(_) => "CAbort".into(),
                CRes::Hang => "CHang".into(),
            };
            let coq = format!(
                "mk17 {}%N {}%N (DArray 0 TDouble []) (DArray 0 TDouble []) (mk_adj 0 [] [] TInt64 []) [{};{};{};{};{};{};{};{};{};{}]%N [] (Some (mk_ref {} [] [] [] {})) {}",
                10 + c.entry, c.dim, n, prep, ptag, c.weights.repr, c.weights.tag, verdict, first, ndiff, h1, h2, numty(&c), rcoq, ccoq
            );
            let json = format!(
                "{{\"entry\":\"coupe_{}\",\"large\":true,\"elements\":{},\"dimension\":{},\"points\":{},\"weights\":\"{}-{}\",\"a\":{},\"b\":{},\"c\":{},\"f\":\"{:e}\",\"rust\":{},\"c_code\":{},\"arrays_equal_or_shape_ok\":{},\"first_differing_index\":{},\"differing_cells\":{},\"digest_rust\":{},\"digest_c\":{}}}",
                ENTRY_NAMES[c.entry as usize], n, c.dim,
                c.points.as_ref().map(|p| format!("\"{}-{}\"", REPR_NAMES[p.repr as usize], TY_NAMES[p.tag as usize])).unwrap_or_else(|| "null".into()),
                REPR_NAMES[c.weights.repr as usize], TY_NAMES[c.weights.tag as usize],
                c.a, c.b, c.c, c.f, rjson, code, verdict == 1,
                if first == 0 { "null".to_string() } else { (first - 1).to_string() }, ndiff, h1, h2
            );
            let key = format!("large|{}|{}|{:?}|{}|{}|{}|{}", c.entry, n, (prep, c.weights.repr, c.weights.tag), c.dim, c.a, c.b, h1);
            large += 1;
            w.push(coq, json, &key, true, &c.family);
            continue;
        }
        let wl = c.weights.logical();
        let params: Vec<Option<u128>> = match c.entry {
            RCB | RIB => vec![Some(c.a as u128), Some(c.f.to_bits() as u128)],
            HILBERT => vec![Some(c.a as u128), Some(c.b as u128)],
            GREEDY | KK => vec![Some(c.a as u128)],
            CKK => vec![Some(c.f.to_bits() as u128)],
            _ => vec![
                if c.a == 0 { None } else { Some(c.a as u128) },
                if c.b == 0 { None } else { Some(c.b as u128) },
                if c.f <= 0.0 { None } else { Some(c.f.to_bits() as u128) },
                Some(c.c as u128),
            ],
        };
        let cparams: Vec<u128> = match c.entry {
            RCB | RIB => vec![c.a as u128, c.f.to_bits() as u128],
            HILBERT => vec![c.a as u128, c.b as u128],
            GREEDY | KK => vec![c.a as u128],
            CKK => vec![c.f.to_bits() as u128],
            _ => vec![c.a as u128, c.b as u128, c.f.to_bits() as u128, c.c as u128],
        };
        let pl = c.points.as_ref().map(|p| p.logical());
        let pts_coq = match (&pl, &c.points) {
            (Some(pl), Some(p)) => {
                let rows: Vec<String> = (0..p.len).map(|i| pl.coq(i * p.w, (i + 1) * p.w)).collect();
                format!("[{}]", rows.join(";"))
            }
            _ => "[]".into(),
        };
        let refcoq = match &rres {
            RefRes::NotCalled => "None".to_string(),
            other => {
                let res = match other {
                    RefRes::Ok(arr) => format!("(RROk {})", coq_nlist(arr.iter().map(|x| *x as u128))),
                    RefRes::Err(e, _, arr) => format!("(RRErr {} {})", e, coq_nlist(arr.iter().map(|x| *x as u128))),
                    RefRes::Panic(_) => "RRPanic".into(),
                    _ => "RRHang".into(),
                };
                format!(
                    "(Some (mk_ref {} {} {} [{}] {}))",
                    numty(&c),
                    wl.coq(0, wl.len()),
                    pts_coq,
                    params.iter().map(|x| coq_opt_n(*x)).collect::<Vec<_>>().join(";"),
                    res
                )
            }
        };
        let ccoq = match &cres {
            CRes::Ret(code, arr) => format!("(CRet {}%N {})", code, coq_nlist(arr.iter().map(|x| *x as u128))),
            CRes::Abort(_) => "CAbort".into(),
            CRes::Hang => "CHang".into(),
        };
        let dummy = "(DArray 0 TDouble [])".to_string();
        let coq = format!(
            "mk17 {}%N {}%N {} {} {} {} {} {} {}",
            c.entry,
            c.dim,
            c.points.as_ref().map(|p| p.coq()).unwrap_or(dummy),
            c.weights.coq(),
            c.adj.as_ref().map(|x| x.coq()).unwrap_or_else(|| "(mk_adj 0 [] [] TInt64 [])".into()),
            coq_nlist(cparams.iter().cloned()),
            coq_nlist(c.p0.iter().map(|x| *x as u128)),
            refcoq,
            ccoq
        );
        let json = format!(
            "{{\"entry\":\"coupe_{}\",\"dimension\":{},\"points\":{},\"weights\":{},\"adjacency\":{},\"a\":{},\"b\":{},\"c\":{},\"f\":\"{:e}\",\"partition_before\":{},\"rust\":{},\"c_api\":{}{}}}",
            ENTRY_NAMES[c.entry as usize],
            c.dim,
            c.points.as_ref().map(|p| p.json()).unwrap_or_else(|| "null".into()),
            c.weights.json(),
            c.adj.as_ref().map(|x| x.json()).unwrap_or_else(|| "null".into()),
            c.a,
            c.b,
            c.c,
            c.f,
            json_usizes(&c.p0),
            match &rres {
                RefRes::NotCalled => "\"no Rust call for this input\"".to_string(),
                RefRes::Ok(arr) => format!("{{\"ok\":{}}}", json_usizes(arr)),
                RefRes::Err(_, d, arr) => format!("{{\"err\":{},\"partition\":{}}}", json_str(d), json_usizes(arr)),
                RefRes::Panic(m) => format!("{{\"panic\":{}}}", json_str(m)),
                RefRes::Hang => "{\"hang\":true}".into(),
            },
            match &cres {
                CRes::Ret(code, arr) => format!("{{\"code\":{},\"partition\":{}}}", code, json_usizes(arr)),
                CRes::Abort(m) => format!("{{\"abort\":{}}}", json_str(m)),
                CRes::Hang => "{\"hang\":true}".into(),
            },
            if c.kf.is_empty() { String::new() } else { format!(",\"kf\":\"{}\"", c.kf) }
        );
        let key = format!("{}|{}|{}|{:?}|{:?}|{:?}|{}|{}|{}|{}|{:?}", c.mt, c.entry, c.dim, c.points, c.weights, c.adj, c.a, c.b, c.c, c.f.to_bits(), c.p0);
        let nontrivial = c.weights.len >= 2;
        w.push(coq, json, &key, nontrivial, &c.family);
    }
    w.finish(&format!(
        "\"hangs\":{},\"rust_panics\":{},\"aborts\":{},\"child_runs\":{},\"large_cases\":{}",
        hangs, ref_panics, aborts, children, large
    ));
}

//! C07: FiducciaMattheyses vs Model/Fm.v — case generator and runner.
//! The implementation's own choices are recorded through the `coupe_verif`
//! trace sink and handed to the model as its oracle.
use coupe::Partition as _;
use std::time::Duration;
use verif_harness::*;

#[path = "../graphs.rs"]
mod graphs;
use graphs::*;

struct Case {
    fam: String,
    pfam: String,
    wfam: String,
    adj: Adj,
    ws: Vec<i64>,
    p0: Vec<usize>,
    mp: Option<usize>,
    mm: Option<usize>,
    mi: Option<f64>,
    mb: usize,
}

fn gen_limit(r: &mut Rng) -> Option<usize> {
    match r.below(8) {
        0 | 1 | 2 => None,
        3 => Some(0),
        4 => Some(1),
        5 => Some(2),
        6 => Some(3),
        _ => Some(r.range(4, 20) as usize),
    }
}

fn gen_weights(r: &mut Rng, n: usize) -> (&'static str, Vec<i64>) {
    match r.below(6) {
        0 | 1 => ("ones", vec![1; n]),
        2 => ("random", (0..n).map(|_| r.range(0, 9)).collect()),
        3 => ("zeros_mixed", (0..n).map(|_| if r.chance(1, 2) { 0 } else { r.range(1, 5) }).collect()),
        4 => {
            let mut ws: Vec<i64> = (0..n).map(|_| r.range(1, 3)).collect();
            if n > 0 {
                let i = r.below(n as u64) as usize;
                ws[i] = r.range(20, 100);
            }
            ("one_dominant", ws)
        }
        _ => ("all_zero", vec![0; n]),
    }
}

/// Heavy-edge family: weighted degrees far above 2^16 mixed with light edges, partitions that
/// make every remaining move a bad one with a huge negative gain (both ends of a heavy edge on
/// the same side, one-sided inputs), bad moves allowed (1..3) and several passes, so that a huge
/// negative gain is booked, moved, and followed by good moves.
fn gen_heavy(r: &mut Rng, big: bool) -> Case {
    let n = r.range(2, if big { 6 } else { 5 }) as usize;
    let hi: i64 = if big && n <= 4 { *r.pick(&[140_000, 400_000, 1_000_000]) } else { 140_000 };
    let mut adj: Adj = vec![Vec::new(); n];
    let mut heavy: Vec<(usize, usize)> = Vec::new();
    for u in 0..n {
        for v in 0..u {
            if r.chance(3, 5) || (u == 1 && v == 0) {
                let w = if r.chance(1, 2) || (u == 1 && v == 0) {
                    heavy.push((u, v));
                    r.range(66_000, hi)
                } else {
                    r.range(1, 9)
                };
                adj[u].push((v, w));
                adj[v].push((u, w));
            }
        }
    }
    for row in adj.iter_mut() {
        row.sort();
    }
    let (pname, p0): (&str, Vec<usize>) = match r.below(3) {
        0 => ("heavy_one_sided", vec![r.below(2) as usize; n]),
        1 => {
            // both ends of a heavy edge on the same side, the rest at random
            let mut p: Vec<usize> = (0..n).map(|_| r.below(2) as usize).collect();
            let (a, b) = *r.pick(&heavy);
            p[a] = p[b];
            ("heavy_same_side", p)
        }
        _ => ("heavy_random", (0..n).map(|_| r.below(2) as usize).collect()),
    };
    let (wname, ws) = match r.below(3) {
        0 => ("ones", vec![1; n]),
        1 => ("all_zero", vec![0; n]),
        _ => ("random", (0..n).map(|_| r.range(0, 3)).collect()),
    };
    Case {
        fam: "heavy".to_string(),
        pfam: format!("partition/{}", pname),
        wfam: format!("weights/{}", wname),
        adj,
        ws,
        p0,
        mp: *r.pick(&[None, None, Some(2), Some(3), Some(5)]),
        mm: *r.pick(&[None, None, None, Some(n), Some(2 * n)]),
        mi: *r.pick(&[None, Some(1.0), Some(1.0), Some(0.5), Some(3.0)]),
        mb: r.range(1, 3) as usize,
    }
}

fn gen_case(r: &mut Rng, tier: &str) -> Case {
    let big = tier == "thorough";
    if r.chance(1, 25) {
        return gen_heavy(r, big);
    }
    let (gname, mut adj) = gen_graph(r, big);
    let n = adj.len();
    let (pname, mut p0) = gen_partition(r, &adj, 0, 1);
    let (wname, mut ws) = gen_weights(r, n);
    let mut mi = match r.below(10) {
        0 | 1 | 2 => None,
        3 => Some(0.0),
        4 => Some(0.1),
        5 => Some(0.25),
        6 => Some(0.5),
        7 => Some(1.0),
        8 => Some(-0.5),
        _ => Some((r.below(2000) as f64) / 1000.0),
    };
    let mut stream = "";
    if r.chance(1, 10) && n >= 2 {
        stream = "malformed_";
        match r.below(9) {
            0 => {
                // self-loop: the gain counts it, the cut does not
                let v = r.below(n as u64) as usize;
                adj[v].push((v, r.range(1, 4)));
                adj[v].sort();
            }
            1 => {
                ws.pop();
            }
            2 => {
                ws.push(1);
            }
            3 => {
                p0.pop();
                ws.pop();
            }
            4 => {
                p0.push(0);
                ws.push(1);
            }
            5 => {
                let i = r.below(n as u64) as usize;
                p0[i] = 2 + r.below(3) as usize;
            }
            6 => {
                let i = r.below(n as u64) as usize;
                ws[i] = -r.range(1, 9);
            }
            7 => {
                mi = Some(*r.pick(&[f64::NAN, 1e300, f64::INFINITY, -1e300]));
            }
            _ => {
                // a directed edge
                let u = r.below(n as u64) as usize;
                let v = r.below(n as u64) as usize;
                if u != v && !adj[u].iter().any(|(x, _)| *x == v) {
                    adj[u].push((v, r.range(1, 5)));
                    adj[u].sort();
                } else {
                    mi = Some(f64::NAN);
                }
            }
        }
    }
    Case {
        fam: format!("{}{}", stream, gname),
        pfam: format!("partition/{}", pname),
        wfam: format!("weights/{}", wname),
        adj,
        ws,
        p0,
        mp: gen_limit(r),
        mm: gen_limit(r),
        mi,
        mb: r.below(4) as usize,
    }
}

type Out = (Vec<usize>, Vec<usize>, Vec<usize>);

/// Like `verif_harness::guarded`, but the watchdog also stops waiting when the trace sink grows
/// beyond any terminating run (a pass moves each vertex once; passes are bounded by the cut):
/// a runaway move loop would otherwise fill the memory before the timeout.
/// Returns the outcome and the records drained meanwhile.
fn guarded_traced<T: Send + 'static>(
    timeout: Duration,
    max_records: usize,
    f: impl FnOnce() -> T + Send + 'static,
) -> (Guarded<T>, Vec<(&'static str, Vec<u64>)>) {
    use std::panic::{catch_unwind, AssertUnwindSafe};
    let (tx, rx) = std::sync::mpsc::channel();
    std::thread::Builder::new()
        .stack_size(64 << 20)
        .spawn(move || {
            let r = catch_unwind(AssertUnwindSafe(f));
            let _ = tx.send(match r {
                Ok(v) => Guarded::Done(v),
                Err(e) => {
                    let msg = if let Some(s) = e.downcast_ref::<&str>() {
                        s.to_string()
                    } else if let Some(s) = e.downcast_ref::<String>() {
                        s.clone()
                    } else {
                        "panic".to_string()
                    };
                    Guarded::Panic(msg)
                }
            });
        })
        .unwrap();
    let start = std::time::Instant::now();
    let mut trace = Vec::new();
    loop {
        match rx.recv_timeout(Duration::from_millis(20)) {
            Ok(g) => {
                trace.extend(coupe::verif::drain());
                return (g, trace);
            }
            Err(_) => {
                trace.extend(coupe::verif::drain());
                if start.elapsed() > timeout || trace.len() > max_records {
                    // hang (or runaway loop): stop recording, the thread is leaked
                    coupe::verif::trace_enable(false);
                    let _ = coupe::verif::drain();
                    // the case is a failure whatever the model says: keep only the beginning of the
                    // trace (a case file with 10^5 moves does not even parse)
                    trace.truncate(64);
                    return (Guarded::Hang, trace);
                }
            }
        }
    }
}

fn main() {
    let a = parse_args();
    quiet_panics();
    let mut rng = Rng::new(a.seed);
    let mut w = CaseWriter::new(
        &a.out,
        "From Coupe Require Import Lib.Prelude Lib.Report Lib.Graph Model.Fm Run.RunC07.",
        "case07",
        "run07",
        250,
    );
    let mut hangs = 0usize;
    let mut panics = 0usize;
    let mut changed = 0usize;
    let mut total_moves = 0usize;
    let mut total_passes = 0usize;
    let mut rewound = 0usize;
    coupe::verif::trace_enable(true);
    for idx in 0..a.cases {
        let mut r = rng.fork();
        let c = gen_case(&mut r, &a.tier);
        if let Some(o) = a.only {
            if o != idx {
                continue;
            }
        }
        let n = c.adj.len();
        let (indptr, indices, data) = csr(&c.adj);
        let ws2 = c.ws.clone();
        let p02 = c.p0.clone();
        let (mp, mm, mi, mb) = (c.mp, c.mm, c.mi, c.mb);
        let _ = coupe::verif::drain();
        // no terminating run records more: <= n moves per pass, and the passes are bounded by the
        // total edge weight (every pass but the last lowers the cut); capped for memory
        let (res, trace): (Guarded<Result<Out, coupe::Error>>, _) = guarded_traced(Duration::from_secs(20), 200_000, move || {
            let m = coupe::sprs::CsMat::new((n, n), indptr, indices, data);
            let mut p = p02;
            coupe::FiducciaMattheyses {
                max_passes: mp,
                max_moves_per_pass: mm,
                max_imbalance: mi,
                max_bad_move_in_a_row: mb,
            }
            .partition(&mut p, (m.view(), &ws2[..]))
            .map(|md| (p, md.moves_per_pass.clone(), md.rewinded_moves_per_pass.clone()))
        });
        // the oracle: per pass (recorded cut, moves)
        let mut passes: Vec<(i64, Vec<(usize, i64)>)> = Vec::new();
        for (kind, data) in &trace {
            match *kind {
                "fm_pass" => passes.push((data[0] as i64, Vec::new())),
                "fm_move" => {
                    if let Some(last) = passes.last_mut() {
                        last.1.push((data[0] as usize, data[1] as i64));
                    }
                }
                _ => {}
            }
        }
        total_passes += passes.len();
        total_moves += passes.iter().map(|p| p.1.len()).sum::<usize>();
        let (impl_coq, mpp, rpp, impl_json) = match &res {
            Guarded::Done(Ok((p, mpp, rpp))) => {
                if *p != c.p0 {
                    changed += 1;
                }
                rewound += rpp.iter().sum::<usize>();
                (
                    format!("(IOk {})", coq_nlist(p.iter().map(|x| *x as u128))),
                    mpp.clone(),
                    rpp.clone(),
                    format!(
                        "{{\"ok\":{},\"moves_per_pass\":{},\"rewinded_moves_per_pass\":{}}}",
                        json_usizes(p),
                        json_usizes(mpp),
                        json_usizes(rpp)
                    ),
                )
            }
            Guarded::Done(Err(e)) => (
                coq_err(e),
                vec![],
                vec![],
                format!("{{\"err\":{}}}", json_str(&format!("{:?}", e))),
            ),
            Guarded::Panic(m) => {
                panics += 1;
                ("IPanic".to_string(), vec![], vec![], format!("{{\"panic\":{}}}", json_str(m)))
            }
            Guarded::Hang => {
                hangs += 1;
                ("IHang".to_string(), vec![], vec![], "{\"hang\":true}".to_string())
            }
        };
        let orc_coq: Vec<String> = passes
            .iter()
            .map(|(cut, mv)| {
                let ms: Vec<String> = mv
                    .iter()
                    .map(|(v, g)| format!("({}%nat,{}%Z)", v, coq_z(*g as i128)))
                    .collect();
                format!("({}%Z,[{}])", coq_z(*cut as i128), ms.join(";"))
            })
            .collect();
        let orc_json: Vec<String> = passes
            .iter()
            .map(|(cut, mv)| {
                let ms: Vec<String> = mv.iter().map(|(v, g)| format!("[{},{}]", v, g)).collect();
                format!("{{\"cut\":{},\"moves\":[{}]}}", cut, ms.join(","))
            })
            .collect();
        let mi_coq = match c.mi {
            Some(x) => format!("(Some {}%N)", x.to_bits()),
            None => "None".to_string(),
        };
        let mi_json = match c.mi {
            Some(x) if x.is_finite() => format!("{}", x),
            Some(x) => format!("\"{}\"", x),
            None => "null".to_string(),
        };
        let coq = format!(
            "mk07 {} {} {} {} {} {} {} {}%N [{}] {} {} {}",
            coq_graph(&c.adj),
            coq_zlist(c.ws.iter().map(|x| *x as i128)),
            coq_nlist(c.p0.iter().map(|x| *x as u128)),
            coq_bool(cfg!(debug_assertions)),
            coq_opt_n(c.mp),
            coq_opt_n(c.mm),
            mi_coq,
            c.mb,
            orc_coq.join(";"),
            impl_coq,
            coq_nlist(mpp.iter().map(|x| *x as u128)),
            coq_nlist(rpp.iter().map(|x| *x as u128)),
        );
        // known-finding class (from the input alone): the cap `ideal + mi * ideal` is not an i64
        // (NaN, infinite, beyond the range): `W::from_f64(..).unwrap()` panics
        let kf = match c.mi {
            Some(mi) if c.ws.len() == c.p0.len() && c.p0.len() == n && n > 0 && c.p0.iter().all(|x| *x <= 1) => {
                let total: i64 = c.ws.iter().sum();
                let ideal = total as f64 / 2.0;
                if <i64 as coupe::num_traits::FromPrimitive>::from_f64(ideal + mi * ideal).is_none() {
                    "\"kf\":\"fm-cap-not-representable\","
                } else {
                    ""
                }
            }
            _ => "",
        };
        let json = format!(
            "{{{}\"debug_assertions\":{},\"graph\":{},\"weights\":{},\"partition\":{},\"max_passes\":{},\"max_moves_per_pass\":{},\"max_imbalance\":{},\"max_imbalance_bits\":{},\"max_bad_move_in_a_row\":{},\"trace\":[{}],\"impl\":{}}}",
            kf,
            cfg!(debug_assertions),
            json_graph(&c.adj),
            json_i64s(&c.ws),
            json_usizes(&c.p0),
            json_opt(c.mp),
            json_opt(c.mm),
            mi_json,
            c.mi.map(|x| x.to_bits().to_string()).unwrap_or("null".to_string()),
            c.mb,
            orc_json.join(","),
            impl_json
        );
        // distinct executions: the trace is part of the key (the same input has many executions)
        let key = format!(
            "{:?}|{:?}|{:?}|{:?}|{:?}|{:?}|{}|{:?}",
            c.adj,
            c.ws,
            c.p0,
            c.mp,
            c.mm,
            c.mi.map(|x| x.to_bits()),
            c.mb,
            passes
        );
        // non-trivial: contract stream and at least one move was made
        let nontrivial = !c.fam.starts_with("malformed_") && passes.iter().any(|p| !p.1.is_empty());
        w.push(coq, json, &key, nontrivial, &c.fam);
        *w.dist.entry(c.pfam.clone()).or_insert(0) += 1;
        *w.dist.entry(c.wfam.clone()).or_insert(0) += 1;
        if hangs > 0 {
            // tracing was switched off and a thread is still spinning: the case is reported, stop here
            break;
        }
    }
    w.finish(&format!(
        "\"hangs\":{},\"panics\":{},\"partition_changed\":{},\"passes\":{},\"moves\":{},\"rewound_moves\":{}",
        hangs, panics, changed, total_passes, total_moves, rewound
    ));
}

//! C07: FiducciaMattheyses vs Model/Fm.v — case generator and runner.
//! The implementation's own choices are recorded through the `coupe_verif`
//! trace sink and handed to the model as its oracle.
use coupe::Partition as _;
use std::time::Duration;
use verif_harness::*;

#[path = "../graphs.rs"]
mod graphs;
use graphs::*;

struct Case {
    fam: String,
    pfam: String,
    wfam: String,
    adj: Adj,
    ws: Vec<i64>,
    p0: Vec<usize>,
    mp: Option<usize>,
    mm: Option<usize>,
    mi: Option<f64>,
    mb: usize,
}

fn gen_limit(r: &mut Rng) -> Option<usize> {
    match r.below(8) {
        0 | 1 | 2 => None,
        3 => Some(0),
        4 => Some(1),
        5 => Some(2),
        6 => Some(3),
        _ => Some(r.range(4, 20) as usize),
    }
}

fn gen_weights(r: &mut Rng, n: usize) -> (&'static str, Vec<i64>) {
    match r.below(6) {
        0 | 1 => ("ones", vec![1; n]),
        2 => ("random", (0..n).map(|_| r.range(0, 9)).collect()),
        3 => ("zeros_mixed", (0..n).map(|_| if r.chance(1, 2) { 0 } else { r.range(1, 5) }).collect()),
        4 => {
            let mut ws: Vec<i64> = (0..n).map(|_| r.range(1, 3)).collect();
            if n > 0 {
                let i = r.below(n as u64) as usize;
                ws[i] = r.range(20, 100);
            }
            ("one_dominant", ws)
        }
        _ => ("all_zero", vec![0; n]),
    }
}

/// Heavy-edge family: weighted degrees far above 2^16 mixed with light edges, partitions that
/// make every remaining move a bad one with a huge negative gain (both ends of a heavy edge on
/// the same side, one-sided inputs), bad moves allowed (1..3) and several passes, so that a huge
/// negative gain is booked, moved, and followed by good moves.
fn gen_heavy(r: &mut Rng, big: bool) -> Case {
    let n = r.range(2, if big { 6 } else { 5 }) as usize;
    let hi: i64 = if big && n <= 4 { *r.pick(&[140_000, 400_000, 1_000_000]) } else { 140_000 };
    let mut adj: Adj = vec![Vec::new(); n];
    let mut heavy: Vec<(usize, usize)> = Vec::new();
    for u in 0..n {
        for v in 0..u {
            if r.chance(3, 5) || (u == 1 && v == 0) {
                let w = if r.chance(1, 2) || (u == 1 && v == 0) {
                    heavy.push((u, v));
                    r.range(66_000, hi)
                } else {
                    r.range(1, 9)
                };
                adj[u].push((v, w));
                adj[v].push((u, w));
            }
        }
    }
    for row in adj.iter_mut() {
        row.sort();
    }
    let (pname, p0): (&str, Vec<usize>) = match r.below(3) {
        0 => ("heavy_one_sided", vec![r.below(2) as usize; n]),
        1 => {
            // both ends of a heavy edge on the same side, the rest at random
            let mut p: Vec<usize> = (0..n).map(|_| r.below(2) as usize).collect();
            let (a, b) = *r.pick(&heavy);
            p[a] = p[b];
            ("heavy_same_side", p)
        }
        _ => ("heavy_random", (0..n).map(|_| r.below(2) as usize).collect()),
    };
    let (wname, ws) = match r.below(3) {
        0 => ("ones", vec![1; n]),
        1 => ("all_zero", vec![0; n]),
        _ => ("random", (0..n).map(|_| r.range(0, 3)).collect()),
    };
    Case {
        fam: "heavy".to_string(),
        pfam: format!("partition/{}", pname),
        wfam: format!("weights/{}", wname),
        adj,
        ws,
        p0,
        mp: *r.pick(&[None, None, Some(2), Some(3), Some(5)]),
        mm: *r.pick(&[None, None, None, Some(n), Some(2 * n)]),
        mi: *r.pick(&[None, Some(1.0), Some(1.0), Some(0.5), Some(3.0)]),
        mb: r.range(1, 3) as usize,
    }
}

/// Huge-weight family: i64 vertex weights whose part sums sit at / around the f64 mantissa
/// boundary 2^53 and above (up to 2^62), where `to_f64` of a part weight, of the total or of a
/// target part weight is no longer exact.  One or two huge "anchor" vertices pin each part's sum
/// at base + d (d a few units, or a few half-ulps +- a few units above 2^54), a handful of small
/// movable vertices (weight 1..5) hang on the anchors / on each other across the cut, so that
/// their moves have positive gains and their target part weights land just below, at, and just
/// above the cap.  Caps: the heaviest part (`max_imbalance: None`), `Some(0.0)` and tiny
/// imbalances j * 2^-52 (cap = rounded half total + about j half-ulps), and imbalances 0.1..1
/// with the total solved so that (1 + mi) * half is near the base.  Every sum stays < 2^63
/// (contract: the sums do not overflow); a cap that `W::from_f64` cannot represent is tagged by
/// the usual known-finding class.
fn gen_huge(r: &mut Rng) -> Case {
    if r.chance(1, 16) {
        return gen_huge_pinned(r);
    }
    #[allow(non_snake_case)]
    fn P2(k: u32) -> i128 {
        1i128 << k
    }
    // base of the part sums and the f64 spacing just above it
    let (base, k): (i128, u32) = match r.below(20) {
        0..=9 => (P2(53), 53),
        10 | 11 => (P2(54), 54),
        12 => (P2(55), 55),
        13 => {
            let k = r.range(56, 60) as u32;
            (P2(k), k)
        }
        14 | 15 => (P2(61), 61),
        16 => (3 * P2(60), 61),
        17 => (P2(52), 52),
        _ => (P2(62), 62), // offsets forced negative below: the total stays < 2^63
    };
    let half_ulp: i128 = if k >= 53 { P2(k - 53) } else { 1 };
    let off = |r: &mut Rng| -> i128 {
        if half_ulp == 1 {
            r.range(-6, 6) as i128
        } else {
            (r.range(-4, 4) as i128) * half_ulp + r.range(-2, 2) as i128
        }
    };
    // small movable vertices
    let ns = r.range(1, 6) as usize;
    let na = [r.range(1, 2) as usize, r.range(1, 2) as usize];
    let n = na[0] + na[1] + ns;
    // layout: anchors of part 0, anchors of part 1, small vertices
    let mut p0: Vec<usize> = Vec::with_capacity(n);
    p0.extend(std::iter::repeat(0).take(na[0]));
    p0.extend(std::iter::repeat(1).take(na[1]));
    let mut ws: Vec<i128> = vec![0; na[0] + na[1]];
    let bias = r.below(3); // 0: small vertices on both sides, 1: mostly in part 0, 2: mostly in part 1
    for _ in 0..ns {
        p0.push(match bias {
            0 => r.below(2) as usize,
            1 => (r.below(5) == 0) as usize,
            _ => (r.below(5) != 0) as usize,
        });
        ws.push(r.range(1, 5) as i128);
    }
    let small: [i128; 2] = [0, 1].map(|q| (0..n).filter(|v| *v >= na[0] + na[1] && p0[*v] == q).map(|v| ws[v]).sum());
    // the cap and the two part sums
    let mi: Option<f64> = match r.below(20) {
        0..=8 => None,
        9..=12 => Some(0.0),
        13 | 14 => Some((r.range(1, 4) as f64) * f64::EPSILON), // j * 2^-52
        15 => Some(*r.pick(&[f64::EPSILON / 2.0, -f64::EPSILON, 1e-16, 3e-16, 1e-15])),
        16 | 17 => Some(*r.pick(&[1.0, 0.5, 0.25, 0.1])), // total solved below
        _ => Some(*r.pick(&[1.0, 0.5, 0.1, 2.0])),
    };
    let solved = matches!(mi, Some(m) if m >= 0.1) && r.chance(2, 3);
    let mut sums: [i128; 2] = if solved {
        // (1 + mi) * total / 2 ~ base: one part near the cap, the other takes the rest
        let m = mi.unwrap();
        let total = ((2.0 * base as f64) / (1.0 + m)) as i128;
        let near = base + off(r);
        let rest = (total - near + off(r)).max(0);
        if r.chance(1, 2) {
            [near, rest]
        } else {
            [rest, near]
        }
    } else if r.chance(1, 8) {
        // one part at the base, the other one light
        let light = r.range(0, 12) as i128;
        if r.chance(1, 2) {
            [base + off(r), light]
        } else {
            [light, base + off(r)]
        }
    } else {
        [base + off(r), base + off(r)]
    };
    if k == 62 {
        // both parts just below 2^62
        for s in sums.iter_mut() {
            if *s >= P2(62) {
                *s = 2 * P2(62) - *s - 1;
            }
        }
    }
    // contract: the total fits in i64 with some room
    while sums[0] + sums[1] > i64::MAX as i128 - 64 {
        let q = if sums[0] >= sums[1] { 0 } else { 1 };
        sums[q] -= P2(61);
    }
    // anchors take what the small vertices leave
    for q in 0..2 {
        let rest = (sums[q] - small[q]).max(0);
        let first = if q == 0 { 0 } else { na[0] };
        if na[q] == 1 {
            ws[first] = rest;
        } else {
            let a = match r.below(3) {
                0 => rest / 2 + r.range(-3, 3) as i128,
                1 => rest.min(P2(53)),            // one anchor exactly 2^53 (if the part is that heavy)
                _ => rest - r.range(0, 7) as i128, // a huge one and a second small one
            }
            .clamp(0, rest);
            ws[first] = a;
            ws[first + 1] = rest - a;
        }
    }
    // edges: every small vertex pulls towards the other part (positive gain), sometimes held back
    let mut adj: Adj = vec![Vec::new(); n];
    let add = |adj: &mut Adj, u: usize, v: usize, w: i64| {
        if u != v && !adj[u].iter().any(|(x, _)| *x == v) {
            adj[u].push((v, w));
            adj[v].push((u, w));
        }
    };
    for v in na[0] + na[1]..n {
        let others: Vec<usize> = (0..n).filter(|u| p0[*u] != p0[v]).collect();
        let same: Vec<usize> = (0..n).filter(|u| *u != v && p0[*u] == p0[v]).collect();
        for _ in 0..r.range(1, 2) {
            let u = *r.pick(&others);
            add(&mut adj, v, u, r.range(1, 4));
        }
        if r.chance(1, 3) && !same.is_empty() {
            let u = *r.pick(&same);
            add(&mut adj, v, u, r.range(1, 2));
        }
    }
    for row in adj.iter_mut() {
        row.sort();
    }
    Case {
        fam: "huge".to_string(),
        pfam: "partition/huge_anchored".to_string(),
        wfam: format!("weights/huge_2^{}", k),
        adj,
        ws: ws.iter().map(|x| i64::try_from(*x).unwrap()).collect(),
        p0,
        mp: *r.pick(&[None, None, Some(1), Some(2), Some(3)]),
        mm: *r.pick(&[None, None, None, Some(1), Some(2), Some(n)]),
        mi,
        mb: r.below(4) as usize,
    }
}

/// Textbook inputs of the huge-weight family, always present whatever the random draws give:
/// every improving move would put a part one unit above the cap, 2^53 + 1, which `to_f64` rounds
/// back to 2^53 (a / b: cap = the heaviest part; d: cap = (1 + 1.0) * half the total, the total
/// 2^53 + 1 itself rounding to 2^53), and (c) the half total rounding UP (2^54 + 6 -> 2^54 + 8), so
/// that the code's own cap 2^53 + 4 lets a part grow to 2^53 + 4.
fn gen_huge_pinned(r: &mut Rng) -> Case {
    const P53: i64 = 1 << 53;
    let (name, n, edges, ws, p0, mi): (&str, usize, Vec<(usize, usize, i64)>, Vec<i64>, Vec<usize>, Option<f64>) = match r.below(4) {
        0 => ("a", 3, vec![(1, 2, 1)], vec![P53 - 3, 3, P53 - 2], vec![0, 0, 1], None),
        1 => (
            "b",
            5,
            vec![(0, 1, 1), (0, 2, 1), (0, 3, 1)],
            vec![5, 1, 1, P53 - 6, P53 - 5],
            vec![0, 1, 1, 1, 0],
            None,
        ),
        2 => ("c", 3, vec![(1, 2, 1)], vec![P53 + 2, 1, P53 + 3], vec![0, 0, 1], Some(0.0)),
        _ => ("d", 2, vec![(0, 1, 1)], vec![P53 - 2, 3], vec![0, 1], Some(1.0)),
    };
    let mut adj: Adj = vec![Vec::new(); n];
    for (u, v, w) in edges {
        adj[u].push((v, w));
        adj[v].push((u, w));
    }
    for row in adj.iter_mut() {
        row.sort();
    }
    Case {
        fam: "huge".to_string(),
        pfam: format!("partition/huge_pinned_{}", name),
        wfam: "weights/huge_2^53".to_string(),
        adj,
        ws,
        p0,
        mp: None,
        mm: None,
        mi,
        mb: r.below(2) as usize,
    }
}

/// The cap of the property in EXACT arithmetic, as a fraction (num, den): the heaviest input part,
/// or (1 + max_imbalance) * total / 2 with max_imbalance the exact value of the f64.  `None` when
/// the numbers do not fit in i128 (diagnostic only; the verdicts come from the Coq checker, whose
/// cap is the code's own f64 formula).
fn exact_cap(mi: Option<f64>, loads: [i128; 2]) -> Option<(i128, i128)> {
    match mi {
        None => Some((loads[0].max(loads[1]), 1)),
        Some(x) => {
            if !x.is_finite() {
                return None;
            }
            let total = loads[0] + loads[1];
            // x = m * 2^e exactly
            let bits = x.to_bits();
            let sign: i128 = if bits >> 63 == 1 { -1 } else { 1 };
            let ex = ((bits >> 52) & 0x7ff) as i32;
            let frac = (bits & ((1u64 << 52) - 1)) as i128;
            let (mut m, mut e) = if ex == 0 { (frac, -1074) } else { (frac | (1i128 << 52), ex - 1075) };
            if m == 0 {
                return Some((total, 2));
            }
            while m % 2 == 0 {
                m /= 2;
                e += 1;
            }
            let m = sign * m;
            if e >= 0 {
                if e > 100 {
                    return None;
                }
                let f = 1i128.checked_shl(e as u32)?.checked_mul(m)?.checked_add(1)?;
                Some((total.checked_mul(f)?, 2))
            } else {
                if -e > 120 {
                    return None;
                }
                let d = 1i128 << (-e) as u32;
                let f = d.checked_add(m)?; // (1 + x) = f / d
                Some((total.checked_mul(f)?, d.checked_mul(2)?))
            }
        }
    }
}

fn gen_case(r: &mut Rng, tier: &str) -> Case {
    let big = tier == "thorough";
    if r.chance(1, 25) {
        return gen_heavy(r, big);
    }
    if r.chance(1, 16) {
        return gen_huge(r);
    }
    let (gname, mut adj) = gen_graph(r, big);
    let n = adj.len();
    let (pname, mut p0) = gen_partition(r, &adj, 0, 1);
    let (wname, mut ws) = gen_weights(r, n);
    let mut mi = match r.below(10) {
        0 | 1 | 2 => None,
        3 => Some(0.0),
        4 => Some(0.1),
        5 => Some(0.25),
        6 => Some(0.5),
        7 => Some(1.0),
        8 => Some(-0.5),
        _ => Some((r.below(2000) as f64) / 1000.0),
    };
    let mut stream = "";
    let mut directed = false;
    if r.chance(1, 10) && n >= 2 {
        stream = "malformed_";
        match r.below(9) {
            0 => {
                // self-loop: the gain counts it, the cut does not
                let v = r.below(n as u64) as usize;
                adj[v].push((v, r.range(1, 4)));
                adj[v].sort();
            }
            1 => {
                ws.pop();
            }
            2 => {
                ws.push(1);
            }
            3 => {
                p0.pop();
                ws.pop();
            }
            4 => {
                p0.push(0);
                ws.push(1);
            }
            5 => {
                let i = r.below(n as u64) as usize;
                p0[i] = 2 + r.below(3) as usize;
            }
            6 => {
                let i = r.below(n as u64) as usize;
                ws[i] = -r.range(1, 9);
            }
            7 => {
                mi = Some(*r.pick(&[f64::NAN, 1e300, f64::INFINITY, -1e300]));
            }
            _ => {
                // a directed edge
                let u = r.below(n as u64) as usize;
                let v = r.below(n as u64) as usize;
                if u != v && !adj[u].iter().any(|(x, _)| *x == v) {
                    adj[u].push((v, r.range(1, 5)));
                    adj[u].sort();
                    directed = true;
                } else {
                    mi = Some(f64::NAN);
                }
            }
        }
    }
    let mut mp = gen_limit(r);
    let mm = gen_limit(r);
    if directed && mp.is_none() {
        // Outside the contract: on a non-symmetric matrix the tracked cut of a build without debug
        // assertions can decrease for ever (the pass loop never ends at /repo HEAD, see
        // docs/C07.md); an endless run would stop the batch, so the passes are bounded here.
        mp = Some(r.range(4, 24) as usize);
    }
    Case {
        fam: format!("{}{}", stream, gname),
        pfam: format!("partition/{}", pname),
        wfam: format!("weights/{}", wname),
        adj,
        ws,
        p0,
        mp,
        mm,
        mi,
        mb: r.below(4) as usize,
    }
}

type Out = (Vec<usize>, Vec<usize>, Vec<usize>);

/// Like `verif_harness::guarded`, but the watchdog also stops waiting when the trace sink grows
/// beyond any terminating run (a pass moves each vertex once; passes are bounded by the cut):
/// a runaway move loop would otherwise fill the memory before the timeout.
/// Returns the outcome and the records drained meanwhile.
fn guarded_traced<T: Send + 'static>(
    timeout: Duration,
    max_records: usize,
    f: impl FnOnce() -> T + Send + 'static,
) -> (Guarded<T>, Vec<(&'static str, Vec<u64>)>) {
    use std::panic::{catch_unwind, AssertUnwindSafe};
    let (tx, rx) = std::sync::mpsc::channel();
    std::thread::Builder::new()
        .stack_size(64 << 20)
        .spawn(move || {
            let r = catch_unwind(AssertUnwindSafe(f));
            let _ = tx.send(match r {
                Ok(v) => Guarded::Done(v),
                Err(e) => {
                    let msg = if let Some(s) = e.downcast_ref::<&str>() {
                        s.to_string()
                    } else if let Some(s) = e.downcast_ref::<String>() {
                        s.clone()
                    } else {
                        "panic".to_string()
                    };
                    Guarded::Panic(msg)
                }
            });
        })
        .unwrap();
    let start = std::time::Instant::now();
    let mut trace = Vec::new();
    loop {
        match rx.recv_timeout(Duration::from_millis(20)) {
            Ok(g) => {
                trace.extend(coupe::verif::drain());
                return (g, trace);
            }
            Err(_) => {
                trace.extend(coupe::verif::drain());
                if start.elapsed() > timeout || trace.len() > max_records {
                    // hang (or runaway loop): stop recording, the thread is leaked
                    coupe::verif::trace_enable(false);
                    let _ = coupe::verif::drain();
                    // the case is a failure whatever the model says: keep only the beginning of the
                    // trace (a case file with 10^5 moves does not even parse)
                    trace.truncate(64);
                    return (Guarded::Hang, trace);
                }
            }
        }
    }
}

fn main() {
    let a = parse_args();
    quiet_panics();
    let mut rng = Rng::new(a.seed);
    let mut w = CaseWriter::new(
        &a.out,
        "From Coupe Require Import Lib.Prelude Lib.Report Lib.Graph Model.Fm Run.RunC07.",
        "case07",
        "run07",
        250,
    );
    let mut hangs = 0usize;
    let mut panics = 0usize;
    let mut changed = 0usize;
    let mut total_moves = 0usize;
    let mut total_passes = 0usize;
    let mut rewound = 0usize;
    // diagnostic: outputs in which a part weighs more than max(its input weight, the cap in EXACT
    // arithmetic) -- the code's cap is the f64 formula, which may round above the exact value
    let mut exact_exceeded = 0usize;
    let mut exact_exceeded_at: Vec<String> = Vec::new();
    let mut huge_moved = 0usize;
    coupe::verif::trace_enable(true);
    for idx in 0..a.cases {
        let mut r = rng.fork();
        let c = gen_case(&mut r, &a.tier);
        if let Some(o) = a.only {
            if o != idx {
                continue;
            }
        }
        let n = c.adj.len();
        let (indptr, indices, data) = csr(&c.adj);
        let ws2 = c.ws.clone();
        let p02 = c.p0.clone();
        let (mp, mm, mi, mb) = (c.mp, c.mm, c.mi, c.mb);
        let _ = coupe::verif::drain();
        // no terminating run records more: <= n moves per pass, and the passes are bounded by the
        // total edge weight (every pass but the last lowers the cut); capped for memory
        let (res, trace): (Guarded<Result<Out, coupe::Error>>, _) = guarded_traced(Duration::from_secs(20), 200_000, move || {
            let m = coupe::sprs::CsMat::new((n, n), indptr, indices, data);
            let mut p = p02;
            coupe::FiducciaMattheyses {
                max_passes: mp,
                max_moves_per_pass: mm,
                max_imbalance: mi,
                max_bad_move_in_a_row: mb,
            }
            .partition(&mut p, (m.view(), &ws2[..]))
            .map(|md| (p, md.moves_per_pass.clone(), md.rewinded_moves_per_pass.clone()))
        });
        // the oracle: per pass (recorded cut, moves)
        let mut passes: Vec<(i64, Vec<(usize, i64)>)> = Vec::new();
        for (kind, data) in &trace {
            match *kind {
                "fm_pass" => passes.push((data[0] as i64, Vec::new())),
                "fm_move" => {
                    if let Some(last) = passes.last_mut() {
                        last.1.push((data[0] as usize, data[1] as i64));
                    }
                }
                _ => {}
            }
        }
        total_passes += passes.len();
        total_moves += passes.iter().map(|p| p.1.len()).sum::<usize>();
        let (impl_coq, mpp, rpp, impl_json) = match &res {
            Guarded::Done(Ok((p, mpp, rpp))) => {
                if *p != c.p0 {
                    changed += 1;
                    if c.fam == "huge" {
                        huge_moved += 1;
                    }
                }
                if !c.fam.starts_with("malformed_") && p.len() == c.ws.len() && c.p0.len() == c.ws.len() {
                    let load = |part: &[usize], q: usize| -> i128 {
                        part.iter().zip(&c.ws).filter(|(x, _)| **x == q).map(|(_, w)| *w as i128).sum()
                    };
                    let l0 = [load(&c.p0, 0), load(&c.p0, 1)];
                    if let Some((num, den)) = exact_cap(c.mi, l0) {
                        let over = (0..2).any(|q| {
                            let l = load(p, q);
                            l > l0[q] && l.checked_mul(den).map_or(false, |x| x > num)
                        });
                        if over {
                            exact_exceeded += 1;
                            if exact_exceeded_at.len() < 8 {
                                exact_exceeded_at.push(format!("\"{}:{}\"", idx, c.fam));
                            }
                        }
                    }
                }
                rewound += rpp.iter().sum::<usize>();
                (
                    format!("(IOk {})", coq_nlist(p.iter().map(|x| *x as u128))),
                    mpp.clone(),
                    rpp.clone(),
                    format!(
                        "{{\"ok\":{},\"moves_per_pass\":{},\"rewinded_moves_per_pass\":{}}}",
                        json_usizes(p),
                        json_usizes(mpp),
                        json_usizes(rpp)
                    ),
                )
            }
            Guarded::Done(Err(e)) => (
                coq_err(e),
                vec![],
                vec![],
                format!("{{\"err\":{}}}", json_str(&format!("{:?}", e))),
            ),
            Guarded::Panic(m) => {
                panics += 1;
                ("IPanic".to_string(), vec![], vec![], format!("{{\"panic\":{}}}", json_str(m)))
            }
            Guarded::Hang => {
                hangs += 1;
                ("IHang".to_string(), vec![], vec![], "{\"hang\":true}".to_string())
            }
        };
        let orc_coq: Vec<String> = passes
            .iter()
            .map(|(cut, mv)| {
                let ms: Vec<String> = mv
                    .iter()
                    .map(|(v, g)| format!("({}%nat,{}%Z)", v, coq_z(*g as i128)))
                    .collect();
                format!("({}%Z,[{}])", coq_z(*cut as i128), ms.join(";"))
            })
            .collect();
        let orc_json: Vec<String> = passes
            .iter()
            .map(|(cut, mv)| {
                let ms: Vec<String> = mv.iter().map(|(v, g)| format!("[{},{}]", v, g)).collect();
                format!("{{\"cut\":{},\"moves\":[{}]}}", cut, ms.join(","))
            })
            .collect();
        let mi_coq = match c.mi {
            Some(x) => format!("(Some {}%N)", x.to_bits()),
            None => "None".to_string(),
        };
        let mi_json = match c.mi {
            Some(x) if x.is_finite() => format!("{}", x),
            Some(x) => format!("\"{}\"", x),
            None => "null".to_string(),
        };
        let coq = format!(
            "mk07 {} {} {} {} {} {} {} {}%N [{}] {} {} {}",
            coq_graph(&c.adj),
            coq_zlist(c.ws.iter().map(|x| *x as i128)),
            coq_nlist(c.p0.iter().map(|x| *x as u128)),
            coq_bool(cfg!(debug_assertions)),
            coq_opt_n(c.mp),
            coq_opt_n(c.mm),
            mi_coq,
            c.mb,
            orc_coq.join(";"),
            impl_coq,
            coq_nlist(mpp.iter().map(|x| *x as u128)),
            coq_nlist(rpp.iter().map(|x| *x as u128)),
        );
        // known-finding class (from the input alone): the cap `ideal + mi * ideal` is not an i64
        // (NaN, infinite, beyond the range): `W::from_f64(..).unwrap()` panics
        let kf = match c.mi {
            Some(mi) if c.ws.len() == c.p0.len() && c.p0.len() == n && n > 0 && c.p0.iter().all(|x| *x <= 1) => {
                let total: i64 = c.ws.iter().sum();
                let ideal = total as f64 / 2.0;
                if <i64 as coupe::num_traits::FromPrimitive>::from_f64(ideal + mi * ideal).is_none() {
                    "\"kf\":\"fm-cap-not-representable\","
                } else {
                    ""
                }
            }
            _ => "",
        };
        let json = format!(
            "{{{}\"debug_assertions\":{},\"graph\":{},\"weights\":{},\"partition\":{},\"max_passes\":{},\"max_moves_per_pass\":{},\"max_imbalance\":{},\"max_imbalance_bits\":{},\"max_bad_move_in_a_row\":{},\"trace\":[{}],\"impl\":{}}}",
            kf,
            cfg!(debug_assertions),
            json_graph(&c.adj),
            json_i64s(&c.ws),
            json_usizes(&c.p0),
            json_opt(c.mp),
            json_opt(c.mm),
            mi_json,
            c.mi.map(|x| x.to_bits().to_string()).unwrap_or("null".to_string()),
            c.mb,
            orc_json.join(","),
            impl_json
        );
        // distinct executions: the trace is part of the key (the same input has many executions)
        let key = format!(
            "{:?}|{:?}|{:?}|{:?}|{:?}|{:?}|{}|{:?}",
            c.adj,
            c.ws,
            c.p0,
            c.mp,
            c.mm,
            c.mi.map(|x| x.to_bits()),
            c.mb,
            passes
        );
        // non-trivial: contract stream and at least one move was made
        let nontrivial = !c.fam.starts_with("malformed_") && passes.iter().any(|p| !p.1.is_empty());
        w.push(coq, json, &key, nontrivial, &c.fam);
        *w.dist.entry(c.pfam.clone()).or_insert(0) += 1;
        *w.dist.entry(c.wfam.clone()).or_insert(0) += 1;
        if hangs > 0 {
            // tracing was switched off and a thread is still spinning: the case is reported, stop here
            break;
        }
    }
    w.finish(&format!(
        "\"hangs\":{},\"panics\":{},\"partition_changed\":{},\"passes\":{},\"moves\":{},\"rewound_moves\":{},\"huge_partition_changed\":{},\"exact_cap_exceeded\":{},\"exact_cap_exceeded_at\":[{}]",
        hangs, panics, changed, total_passes, total_moves, rewound, huge_moved, exact_exceeded, exact_exceeded_at.join(",")
    ));
}

//! C09: HilbertCurve / ZCurve vs Model/SfcPart.v, and the standard library's
//! binary search vs Lib/Sorting.v — case generator and runner.
//!
//! Three streams (family prefix): `bs/…` (slice::binary_search on random
//! UNSORTED arrays), `hil/…`, `z/…`.  The per-point curve indices, the split
//! positions, the quadrant codes and the final permutation are the values the
//! run itself used, recorded by the `coupe_verif` hooks.
use coupe::Partition as _;
use coupe::{Point2D, Point3D};
use std::cmp::Ordering;
use std::time::Duration;
use verif_harness::*;

const POOLS: [usize; 5] = [1, 2, 4, 8, 16];

// ------------------------------------------------------------------ inputs

/// Point coordinates, `dim` = 2 or 3 (the third coordinate is ignored in 2-D).
fn gen_points(r: &mut Rng, dim: usize, big: bool) -> (&'static str, Vec<[f64; 3]>) {
    let nmax = if big { 64 } else { 40 };
    let n = match r.below(12) {
        0 => r.below(3) as usize,          // 0, 1, 2
        1 | 2 => r.range(3, 8) as usize,
        _ => r.range(3, nmax) as usize,
    };
    let dy = |r: &mut Rng, span: u64| (r.below(span * 64) as f64) / 64.0 - (span as f64) / 2.0;
    let mut pts: Vec<[f64; 3]> = Vec::with_capacity(n);
    let fam = r.below(8);
    let name = match fam {
        0 => {
            for _ in 0..n {
                pts.push([dy(r, 200), dy(r, 200), dy(r, 200)]);
            }
            "uniform"
        }
        1 => {
            let c = r.range(1, 4) as usize;
            let centres: Vec<[f64; 3]> = (0..c).map(|_| [dy(r, 1000), dy(r, 1000), dy(r, 1000)]).collect();
            for _ in 0..n {
                let k = *r.pick(&centres);
                pts.push([k[0] + dy(r, 2), k[1] + dy(r, 2), k[2] + dy(r, 2)]);
            }
            "clustered"
        }
        2 => {
            // collinear: axis-aligned or oblique line
            let (a, b, c) = match r.below(3) {
                0 => (1.0, 0.0, 0.0),
                1 => (1.0, 1.0, 1.0),
                _ => (1.0, r.range(-3, 3) as f64, r.range(-3, 3) as f64 / 2.0),
            };
            for _ in 0..n {
                let t = if r.chance(1, 2) { r.range(-50, 50) as f64 } else { dy(r, 100) };
                pts.push([a * t, b * t + 1.0, c * t - 2.0]);
            }
            "collinear"
        }
        3 => {
            let p = [dy(r, 100), dy(r, 100), dy(r, 100)];
            for _ in 0..n {
                pts.push(p);
            }
            "coincident"
        }
        4 => {
            // lattice, row by row, unit or dyadic spacing
            let side = (1..).find(|s: &usize| s.pow(dim as u32) >= n.max(1)).unwrap();
            let h = *r.pick(&[1.0, 0.5, 3.0]);
            let mut k = 0;
            'outer: for z in 0..(if dim == 3 { side } else { 1 }) {
                for y in 0..side {
                    for x in 0..side {
                        if k >= n {
                            break 'outer;
                        }
                        pts.push([x as f64 * h, y as f64 * h, z as f64 * h]);
                        k += 1;
                    }
                }
            }
            "lattice"
        }
        5 => {
            let d = r.range(1, 4) as usize;
            let distinct: Vec<[f64; 3]> = (0..d).map(|_| [dy(r, 50), dy(r, 50), dy(r, 50)]).collect();
            for _ in 0..n {
                pts.push(*r.pick(&distinct));
            }
            "duplicates"
        }
        6 => {
            for _ in 0..n {
                pts.push([dy(r, 4), dy(r, 4), dy(r, 4)]);
            }
            if n > 0 {
                let i = r.below(n as u64) as usize;
                pts[i] = [1.0e6, -3.0e5, 7.0e5];
            }
            "one_outlier"
        }
        _ => {
            // arbitrary finite doubles of mixed magnitude
            for _ in 0..n {
                let f = |r: &mut Rng| {
                    let m = (r.below(1 << 30) as f64) / ((1u64 << 30) as f64) - 0.5;
                    m * (10.0f64).powi(r.range(-3, 6) as i32)
                };
                pts.push([f(r), f(r), f(r)]);
            }
            "mixed_magnitude"
        }
    };
    if dim == 2 {
        for p in pts.iter_mut() {
            p[2] = 0.0;
        }
    }
    (name, pts)
}

/// Product lattices whose cell midlines are hit exactly: coordinates `i * h` (h = 0.1 or
/// 0.25), every axis spans zero with bounds of magnitude 8..64, the span of an axis is
/// `2^L` equal steps and the points sit on the step boundaries (the midlines of levels
/// < L).  Full grids are symmetric about their centre (axis-aligned bounding box; exact
/// for h = 0.25); the subset variant keeps the corners.
fn gen_midline(r: &mut Rng, dim: usize) -> (&'static str, Vec<[f64; 3]>) {
    let shapes2: [[usize; 3]; 6] = [[9, 5, 1], [9, 3, 1], [5, 5, 1], [5, 3, 1], [3, 3, 1], [17, 3, 1]];
    let shapes3: [[usize; 3]; 4] = [[5, 3, 3], [3, 3, 3], [9, 3, 2], [5, 5, 2]];
    let mut shape = if dim == 2 { *r.pick(&shapes2) } else { *r.pick(&shapes3) };
    if r.chance(1, 3) {
        shape.swap(0, 1); // the longest axis is not always the first
    }
    let h = *r.pick(&[0.1f64, 0.1, 0.25]);
    // mostly bounds of magnitude 16..32: there an ulp exceeds the 10*EPSILON tolerance of
    // `contains` while the tolerance itself is still effective (it is void from 32 on)
    let window = r.chance(2, 3);
    let mut axes: Vec<Vec<f64>> = Vec::new();
    let mut last_span = 0i64;
    for d in 0..3 {
        if d >= dim {
            axes.push(vec![0.0]);
            continue;
        }
        let cnt = shape[d];
        let steps = (cnt - 1).max(1) as i64;
        loop {
            let (lo, hi) = if window {
                (r.range(160, 319) as f64 / 10.0, r.range(80, 319) as f64 / 10.0)
            } else {
                (r.range(8, 64) as f64, r.range(8, 64) as f64)
            };
            let a = -(lo / h).round() as i64;
            let mut b = (hi / h).round() as i64;
            b += (steps - (b - a) % steps) % steps;
            // longer axes get longer spans (a unique principal axis)
            let span = b - a;
            if d > 0 && (span - last_span).abs() * 10 < last_span {
                continue;
            }
            last_span = span;
            let m = span / steps;
            axes.push((0..cnt as i64).map(|j| (a + j * m) as f64 * h).collect());
            break;
        }
    }
    let mut pts = Vec::new();
    for z in &axes[2] {
        for y in &axes[1] {
            for x in &axes[0] {
                pts.push([*x, *y, *z]);
            }
        }
    }
    let name = if r.chance(1, 4) {
        // subset keeping the corners (first and last point of the grid at least)
        let n = pts.len();
        let keep: Vec<bool> = (0..n).map(|i| i == 0 || i == n - 1 || r.chance(2, 3)).collect();
        let mut k = 0;
        pts.retain(|_| {
            k += 1;
            keep[k - 1]
        });
        if h == 0.1 { "midline_subset_0.1" } else { "midline_subset_0.25" }
    } else if h == 0.1 {
        "midline_grid_0.1"
    } else {
        "midline_grid_0.25"
    };
    (name, pts)
}

/// Deep orders (round 5): clusters of points that differ only in quadrant digits below f64's
/// 53 significant bits of the box extent -- possible next to a ZERO coordinate of the box frame,
/// where f64 resolves 2^-60 and less.  The cluster lies on the x axis at `k * 2^-e`; pairs of
/// points symmetric about the axis fix the box and keep the inertia matrix exactly diagonal (the
/// frame is the input frame); the input order is shuffled.  Returns (name, points, order).
fn gen_deep(r: &mut Rng, dim: usize) -> (&'static str, Vec<[f64; 3]>, u32) {
    let max_order: u32 = if dim == 2 { 64 } else { 42 };
    let order = if dim == 2 { r.range(54, 64) as u32 } else { r.range(40, 42) as u32 };
    // cell size at the requested depth is 2^-order of the x extent; the points differ in the last levels
    let e = (order as i32 - r.below(3) as i32).max(if dim == 2 { 54 } else { 38 }).min(max_order as i32);
    let (name, xlo, xhi): (&'static str, f64, f64) = match r.below(3) {
        0 => ("deep_min_corner", 0.0, 1.0),   // zero = the box's min corner
        1 => ("deep_centre", -1.0, 1.0),      // zero = a level-1 cell corner inside the box
        _ => ("deep_quarter", -1.0, 3.0),     // zero = a level-2 cell corner
    };
    let cnt = r.range(8, 16) as i64;
    let unit = 2.0f64.powi(-e);
    let mut pts: Vec<[f64; 3]> = Vec::new();
    for k in 0..cnt {
        let kk = if xlo < 0.0 { k - cnt / 2 } else { k };
        pts.push([kk as f64 * unit, 0.0, 0.0]);
    }
    if r.chance(1, 2) {
        let j = r.below(cnt as u64) as usize;
        let d = pts[j];
        pts.push(d); // a duplicate: equal cells stay equal
    }
    // the box: extreme points on the axis, and symmetric pairs off the axis
    pts.push([xlo, 0.0, 0.0]);
    pts.push([xhi, 0.0, 0.0]);
    let xm = (xlo + xhi) / 2.0;
    pts.push([xm, 0.125, 0.0]);
    pts.push([xm, -0.125, 0.0]);
    if dim == 3 {
        pts.push([xm, 0.0, 0.0625]);
        pts.push([xm, 0.0, -0.0625]);
    }
    for i in (1..pts.len()).rev() {
        let j = r.below(i as u64 + 1) as usize;
        pts.swap(i, j);
    }
    (name, pts, order)
}

fn gen_weights(r: &mut Rng, n: usize) -> (&'static str, Vec<f64>) {
    match r.below(8) {
        0 => ("ones", vec![1.0; n]),
        1 => ("integer", (0..n).map(|_| r.range(1, 10) as f64).collect()),
        2 => ("dyadic", (0..n).map(|_| r.range(1, 80) as f64 / 8.0).collect()),
        3 => ("zeros_mixed", (0..n).map(|_| if r.chance(1, 2) { 0.0 } else { r.range(1, 5) as f64 }).collect()),
        4 => ("all_zero", vec![0.0; n]),
        5 => {
            let mut w: Vec<f64> = (0..n).map(|_| r.range(1, 4) as f64).collect();
            if n > 0 {
                let i = r.below(n as u64) as usize;
                w[i] = *r.pick(&[1000.0, 100000.0, 64.0]);
            }
            ("one_dominant", w)
        }
        6 => ("tenths", (0..n).map(|_| r.range(1, 30) as f64 * 0.1).collect()),
        _ => ("fractional", (0..n).map(|_| (r.below(1 << 40) as f64) / 1.0e9 + 1.0e-3).collect()),
    }
}

/// every partial sum of the weights, in any association, is exact: all weights are integer
/// multiples of one power of two 2^e and at most 2^(e+40), fewer than 4096 of them
fn weights_exact(ws: &[f64]) -> bool {
    // w = m * 2^k with m odd (k = exponent of the lowest set bit)
    let low = |w: f64| -> i32 {
        let b = w.to_bits();
        let (m, e) = if (b >> 52) & 0x7ff == 0 { (b & ((1 << 52) - 1), -1074) } else { ((b & ((1 << 52) - 1)) | (1 << 52), ((b >> 52) & 0x7ff) as i32 - 1075) };
        e + m.trailing_zeros() as i32
    };
    if ws.len() >= 4096 || !ws.iter().all(|w| w.is_finite() && *w >= 0.0) {
        return false;
    }
    let nz: Vec<f64> = ws.iter().cloned().filter(|w| *w > 0.0).collect();
    if nz.is_empty() {
        return true;
    }
    let e = nz.iter().map(|w| low(*w)).min().unwrap();
    // every weight < 2^(e+41): top exponent of w is floor(log2 w)
    nz.iter().all(|w| {
        let b = w.to_bits();
        let top = if (b >> 52) & 0x7ff == 0 { -1074 + (63 - (b & ((1 << 52) - 1)).leading_zeros() as i32) } else { ((b >> 52) & 0x7ff) as i32 - 1023 };
        top - e <= 40
    })
}

fn json_f64s(xs: &[f64]) -> String {
    let v: Vec<String> = xs.iter().map(|x| format!("{:?}", x)).collect();
    format!("[{}]", v.join(","))
}
fn json_u64s(xs: &[u64]) -> String {
    let v: Vec<String> = xs.iter().map(|x| x.to_string()).collect();
    format!("[{}]", v.join(","))
}
fn json_points(pts: &[[f64; 3]], dim: usize) -> String {
    let v: Vec<String> = pts.iter().map(|p| json_f64s(&p[..dim])).collect();
    format!("[{}]", v.join(","))
}

/// `IOk ids | IErr 4 max actual | IPanic | IHang`
fn coq_impl(r: &Guarded<Result<Vec<usize>, (u32, u32)>>) -> String {
    match r {
        Guarded::Done(Ok(p)) => format!("(IOk {})", coq_nlist(p.iter().map(|x| *x as u128))),
        Guarded::Done(Err((max, actual))) => format!("(IErr 4 {} {})", max, actual),
        Guarded::Panic(_) => "IPanic".to_string(),
        Guarded::Hang => "IHang".to_string(),
    }
}
fn json_impl(r: &Guarded<Result<Vec<usize>, (u32, u32)>>) -> String {
    match r {
        Guarded::Done(Ok(p)) => format!("{{\"ok\":{}}}", json_usizes(p)),
        Guarded::Done(Err((max, actual))) => format!("{{\"err\":\"InvalidOrder max={} actual={}\"}}", max, actual),
        Guarded::Panic(m) => format!("{{\"panic\":{}}}", json_str(m)),
        Guarded::Hang => "{\"hang\":true}".to_string(),
    }
}

fn take(recs: &[(&'static str, Vec<u64>)], name: &str) -> Vec<u64> {
    recs.iter().rev().find(|(k, _)| *k == name).map(|(_, v)| v.clone()).unwrap_or_default()
}

// ------------------------------------------------------------------ streams

struct Out {
    coq: String,
    json: String,
    key: String,
    nontrivial: bool,
    family: String,
    hang: bool,
    panic: bool,
}

fn case_bsearch(r: &mut Rng) -> Out {
    let n = match r.below(12) {
        0 => 0,
        1 => 1,
        2 => 2,
        3 => r.range(41, 300) as usize,   // more iterations of the loop
        _ => r.range(3, 40) as usize,
    };
    let alphabet: u64 = *r.pick(&[3, 8, 50, 1 << 20, u64::MAX]);
    let mut a: Vec<u64> = (0..n).map(|_| r.below(alphabet)).collect();
    let fam = match r.below(6) {
        0 => {
            a.sort();
            "sorted"
        }
        1 => {
            a.sort();
            a.reverse();
            "reversed"
        }
        2 => {
            let v = r.below(alphabet);
            a.iter_mut().for_each(|x| *x = v);
            "constant"
        }
        3 => {
            // sorted except for a few swaps (what weighted_quantiles returns at times)
            a.sort();
            for _ in 0..r.below(3) + 1 {
                if n >= 2 {
                    let i = r.below(n as u64) as usize;
                    let j = r.below(n as u64) as usize;
                    a.swap(i, j);
                }
            }
            "nearly_sorted"
        }
        _ => "unsorted",
    };
    let k = if n > 0 && r.chance(1, 2) {
        let x = a[r.below(n as u64) as usize];
        match r.below(3) {
            0 => x,
            1 => x.wrapping_add(1),
            _ => x.wrapping_sub(1),
        }
    } else {
        r.below(alphabet)
    };
    let (ok, i) = match a.binary_search(&k) {
        Ok(i) => (true, i),
        Err(i) => (false, i),
    };
    let (Ok(pc) | Err(pc)) = a.binary_search_by(|x| if *x < k { Ordering::Less } else { Ordering::Greater });
    Out {
        coq: format!("CBs {} {}%N {} {}%N {}%N", coq_nlist(a.iter().map(|x| *x as u128)), k, coq_bool(ok), i, pc),
        json: format!(
            "{{\"stream\":\"bsearch\",\"array\":{},\"key\":{},\"binary_search\":\"{}({})\",\"by_partial_cmp\":{}}}",
            json_u64s(&a), k, if ok { "Ok" } else { "Err" }, i, pc
        ),
        key: format!("bs|{:?}|{}", a, k),
        nontrivial: n >= 2,
        family: format!("bs/{}", fam),
        hang: false,
        panic: false,
    }
}

fn pick_order(r: &mut Rng, max: u32) -> u32 {
    match r.below(20) {
        0 => max + 1,                 // rejected
        1 => max,
        2 => 0,
        3 | 4 => r.range(0, max as i64) as u32,
        5 => max - 1,
        _ => r.range(1, 7) as u32,
    }
}

/// Tiny total weights (round 4): before the repair of `weighted_quantiles` (absolute epsilon in
/// `approx::abs_diff_eq!`) HilbertCurve did not return when the total weight was of the order of
/// f64::EPSILON or below (Proofs/WqNonTermination.v).  The family is part of every run: against
/// the unrepaired code it yields hangs (= failing inputs).
fn case_hilbert(r: &mut Rng, big: bool) -> Out {
    let dim = if r.chance(1, 2) { 2 } else { 3 };
    let tiny = r.chance(1, 25);
    let (pfam, pts) = if tiny {
        let n = r.range(3, 9) as usize;
        ("tiny", (0..n).map(|_| [r.below(8) as f64, r.below(8) as f64, if dim == 3 { r.below(8) as f64 } else { 0.0 }]).collect::<Vec<_>>())
    } else {
        gen_points(r, dim, big)
    };
    let n = pts.len();
    let (wfam, ws) = if tiny {
        // power-of-two scales keep the sums exact (full model compared); decimal ones do not
        let (name, scale) = *r.pick(&[
            ("tiny_2^-55", 2.0f64.powi(-55)), ("tiny_2^-60", 2.0f64.powi(-60)), ("tiny_2^-1000", 2.0f64.powi(-1000)),
            ("tiny_subnormal", f64::from_bits(1)), ("tiny_1e-16", 1.0e-16), ("tiny_1e-17", 1.0e-17), ("tiny_1e-300", 1.0e-300),
        ]);
        (name, (0..n).map(|_| scale * (1 + r.below(9)) as f64).collect::<Vec<_>>())
    } else {
        gen_weights(r, n)
    };
    let part_count = if tiny { r.range(3, 8) as usize } else { r.range(1, n as i64 + 2) as usize };
    let max_order = if dim == 2 { 32 } else { 21 };
    let order = if tiny { r.range(1, 3) as u32 } else { pick_order(r, max_order) };
    let threads = *r.pick(&POOLS);
    // malformed stream (outside the contract; HilbertCurve does not check lengths, the model
    // follows its zips): weights / ids shorter or longer than the points
    let mut ws = ws;
    let mut plen = n;
    let mut malformed = false;
    if !tiny && r.chance(1, 15) {
        malformed = true;
        match r.below(4) {
            0 => ws.truncate(n.saturating_sub(1 + r.below(2) as usize)),
            1 => ws.extend((0..1 + r.below(2)).map(|_| 1.0)),
            2 => plen = n + 1 + r.below(2) as usize,
            _ => plen = n.saturating_sub(1 + r.below(2) as usize),
        }
    }
    let exact = weights_exact(&ws);
    let p0: Vec<usize> = vec![usize::MAX; plen];

    let _ = coupe::verif::drain();
    let (pts2, ws2, p02) = (pts.clone(), ws.clone(), p0.clone());
    let res = guarded(threads, Duration::from_secs(if tiny { 8 } else { 20 }), move || {
        let mut p = p02;
        let mut alg = coupe::HilbertCurve { part_count, order };
        let r = if dim == 2 {
            let v: Vec<Point2D> = pts2.iter().map(|q| Point2D::new(q[0], q[1])).collect();
            alg.partition(&mut p, (&v[..], &ws2[..]))
        } else {
            let v: Vec<Point3D> = pts2.iter().map(|q| Point3D::new(q[0], q[1], q[2])).collect();
            alg.partition(&mut p, (&v[..], &ws2[..]))
        };
        match r {
            Ok(()) => Ok(p),
            Err(coupe::HilbertCurveError::InvalidOrder { max, actual }) => Err((max, actual)),
            #[allow(unreachable_patterns)]
            Err(_) => Err((u32::MAX, u32::MAX)),
        }
    });
    let recs = coupe::verif::drain();
    let idx = take(&recs, "hilbert_indices");
    let splits = take(&recs, "hilbert_splits");

    let coq = format!(
        "CHil {} {} {} {} {} {} {} {} {} {}",
        dim,
        order,
        part_count,
        n,
        coq_nlist(ws.iter().map(|w| w.to_bits() as u128)),
        coq_bool(exact),
        coq_nlist(idx.iter().map(|x| *x as u128)),
        coq_nlist(splits.iter().map(|x| *x as u128)),
        coq_nlist(p0.iter().map(|x| *x as u128)),
        coq_impl(&res)
    );
    let json = format!(
        "{{\"stream\":\"hilbert\",\"dim\":{},\"points\":{},\"weights\":{},\"ids_len\":{},\"part_count\":{},\"order\":{},\"threads\":{},\"exact_sums\":{},\"hilbert_indices\":{},\"hilbert_splits\":{},\"impl\":{}}}",
        dim, json_points(&pts, dim), json_f64s(&ws), plen, part_count, order, threads, exact,
        json_u64s(&idx), json_u64s(&splits), json_impl(&res)
    );
    Out {
        coq,
        json,
        key: format!("hil|{}|{:?}|{:?}|{}|{}|{}|{}", dim, pts, ws, plen, part_count, order, threads),
        nontrivial: n >= 3 && part_count >= 2 && order <= max_order && !malformed,
        family: format!("hil/{}d/{}/{}{}", dim, pfam, wfam, if malformed { "/len_mismatch" } else { "" }),
        hang: matches!(res, Guarded::Hang),
        panic: matches!(res, Guarded::Panic(_)),
    }
}

fn case_zcurve(r: &mut Rng, big: bool) -> Out {
    let dim = if r.chance(1, 2) { 2 } else { 3 };
    let deep = r.chance(1, 40);
    let midline = !deep && r.chance(1, 3);
    let mut deep_order = 0u32;
    let (pfam, pts) = if deep {
        let (nm, p, o) = gen_deep(r, dim);
        deep_order = o;
        (nm, p)
    } else if midline {
        gen_midline(r, dim)
    } else {
        gen_points(r, dim, big)
    };
    let n = pts.len();
    // part_count 1..n+2; 0 (division by zero, outside the contract) once in a while
    let mut part_count = if r.chance(1, 50) { 0 } else { r.range(1, n as i64 + 2) as usize };
    let max_order = if dim == 2 { 64 } else { 42 };
    let mut order = pick_order(r, max_order);
    if deep {
        // part boundaries inside the cluster
        part_count = r.range(3, (n as i64 / 2).max(3)) as usize;
        order = deep_order;
    } else if midline {
        // part boundaries inside cells, a few levels of refinement
        part_count = r.range(2, (n as i64 / 2).max(2)) as usize;
        order = r.range(2, 9) as u32;
    } else if n > 16 && order > 16 && order <= max_order {
        // (evaluation cost of the box arithmetic in Coq ~ n * order)
        order = 2 + r.below(14) as u32;
    }
    let threads = *r.pick(&POOLS);
    let p0: Vec<usize> = vec![usize::MAX; n];

    let _ = coupe::verif::drain();
    let (pts2, p02) = (pts.clone(), p0.clone());
    let res: Guarded<Result<Vec<usize>, (u32, u32)>> = guarded(threads, Duration::from_secs(20), move || {
        let mut p = p02;
        let mut alg = coupe::ZCurve { part_count, order };
        if dim == 2 {
            let v: Vec<Point2D> = pts2.iter().map(|q| Point2D::new(q[0], q[1])).collect();
            alg.partition(&mut p, &v[..]).unwrap();
        } else {
            let v: Vec<Point3D> = pts2.iter().map(|q| Point3D::new(q[0], q[1], q[2])).collect();
            alg.partition(&mut p, &v[..]).unwrap();
        }
        Ok(p)
    });
    let recs = coupe::verif::drain();
    let perm = take(&recs, "zcurve_perm");
    let codes = take(&recs, "zcurve_codes");
    let aabb = take(&recs, "zcurve_aabb");
    let rot = take(&recs, "zcurve_rotated");
    let rot_per: Vec<String> = rot.chunks(dim).map(|c| format!("[{}]", c.iter().map(|x| x.to_string()).collect::<Vec<_>>().join(";"))).collect();
    let per: Vec<String> = if order == 0 {
        (0..perm.len()).map(|_| "[]".to_string()).collect()
    } else {
        codes.chunks(order as usize).map(|c| format!("[{}]", c.iter().map(|x| x.to_string()).collect::<Vec<_>>().join(";"))).collect()
    };
    let coq = format!(
        "CZ {} {} {} {} ([{}] : list (list N)) {} {} ([{}] : list (list N)) {} {}",
        dim,
        order,
        part_count,
        n,
        per.join(";"),
        coq_nlist(perm.iter().map(|x| *x as u128)),
        coq_nlist(aabb.iter().map(|x| *x as u128)),
        rot_per.join(";"),
        coq_nlist(p0.iter().map(|x| *x as u128)),
        coq_impl(&res)
    );
    let json = format!(
        "{{\"stream\":\"zcurve\",\"dim\":{},\"points\":{},\"part_count\":{},\"order\":{},\"threads\":{},\"zcurve_perm\":{},\"zcurve_codes_flat\":{},\"zcurve_aabb\":{},\"zcurve_rotated\":{},\"impl\":{}}}",
        dim, json_points(&pts, dim), part_count, order, threads, json_u64s(&perm), json_u64s(&codes),
        json_f64s(&aabb.iter().map(|b| f64::from_bits(*b)).collect::<Vec<_>>()),
        json_f64s(&rot.iter().map(|b| f64::from_bits(*b)).collect::<Vec<_>>()), json_impl(&res)
    );
    Out {
        coq,
        json,
        key: format!("z|{}|{:?}|{}|{}|{}", dim, pts, part_count, order, threads),
        nontrivial: n >= 3 && part_count >= 2 && order <= max_order,
        family: format!("z/{}d/{}", dim, pfam),
        hang: matches!(res, Guarded::Hang),
        panic: matches!(res, Guarded::Panic(_)),
    }
}

fn main() {
    let a = parse_args();
    quiet_panics();
    coupe::verif::trace_enable(true);
    let big = a.tier == "thorough";
    let mut rng = Rng::new(a.seed);
    let mut w = CaseWriter::new(
        &a.out,
        "From Coupe Require Import Lib.Prelude Lib.Report Run.RunC09.\nOpen Scope N_scope.",
        "case09",
        "run09",
        100,
    );
    let (mut hangs, mut panics) = (0usize, 0usize);
    for idx in 0..a.cases {
        let mut r = rng.fork();
        if let Some(o) = a.only {
            if o != idx {
                continue;
            }
        }
        let o = match idx % 8 {
            0 => case_bsearch(&mut r),
            1 | 2 | 3 | 4 => case_hilbert(&mut r, big),
            _ => case_zcurve(&mut r, big),
        };
        hangs += o.hang as usize;
        panics += o.panic as usize;
        w.push(o.coq, o.json, &o.key, o.nontrivial, &o.family);
        if hangs > 3 {
            break;
        }
    }
    w.finish(&format!("\"hangs\":{},\"panics\":{}", hangs, panics));
}

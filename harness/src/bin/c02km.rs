//! C02 (k-means part): the concrete model Model/KMeans.v against the real
//! `KMeans::partition` under every pool size; the C02 clauses (no panic, no
//! hang, length kept, no id above the input's maximum) judged on every output.
#[path = "../kmeans_common.rs"]
mod kmeans_common;

fn main() {
    kmeans_common::drive(
        "From Coupe Require Import Lib.Prelude Lib.Report Run.RunKM.",
        "run02km",
    );
}

//! C14: VnBest and VnFirst vs Model/Vn.v — case generator and runner.
use coupe::Partition as _;
use std::time::Duration;
use verif_harness::*;

fn gen_weights(r: &mut Rng, big: bool) -> (&'static str, Vec<i64>) {
    let maxn = if big { 36 } else { 20 };
    match r.below(10) {
        0 => {
            let n = r.range(1, 7) as usize;
            ("small_alphabet", (0..n).map(|_| r.range(0, 4)).collect())
        }
        1 => {
            let n = r.range(2, maxn) as usize;
            ("random", (0..n).map(|_| r.range(0, 100)).collect())
        }
        2 => {
            let n = r.range(2, maxn) as usize;
            let v = r.range(1, 9);
            ("ties", (0..n).map(|_| if r.chance(4, 5) { v } else { r.range(0, 9) }).collect())
        }
        3 => {
            let n = r.range(2, 14) as usize;
            let mut ws: Vec<i64> = (0..n).map(|_| r.range(0, 10)).collect();
            let i = r.below(n as u64) as usize;
            ws[i] = r.range(50, 1000);
            ("one_dominant", ws)
        }
        4 => {
            let n = r.range(1, 14) as usize;
            ("zeros", (0..n).map(|_| if r.chance(2, 3) { 0 } else { r.range(0, 5) }).collect())
        }
        5 => {
            let n = r.range(1, 12) as usize;
            let v = r.range(0, 7);
            ("all_equal", vec![v; n])
        }
        6 => {
            let n = r.range(2, 12) as usize;
            ("large_values", (0..n).map(|_| r.range(0, 1 << 40)).collect())
        }
        7 => {
            let n = r.range(3, maxn) as usize;
            let a = r.range(1, 4);
            let b = a * r.range(2, 3);
            ("two_values", (0..n).map(|_| if r.chance(1, 2) { a } else { b }).collect())
        }
        8 => {
            // odd gaps: the halved imbalance is not an integer (i64 truncates, f64 does not)
            let n = r.range(2, 12) as usize;
            ("odd", (0..n).map(|_| 2 * r.range(0, 8) + 1).collect())
        }
        _ => {
            let n = r.range(1, 8) as usize;
            let mut ws: Vec<i64> = (0..n).map(|_| r.range(0, 9)).collect();
            let i = r.below(n as u64) as usize;
            ws[i] = -r.range(1, 9);
            ("negative", ws)
        }
    }
}

/// initial partitions: balanced, unbalanced, one-sided, tied extreme parts; mostly valid
/// (every id from 0 to the maximum used), sometimes with unused ids
fn gen_partition(r: &mut Rng, n: usize) -> (&'static str, Vec<usize>) {
    let k = r.range(2, 8) as usize;
    let (name, mut p): (&str, Vec<usize>) = match r.below(6) {
        0 => ("uniform", (0..n).map(|_| r.below(k as u64) as usize).collect()),
        1 => ("one_sided", (0..n).map(|_| if r.chance(5, 6) { 0 } else { r.below(k as u64) as usize }).collect()),
        2 => ("round_robin", (0..n).map(|i| i % k).collect()),
        3 => ("all_in_last", vec![k - 1; n]),
        4 => ("two_heavy", (0..n).map(|_| if r.chance(1, 2) { 0 } else { k - 1 }).collect()),
        _ => ("single_part", vec![0; n]),
    };
    // make it valid (all ids up to the maximum used) most of the time, when there is room
    if r.chance(4, 5) && n >= k && name != "single_part" {
        let mut pos: Vec<usize> = (0..n).collect();
        for i in (1..n).rev() {
            let j = r.below(i as u64 + 1) as usize;
            pos.swap(i, j);
        }
        for q in 0..k {
            p[pos[q]] = q;
        }
    }
    (name, p)
}

type Out = (Result<usize, coupe::Error>, Vec<usize>);

fn main() {
    let a = parse_args();
    quiet_panics();
    let mut rng = Rng::new(a.seed);
    let mut w = CaseWriter::new(
        &a.out,
        "From Coupe Require Import Lib.Prelude Lib.Report Run.RunC14.",
        "case14",
        "run14",
        250,
    );
    let mut hangs = 0usize;
    let mut panics = 0usize;
    let mut f64_runs = 0usize;
    let mut moved = 0usize;
    for idx in 0..a.cases {
        let mut r = rng.fork();
        let big = a.tier == "thorough";
        let alg = r.below(2);
        let (wfam, ws) = gen_weights(&mut r, big);
        let n = ws.len();
        // malformed stream: partition length differs (shorter, longer, empty)
        let mut plen = n;
        if r.chance(1, 14) {
            plen = match r.below(3) {
                0 => 0,
                1 => n + 1 + r.below(3) as usize,
                _ => n.saturating_sub(1 + r.below(2) as usize),
            };
        }
        let (pfam, p0) = gen_partition(&mut r, plen);
        let flt = r.chance(1, 3);
        if let Some(o) = a.only {
            if o != idx {
                continue;
            }
        }
        let ws2 = ws.clone();
        let p02 = p0.clone();
        let res: Guarded<Out> = guarded(0, Duration::from_secs(20), move || {
            let mut p = p02;
            let r = if flt {
                let wf: Vec<f64> = ws2.iter().map(|x| *x as f64).collect();
                if alg == 0 {
                    coupe::VnBest.partition(&mut p, wf.iter().cloned())
                } else {
                    coupe::VnFirst.partition(&mut p, &wf[..])
                }
            } else if alg == 0 {
                coupe::VnBest.partition(&mut p, ws2.iter().cloned())
            } else {
                coupe::VnFirst.partition(&mut p, &ws2[..])
            };
            (r, p)
        });
        if flt {
            f64_runs += 1;
        }
        let (impl_coq, cnt, after, impl_json) = match &res {
            Guarded::Done((Ok(c), p)) => {
                if *p != p0 {
                    moved += 1;
                }
                (
                    format!("(IOk {})", coq_nlist(p.iter().map(|x| *x as u128))),
                    *c,
                    p.clone(),
                    format!("{{\"ok\":{},\"count\":{}}}", json_usizes(p), c),
                )
            }
            Guarded::Done((Err(e), p)) => (
                coq_err(e),
                0,
                p.clone(),
                format!("{{\"err\":{},\"after\":{}}}", json_str(&format!("{:?}", e)), json_usizes(p)),
            ),
            Guarded::Panic(m) => {
                panics += 1;
                ("IPanic".to_string(), 0, vec![], format!("{{\"panic\":{}}}", json_str(m)))
            }
            Guarded::Hang => {
                hangs += 1;
                ("IHang".to_string(), 0, vec![], "{\"hang\":true}".to_string())
            }
        };
        let coq = format!(
            "mk14 {}%N {} {} {} {} {}%N {}",
            alg,
            coq_bool(flt),
            coq_zlist(ws.iter().map(|x| *x as i128)),
            coq_nlist(p0.iter().map(|x| *x as u128)),
            impl_coq,
            cnt,
            coq_nlist(after.iter().map(|x| *x as u128)),
        );
        let json = format!(
            "{{\"algorithm\":\"{}\",\"f64\":{},\"weights\":{},\"partition\":{},\"impl\":{}}}",
            if alg == 0 { "VnBest" } else { "VnFirst" },
            flt,
            json_i64s(&ws),
            json_usizes(&p0),
            impl_json
        );
        let key = format!("{}|{}|{:?}|{:?}", alg, flt, ws, p0);
        // non-trivial: matching lengths, at least two parts in the input, at least 3 weights, not all zero
        let nontrivial = plen == n
            && n >= 3
            && p0.iter().any(|x| *x != 0)
            && ws.iter().any(|x| *x != 0);
        let _ = pfam;
        let fam = format!("{}:{}", if alg == 0 { "best" } else { "first" }, wfam);
        w.push(coq, json, &key, nontrivial, &fam);
        if hangs > 3 {
            break;
        }
    }
    w.finish(&format!(
        "\"hangs\":{},\"panics\":{},\"f64_runs\":{},\"moved\":{}",
        hangs, panics, f64_runs, moved
    ));
}

//! C14: VnBest and VnFirst vs Model/Vn.v — case generator and runner.
use coupe::Partition as _;
use std::time::Duration;
use verif_harness::*;

fn gen_weights(r: &mut Rng, big: bool) -> (&'static str, Vec<i64>) {
    let maxn = if big { 36 } else { 20 };
    match r.below(11) {
        10 => {
            // every weight <= 0, at least one negative and at least one zero (the maximum is exactly 0)
            let n = r.range(2, 9) as usize;
            let mut ws: Vec<i64> = (0..n).map(|_| if r.chance(1, 2) { 0 } else { -r.range(0, 9) }).collect();
            let i = r.below(n as u64) as usize;
            let j = (i + 1 + r.below(n as u64 - 1) as usize) % n;
            ws[i] = 0;
            ws[j] = -r.range(1, 9);
            ("nonpositive", ws)
        }
        0 => {
            let n = r.range(1, 7) as usize;
            ("small_alphabet", (0..n).map(|_| r.range(0, 4)).collect())
        }
        1 => {
            let n = r.range(2, maxn) as usize;
            ("random", (0..n).map(|_| r.range(0, 100)).collect())
        }
        2 => {
            let n = r.range(2, maxn) as usize;
            let v = r.range(1, 9);
            ("ties", (0..n).map(|_| if r.chance(4, 5) { v } else { r.range(0, 9) }).collect())
        }
        3 => {
            let n = r.range(2, 14) as usize;
            let mut ws: Vec<i64> = (0..n).map(|_| r.range(0, 10)).collect();
            let i = r.below(n as u64) as usize;
            ws[i] = r.range(50, 1000);
            ("one_dominant", ws)
        }
        4 => {
            let n = r.range(1, 14) as usize;
            ("zeros", (0..n).map(|_| if r.chance(2, 3) { 0 } else { r.range(0, 5) }).collect())
        }
        5 => {
            let n = r.range(1, 12) as usize;
            let v = r.range(0, 7);
            ("all_equal", vec![v; n])
        }
        6 => {
            let n = r.range(2, 12) as usize;
            ("large_values", (0..n).map(|_| r.range(0, 1 << 40)).collect())
        }
        7 => {
            let n = r.range(3, maxn) as usize;
            let a = r.range(1, 4);
            let b = a * r.range(2, 3);
            ("two_values", (0..n).map(|_| if r.chance(1, 2) { a } else { b }).collect())
        }
        8 => {
            // odd gaps: the halved imbalance is not an integer (i64 truncates, f64 does not)
            let n = r.range(2, 12) as usize;
            ("odd", (0..n).map(|_| 2 * r.range(0, 8) + 1).collect())
        }
        _ => {
            let n = r.range(1, 8) as usize;
            let mut ws: Vec<i64> = (0..n).map(|_| r.range(0, 9)).collect();
            let i = r.below(n as u64) as usize;
            ws[i] = -r.range(1, 9);
            ("negative", ws)
        }
    }
}

/// initial partitions: balanced, unbalanced, one-sided, tied extreme parts; mostly valid
/// (every id from 0 to the maximum used), sometimes with unused ids
fn gen_partition(r: &mut Rng, n: usize) -> (&'static str, Vec<usize>) {
    let k = r.range(2, 8) as usize;
    let (name, mut p): (&str, Vec<usize>) = match r.below(6) {
        0 => ("uniform", (0..n).map(|_| r.below(k as u64) as usize).collect()),
        1 => ("one_sided", (0..n).map(|_| if r.chance(5, 6) { 0 } else { r.below(k as u64) as usize }).collect()),
        2 => ("round_robin", (0..n).map(|i| i % k).collect()),
        3 => ("all_in_last", vec![k - 1; n]),
        4 => ("two_heavy", (0..n).map(|_| if r.chance(1, 2) { 0 } else { k - 1 }).collect()),
        _ => ("single_part", vec![0; n]),
    };
    // make it valid (all ids up to the maximum used) most of the time, when there is room
    if r.chance(4, 5) && n >= k && name != "single_part" {
        let mut pos: Vec<usize> = (0..n).collect();
        for i in (1..n).rev() {
            let j = r.below(i as u64 + 1) as usize;
            pos.swap(i, j);
        }
        for q in 0..k {
            p[pos[q]] = q;
        }
    }
    (name, p)
}

type Out = (Result<usize, coupe::Error>, Vec<usize>);

/// genuine binary64 weights: decimal fractions, mixed magnitudes, sums that round, ties between sums
fn gen_f64_weights(r: &mut Rng, big: bool) -> (&'static str, Vec<f64>) {
    let maxn = if big { 24 } else { 14 };
    match r.below(8) {
        0 => {
            let n = r.range(2, maxn) as usize;
            ("f64_tenths", (0..n).map(|_| r.range(0, 30) as f64 / 10.0).collect())
        }
        1 => {
            let n = r.range(2, maxn) as usize;
            ("f64_mixed_magnitudes", (0..n).map(|_| (r.range(0, 1000) as f64 / 1000.0) * 10f64.powi(r.range(-6, 6) as i32)).collect())
        }
        2 => {
            let n = r.range(2, maxn) as usize;
            ("f64_random_bits", (0..n).map(|_| f64::from_bits(0x3FF0_0000_0000_0000 + (r.next() >> 12)) - 1.0).collect())
        }
        3 => {
            let n = r.range(3, maxn) as usize;
            ("f64_ties", (0..n).map(|_| *r.pick(&[0.1, 0.2, 0.3, 0.30000000000000004, 0.7, 0.0, 1.1])).collect())
        }
        4 => {
            let n = r.range(2, 10) as usize;
            let mut ws: Vec<f64> = (0..n).map(|_| r.range(0, 100) as f64 / 7.0).collect();
            let i = r.below(n as u64) as usize;
            ws[i] = 1e15 + r.range(0, 1000) as f64 / 3.0;
            ("f64_one_dominant", ws)
        }
        5 => {
            let n = r.range(2, maxn) as usize;
            ("f64_thirds", (0..n).map(|_| r.range(0, 12) as f64 / 3.0).collect())
        }
        6 => {
            let n = r.range(2, 10) as usize;
            ("f64_small_decimals", (0..n).map(|_| r.range(1, 9) as f64 * 0.1).collect())
        }
        _ => {
            let n = r.range(1, 8) as usize;
            let mut ws: Vec<f64> = (0..n).map(|_| r.range(0, 9) as f64 / 4.0).collect();
            let i = r.below(n as u64) as usize;
            ws[i] = if r.chance(1, 4) { -0.0 } else { -(r.range(1, 9) as f64) / 8.0 };
            ("f64_negative", ws)
        }
    }
}

/// the generator shared with `gen14` of coq/Run/RunC14.v (large family)
fn lcg(x: u64) -> u64 {
    (x * 1103515245 + 12345) & 0x7fff_ffff
}
#[allow(clippy::too_many_arguments)]
fn gen_large(n: usize, k: usize, t: usize, wmax: u64, mult: u64, seed: u64, mode: u64) -> (Vec<i64>, Vec<usize>) {
    let mut x = seed;
    let mut ws = Vec::with_capacity(n);
    let mut ps = Vec::with_capacity(n);
    for i in 0..n {
        let tail = i >= n - t;
        x = lcg(x);
        let w_src = x;
        let mut w = 1 + (x >> 16) % wmax;
        if tail {
            w *= mult;
        }
        x = lcg(x);
        let r = x >> 16;
        let mut q = if mode == 0 {
            r % k as u64
        } else if tail {
            k as u64 - 1
        } else {
            r % (k as u64 - 1)
        };
        if mode == 2 {
            // many moves: heavy weights first (one per part), then `t` small weights all in part 0, then
            // small weights in random parts
            w = if i < k { mult } else { 1 + (w_src >> 16) % wmax };
            q = if i < k { i as u64 } else if i < k + t { 0 } else { r % k as u64 };
        }
        ws.push(w as i64);
        ps.push(q as usize);
    }
    (ws, ps)
}

fn exact_gap(ws: &[i64], p: &[usize], k: usize) -> (Vec<i128>, i128) {
    let mut l = vec![0i128; k];
    for (w, q) in ws.iter().zip(p) {
        if *q < k {
            l[*q] += *w as i128;
        }
    }
    let g = l.iter().max().unwrap() - l.iter().min().unwrap();
    (l, g)
}

/// One call on genuine f64 weights, on a rayon pool of ONE thread (fixed summation order in
/// compute_parts_load).  Prints the outcome; used in a child process for VnBest, whose loop may not end.
fn run_f64(alg: u64, wf: Vec<f64>, p0: Vec<usize>) -> Out {
    let pool = coupe::rayon::ThreadPoolBuilder::new().num_threads(1).build().unwrap();
    pool.install(move || {
        let mut p = p0;
        let r = if alg == 0 { coupe::VnBest.partition(&mut p, wf.iter().cloned()) } else { coupe::VnFirst.partition(&mut p, &wf[..]) };
        (r, p)
    })
}

fn child_main(args: &[String]) {
    // --child ALG BITS,.. P0,..
    let alg: u64 = args[0].parse().unwrap();
    let wf: Vec<f64> = args[1].split(',').filter(|x| !x.is_empty()).map(|x| f64::from_bits(x.parse().unwrap())).collect();
    let p0: Vec<usize> = args[2].split(',').filter(|x| !x.is_empty()).map(|x| x.parse().unwrap()).collect();
    let (r, p) = run_f64(alg, wf, p0);
    match r {
        Ok(n) => println!("OK {}", n),
        Err(e) => println!("ERR {}|{:?}", coq_err(&e), e),
    }
    println!("{}", p.iter().map(|x| x.to_string()).collect::<Vec<_>>().join(","));
}

/// VnBest on genuine f64 weights in a child process that can be killed (a hung thread cannot)
fn call_child(alg: u64, wf: &[f64], p0: &[usize], timeout: Duration) -> Guarded<(Result<usize, String>, Vec<usize>)> {
    let exe = std::env::current_exe().unwrap();
    let bits = wf.iter().map(|x| x.to_bits().to_string()).collect::<Vec<_>>().join(",");
    let ps = p0.iter().map(|x| x.to_string()).collect::<Vec<_>>().join(",");
    let mut ch = std::process::Command::new(exe)
        .args(["--child", &alg.to_string(), &bits, &ps])
        .stdout(std::process::Stdio::piped())
        .stderr(std::process::Stdio::null())
        .spawn()
        .unwrap();
    let t0 = std::time::Instant::now();
    loop {
        match ch.try_wait().unwrap() {
            Some(st) => {
                let mut out = String::new();
                use std::io::Read as _;
                ch.stdout.take().unwrap().read_to_string(&mut out).unwrap();
                if !st.success() {
                    return Guarded::Panic("child exited with a failure (panic)".to_string());
                }
                let mut lines = out.lines();
                let l1 = lines.next().unwrap_or("");
                let l2 = lines.next().unwrap_or("");
                let p: Vec<usize> = l2.split(',').filter(|x| !x.is_empty()).map(|x| x.parse().unwrap()).collect();
                return if let Some(n) = l1.strip_prefix("OK ") {
                    Guarded::Done((Ok(n.parse().unwrap()), p))
                } else {
                    Guarded::Done((Err(l1.strip_prefix("ERR ").unwrap_or(l1).to_string()), p))
                };
            }
            None => {
                if t0.elapsed() > timeout {
                    let _ = ch.kill();
                    let _ = ch.wait();
                    return Guarded::Hang;
                }
                std::thread::sleep(Duration::from_micros(300));
            }
        }
    }
}


/// the partitioner VALUE that outlives a call (`partition` takes `&mut self`)
#[derive(Clone, Copy)]
enum Part {
    B(coupe::VnBest),
    F(coupe::VnFirst),
}

/// float runs: the integer weights are multiplied by this scale (bit pattern of an f64; 1.0 by default) and,
/// when USE_REAL is set, wrapped in `coupe::Real` (set by the SCALE family only)
static SCALE_BITS: std::sync::atomic::AtomicU64 = std::sync::atomic::AtomicU64::new(0x3FF0_0000_0000_0000);
static USE_REAL: std::sync::atomic::AtomicBool = std::sync::atomic::AtomicBool::new(false);

/// 2^e as an f64, exactly (normal or subnormal)
fn pow2(e: i32) -> f64 {
    if e >= -1022 {
        f64::from_bits(((e + 1023) as u64) << 52)
    } else {
        f64::from_bits(1u64 << (e + 1074))
    }
}

fn call(part: Part, p0: Vec<usize>, ws: Vec<i64>, flt: bool) -> Guarded<(Out, Part)> {
    let scale = f64::from_bits(SCALE_BITS.load(std::sync::atomic::Ordering::SeqCst));
    let use_real = USE_REAL.load(std::sync::atomic::Ordering::SeqCst);
    guarded(0, Duration::from_secs(20), move || {
        let mut p = p0;
        let wf: Vec<f64> = ws.iter().map(|x| *x as f64 * scale).collect();
        if flt && use_real {
            let wr: Vec<coupe::Real> = wf.iter().map(|x| coupe::Real::from(*x)).collect();
            return match part {
                Part::B(mut v) => {
                    let r = v.partition(&mut p, wr.iter().cloned());
                    ((r, p), Part::B(v))
                }
                Part::F(mut v) => {
                    let r = v.partition(&mut p, &wr[..]);
                    ((r, p), Part::F(v))
                }
            };
        }
        match part {
            Part::B(mut v) => {
                let r = if flt { v.partition(&mut p, wf.iter().cloned()) } else { v.partition(&mut p, ws.iter().cloned()) };
                ((r, p), Part::B(v))
            }
            Part::F(mut v) => {
                let r = if flt { v.partition(&mut p, &wf[..]) } else { v.partition(&mut p, &ws[..]) };
                ((r, p), Part::F(v))
            }
        }
    })
}

struct Counters {
    hangs: usize,
    panics: usize,
    f64_runs: usize,
    moved: usize,
}

/// runs one call, returns (coq case, json of the implementation's outcome, array after the call if it returned)
fn one_call(
    part: &mut Option<Part>,
    alg: u64,
    flt: bool,
    ws: &[i64],
    p0: &[usize],
    c: &mut Counters,
) -> (String, String, Option<Vec<usize>>) {
    let res = match *part {
        Some(pt) => call(pt, p0.to_vec(), ws.to_vec(), flt),
        None => Guarded::Hang,
    };
    if flt {
        c.f64_runs += 1;
    }
    let mut after_ok = None;
    let (impl_coq, cnt, after, impl_json) = match res {
        Guarded::Done(((Ok(n), p), pt)) => {
            *part = Some(pt);
            if p != p0 {
                c.moved += 1;
            }
            after_ok = Some(p.clone());
            (
                format!("(IOk {})", coq_nlist(p.iter().map(|x| *x as u128))),
                n,
                p.clone(),
                format!("{{\"ok\":{},\"count\":{}}}", json_usizes(&p), n),
            )
        }
        Guarded::Done(((Err(e), p), pt)) => {
            *part = Some(pt);
            after_ok = Some(p.clone());
            (
                coq_err(&e),
                0,
                p.clone(),
                format!("{{\"err\":{},\"after\":{}}}", json_str(&format!("{:?}", e)), json_usizes(&p)),
            )
        }
        Guarded::Panic(m) => {
            c.panics += 1;
            *part = None;
            ("IPanic".to_string(), 0, vec![], format!("{{\"panic\":{}}}", json_str(&m)))
        }
        Guarded::Hang => {
            c.hangs += 1;
            *part = None;
            ("IHang".to_string(), 0, vec![], "{\"hang\":true}".to_string())
        }
    };
    let coq = format!(
        "mk14 {}%N {} {} {} {} {}%N {}",
        alg,
        coq_bool(flt),
        coq_zlist(ws.iter().map(|x| *x as i128)),
        coq_nlist(p0.iter().map(|x| *x as u128)),
        impl_coq,
        cnt,
        coq_nlist(after.iter().map(|x| *x as u128)),
    );
    (coq, impl_json, after_ok)
}

fn main() {
    let argv: Vec<String> = std::env::args().collect();
    if argv.len() >= 5 && argv[1] == "--child" {
        child_main(&argv[2..]);
        return;
    }
    let a = parse_args();
    quiet_panics();
    let mut rng = Rng::new(a.seed);
    let mut w = CaseWriter::new(
        &a.out,
        "From Coupe Require Import Lib.Prelude Lib.Report Run.RunC14.",
        "case14",
        "run14",
        250,
    );
    let mut c = Counters { hangs: 0, panics: 0, f64_runs: 0, moved: 0 };
    let mut reuse_sequences = 0usize;
    let mut reuse_calls = 0usize;
    let mut f64_genuine = 0usize;
    let mut f64_hangs = 0usize;
    let mut large = 0usize;
    let mut many = 0usize;
    let mut many_ge_1024 = 0usize;
    let mut scaled = 0usize;
    let big = a.tier == "thorough";
    let mut idx = 0usize;
    while idx < a.cases {
        let mut r = rng.fork();
        let alg = r.below(2);
        if r.chance(1, 500) || idx % 1000 == 7 {
            // ---- many-moves family: ONE VnBest run with 1100..5000 moves (one heavy weight per part that can
            // never move, then a surplus of small weights in part 0 that has to be moved away one by one, then
            // small weights in random parts), or 1100..2000 successive VnFirst calls on the same value (VnFirst
            // relabels one element per call).  Described to Coq like the large family (gen14, mode 2), judged
            // by the certified checker on the exact loads of the final array against the initial one.
            let k = r.range(2, 4) as usize;
            let wmax = *r.pick(&[1u64, 1, 3]);
            let target = if alg == 0 { r.range(1100, if wmax == 1 { 5000 } else { 2500 }) } else { r.range(1100, 2000) } as usize;
            let extra = if wmax == 1 { target * k / (k - 1) + 8 } else { 3 * k * target / (2 * (k - 1)) + 8 };
            let n = k + extra + r.range(500, 2000) as usize;
            let heavy = 1_000_000u64;
            let seed = r.below(1 << 31);
            let flt = r.chance(1, 3);
            let this = idx;
            idx += 1;
            if let Some(o) = a.only {
                if o != this {
                    continue;
                }
            }
            many += 1;
            let (ws, p0) = gen_large(n, k, extra, wmax, heavy, seed, 2);
            let mut part = if alg == 0 { Part::B(coupe::VnBest) } else { Part::F(coupe::VnFirst) };
            let calls = if alg == 0 { 1 } else { target };
            let mut cur = p0.clone();
            let mut moves = 0usize;
            let mut status = 0u64;
            let mut note = String::new();
            for _ in 0..calls {
                match call(part, cur.clone(), ws.clone(), flt) {
                    Guarded::Done(((Ok(cnt), p), pt)) => {
                        part = pt;
                        if alg == 0 {
                            moves = cnt;
                        } else if p != cur {
                            moves += 1;
                        }
                        let stop = p == cur;
                        cur = p;
                        if stop {
                            break;
                        }
                    }
                    Guarded::Done(((Err(e), _), _)) => {
                        status = 2;
                        note = format!("{:?}", e);
                        break;
                    }
                    Guarded::Panic(m) => {
                        c.panics += 1;
                        status = 3;
                        note = m;
                        break;
                    }
                    Guarded::Hang => {
                        c.hangs += 1;
                        status = 4;
                        break;
                    }
                }
            }
            if moves >= 1024 {
                many_ge_1024 += 1;
            }
            if flt {
                c.f64_runs += 1;
            }
            let diff: Vec<(usize, usize)> = if status == 0 && cur.len() == p0.len() {
                cur.iter().zip(&p0).enumerate().filter(|(_, (x, y))| x != y).map(|(i, (x, _))| (i, *x)).collect()
            } else {
                if status == 0 {
                    status = 2;
                }
                vec![]
            };
            if !diff.is_empty() {
                c.moved += 1;
            }
            let (l0, g0) = exact_gap(&ws, &p0, k);
            let (l1, g1) = exact_gap(&ws, &cur, k);
            let dcoq: Vec<String> = diff.iter().map(|(i, v)| format!("({},{})", i, v)).collect();
            let coq = format!(
                "mk14L {}%N {} {} {} {} {} {} {} 2 {} [{}]%N",
                alg, coq_bool(flt), n, k, extra, wmax, heavy, seed, status, dcoq.join(";")
            );
            let djson: Vec<String> = diff.iter().map(|(i, v)| format!("[{},{}]", i, v)).collect();
            let json = format!(
                "{{\"algorithm\":\"{}\",\"f64\":{},\"many_moves\":{{\"n\":{},\"parts\":{},\"surplus_in_part_0\":{},\"wmax\":{},\"heavy\":{},\"seed\":{},\"calls\":{},\"moves\":{},\"generator\":\"x=(x*1103515245+12345)&0x7fffffff twice per element; element i<parts: weight heavy, part i; next `surplus` elements: weight 1+(x1>>16)%wmax, part 0; rest: same weight rule, part (x2>>16)%parts\"}},\"weights\":{},\"partition\":{},\"output_diff\":[{}],\"impl\":{{\"status\":{},\"note\":{},\"loads_in\":{:?},\"gap_in\":{},\"loads_out\":{:?},\"gap_out\":{}}}}}",
                if alg == 0 { "VnBest" } else { "VnFirst (successive calls on one value)" },
                flt, n, k, extra, wmax, heavy, seed, calls, moves,
                json_i64s(&ws),
                json_usizes(&p0),
                djson.join(","),
                status, json_str(&note), l0, g0, l1, g1
            );
            let key = format!("many|{}|{}|{}|{}|{}|{}|{}", alg, flt, n, k, extra, wmax, seed);
            w.push(coq, json, &key, true, &format!("{}:many_moves", if alg == 0 { "best" } else { "first" }));
            continue;
        }
        if r.chance(1, 400) || idx % 800 == 3 {
            // ---- large family: more than 4096 weights, a length that is not a multiple of 4096, and in the
            // last len % 4096 positions enough weight to decide which part is the heaviest (mode 1: ALL the
            // weight of the last part; mode 0: weights (n-t)/t times larger, random parts).  Described to Coq
            // by the generator's parameters; the output as its difference from the input.  Judged by the
            // certified checker on the exact loads (the model is not run on inputs of this size).
            let n = *r.pick(&[4097usize, 4104, 5000, 8191, 8193, 9000, 9999]);
            let k = r.range(2, 8) as usize;
            let t = n % 4096;
            let wmax = *r.pick(&[1u64, 10, 100]);
            let mode = r.below(2);
            let mult = if mode == 0 {
                1 + ((n - t) / t) as u64
            } else {
                1 + 2 * (((n - t) + t * (k - 1) - 1) / (t * (k - 1))) as u64
            };
            let seed = r.below(1 << 31);
            let flt = r.chance(1, 3);
            let this = idx;
            idx += 1;
            if let Some(o) = a.only {
                if o != this {
                    continue;
                }
            }
            large += 1;
            let (ws, p0) = gen_large(n, k, t, wmax, mult, seed, mode);
            let part = if alg == 0 { Part::B(coupe::VnBest) } else { Part::F(coupe::VnFirst) };
            let res = call(part, p0.clone(), ws.clone(), flt);
            if flt {
                c.f64_runs += 1;
            }
            let (status, diff, impl_json): (u64, Vec<(usize, usize)>, String) = match &res {
                Guarded::Done(((Ok(cnt), p), _)) => {
                    let d: Vec<(usize, usize)> =
                        p.iter().zip(&p0).enumerate().filter(|(_, (x, y))| x != y).map(|(i, (x, _))| (i, *x)).collect();
                    if !d.is_empty() {
                        c.moved += 1;
                    }
                    let (l0, g0) = exact_gap(&ws, &p0, k);
                    let (l1, g1) = exact_gap(&ws, p, k);
                    let j = format!(
                        "{{\"ok\":\"(see output_diff)\",\"count\":{},\"loads_in\":{:?},\"gap_in\":{},\"loads_out\":{:?},\"gap_out\":{}}}",
                        cnt, l0, g0, l1, g1
                    );
                    (if p.len() == p0.len() { 0 } else { 2 }, d, j)
                }
                Guarded::Done(((Err(e), _), _)) => (2, vec![], format!("{{\"err\":{}}}", json_str(&format!("{:?}", e)))),
                Guarded::Panic(m) => {
                    c.panics += 1;
                    (3, vec![], format!("{{\"panic\":{}}}", json_str(m)))
                }
                Guarded::Hang => {
                    c.hangs += 1;
                    (4, vec![], "{\"hang\":true}".to_string())
                }
            };
            let dcoq: Vec<String> = diff.iter().map(|(i, v)| format!("({},{})", i, v)).collect();
            let coq = format!(
                "mk14L {}%N {} {} {} {} {} {} {} {} {} [{}]%N",
                alg, coq_bool(flt), n, k, t, wmax, mult, seed, mode, status, dcoq.join(";")
            );
            let djson: Vec<String> = diff.iter().map(|(i, v)| format!("[{},{}]", i, v)).collect();
            let json = format!(
                "{{\"algorithm\":\"{}\",\"f64\":{},\"large\":{{\"n\":{},\"parts\":{},\"tail\":{},\"wmax\":{},\"tail_mult\":{},\"seed\":{},\"mode\":{},\"generator\":\"x=(x*1103515245+12345)&0x7fffffff; w=1+(x>>16)%wmax (*tail_mult in the last `tail` positions); next x; id=(x>>16)%parts (mode 1: %(parts-1) in the head, parts-1 in the tail)\"}},\"weights\":{},\"partition\":{},\"output_diff\":[{}],\"impl\":{}}}",
                if alg == 0 { "VnBest" } else { "VnFirst" },
                flt, n, k, t, wmax, mult, seed, mode,
                json_i64s(&ws),
                json_usizes(&p0),
                djson.join(","),
                impl_json
            );
            let key = format!("large|{}|{}|{}|{}|{}|{}|{}|{}", alg, flt, n, k, wmax, mult, seed, mode);
            w.push(coq, json, &key, true, &format!("{}:large", if alg == 0 { "best" } else { "first" }));
            continue;
        }
        if r.chance(1, 8) {
            // ---- reuse stream: ONE partitioner value (a unit struct today) for a short sequence of calls:
            // its own output again, other weights on that output, an input of another length.
            // Every call is a case of its own (model and checker on that call's input).
            reuse_sequences += 1;
            let ncalls = r.range(2, 4) as usize;
            let mut part = Some(if alg == 0 { Part::B(coupe::VnBest) } else { Part::F(coupe::VnFirst) });
            let (_, mut ws) = gen_weights(&mut r, big);
            let (_, mut p0) = gen_partition(&mut r, ws.len());
            let mut earlier: Vec<String> = Vec::new();
            for pos in 0..ncalls {
                if idx >= a.cases || part.is_none() {
                    break;
                }
                let flt = r.chance(1, 3);
                let (coq, impl_json, after) = one_call(&mut part, alg, flt, &ws, &p0, &mut c);
                reuse_calls += 1;
                if a.only.map_or(true, |o| o == idx) {
                    let json = format!(
                        "{{\"algorithm\":\"{}\",\"f64\":{},\"weights\":{},\"partition\":{},\"impl\":{},\"reuse\":{{\"position\":{},\"note\":\"same partitioner value as the earlier calls\",\"earlier_calls\":[{}]}}}}",
                        if alg == 0 { "VnBest" } else { "VnFirst" },
                        flt,
                        json_i64s(&ws),
                        json_usizes(&p0),
                        impl_json,
                        pos,
                        earlier.join(",")
                    );
                    let key = format!("reuse|{}|{}|{:?}|{:?}|{}", alg, flt, ws, p0, pos);
                    let nontrivial = p0.len() == ws.len()
                        && ws.len() >= 3
                        && p0.iter().any(|x| *x != 0)
                        && ws.iter().any(|x| *x != 0);
                    let fam = format!("{}:reuse", if alg == 0 { "best" } else { "first" });
                    w.push(coq, json, &key, nontrivial, &fam);
                }
                earlier.push(format!(
                    "{{\"weights\":{},\"partition\":{},\"f64\":{}}}",
                    json_i64s(&ws),
                    json_usizes(&p0),
                    flt
                ));
                idx += 1;
                // the next input: the array the call left (same or new weights), or something else entirely
                match (r.below(3), after) {
                    (0, Some(p)) if p.len() == ws.len() => p0 = p,
                    (1, Some(p)) if p.len() == ws.len() => {
                        p0 = p;
                        let n = ws.len();
                        ws = (0..n).map(|_| r.range(0, 20)).collect();
                    }
                    _ => {
                        ws = gen_weights(&mut r, big).1;
                        let n = ws.len();
                        let plen = if r.chance(1, 10) { n + 1 } else { n };
                        p0 = gen_partition(&mut r, plen).1;
                    }
                }
            }
            if c.hangs > 3 {
                break;
            }
            continue;
        }
        if r.chance(1, 5) {
            // ---- genuine f64 weights, compared bit-for-bit with the SpecFloat instance of the generic model;
            // the checker uses exact arithmetic on the values.  VnBest runs in a child process that can be
            // killed: before fix 98041ea its loop could oscillate for ever on fractional weights, and no
            // termination proof exists for floats -- a hang is a rejection, and must not cost a core.
            let (wfam, wf) = gen_f64_weights(&mut r, big);
            let n = wf.len();
            let plen = if r.chance(1, 14) { if r.chance(1, 2) { n + 1 } else { n.saturating_sub(1) } } else { n };
            let (_pf, p0) = gen_partition(&mut r, plen);
            let this = idx;
            idx += 1;
            if let Some(o) = a.only {
                if o != this {
                    continue;
                }
            }
            f64_genuine += 1;
            let res: Guarded<(Result<usize, String>, Vec<usize>)> = if alg == 0 {
                call_child(0, &wf, &p0, Duration::from_millis(4000))
            } else {
                let (wf2, p02) = (wf.clone(), p0.clone());
                match guarded(0, Duration::from_secs(20), move || run_f64(1, wf2, p02)) {
                    Guarded::Done((r1, p)) => Guarded::Done((r1.map_err(|e| format!("{}|{:?}", coq_err(&e), e)), p)),
                    Guarded::Panic(m) => Guarded::Panic(m),
                    Guarded::Hang => Guarded::Hang,
                }
            };
            let (impl_coq, cnt, after, impl_json) = match &res {
                Guarded::Done((Ok(nm), p)) => {
                    if *p != p0 {
                        c.moved += 1;
                    }
                    (format!("(IOk {})", coq_nlist(p.iter().map(|x| *x as u128))), *nm, p.clone(),
                     format!("{{\"ok\":{},\"count\":{}}}", json_usizes(p), nm))
                }
                Guarded::Done((Err(e), p)) => {
                    let mut it = e.splitn(2, '|');
                    let coqe = it.next().unwrap_or("(IErr 99 0 0)").to_string();
                    let dbg = it.next().unwrap_or("");
                    (coqe, 0, p.clone(), format!("{{\"err\":{},\"after\":{}}}", json_str(dbg), json_usizes(p)))
                }
                Guarded::Panic(m) => {
                    c.panics += 1;
                    ("IPanic".to_string(), 0, vec![], format!("{{\"panic\":{}}}", json_str(m)))
                }
                Guarded::Hang => {
                    f64_hangs += 1;
                    ("IHang".to_string(), 0, vec![], "{\"hang\":true}".to_string())
                }
            };
            let bits: Vec<u128> = wf.iter().map(|x| x.to_bits() as u128).collect();
            let coq = format!(
                "mk14f {}%N {} {} {} {}%N {}",
                alg,
                coq_nlist(bits.iter().cloned()),
                coq_nlist(p0.iter().map(|x| *x as u128)),
                impl_coq,
                cnt,
                coq_nlist(after.iter().map(|x| *x as u128)),
            );
            let wtxt: Vec<String> = wf.iter().map(|x| format!("{:?}", x)).collect();
            let btxt: Vec<String> = bits.iter().map(|x| x.to_string()).collect();
            let json = format!(
                "{{\"algorithm\":\"{}\",\"weight_type\":\"f64\",\"pool_threads\":1,\"weights_f64\":[{}],\"weights_bits\":[{}],\"partition\":{},\"impl\":{}}}",
                if alg == 0 { "VnBest" } else { "VnFirst" },
                wtxt.join(","),
                btxt.join(","),
                json_usizes(&p0),
                impl_json
            );
            let key = format!("f64|{}|{:?}|{:?}", alg, bits, p0);
            let nontrivial = plen == n && n >= 3 && p0.iter().any(|x| *x != 0) && wf.iter().any(|x| *x != 0.0);
            w.push(coq, json, &key, nontrivial, &format!("{}:{}", if alg == 0 { "best" } else { "first" }, wfam));
            continue;
        }
        if r.chance(1, 8) {
            // ---- SCALE family: the integer families times 2^s (subnormal .. 2^900): every value, sum,
            // difference and half is exact, so the integer model (flt = true) must be matched exactly --
            // as plain f64 or through coupe::Real
            let (wfam, ws) = gen_weights(&mut r, big);
            let n = ws.len();
            let (_pf, p0) = gen_partition(&mut r, n);
            let e: i32 = match r.below(12) {
                0 => -1074 + r.range(4, 10) as i32,
                1 => -1000,
                2 => -300,
                3 => -70,
                4 => -53,
                5 => -52,
                6 => -10,
                7 => 0,
                8 => 10,
                9 => 52,
                10 => 300,
                _ => 900,
            };
            let real = r.chance(1, 2);
            let this = idx;
            idx += 1;
            if let Some(o) = a.only {
                if o != this {
                    continue;
                }
            }
            scaled += 1;
            SCALE_BITS.store(pow2(e).to_bits(), std::sync::atomic::Ordering::SeqCst);
            USE_REAL.store(real, std::sync::atomic::Ordering::SeqCst);
            let mut part = Some(if alg == 0 { Part::B(coupe::VnBest) } else { Part::F(coupe::VnFirst) });
            let (coq, impl_json, _) = one_call(&mut part, alg, true, &ws, &p0, &mut c);
            SCALE_BITS.store(1f64.to_bits(), std::sync::atomic::Ordering::SeqCst);
            USE_REAL.store(false, std::sync::atomic::Ordering::SeqCst);
            let json = format!(
                "{{\"algorithm\":\"{}\",\"weight_type\":\"{}\",\"integer_weights\":{},\"scale\":\"2^{}\",\"note\":\"the weights passed are integer_weights * scale, exactly\",\"partition\":{},\"impl\":{}}}",
                if alg == 0 { "VnBest" } else { "VnFirst" },
                if real { "coupe::Real" } else { "f64" },
                json_i64s(&ws),
                e,
                json_usizes(&p0),
                impl_json
            );
            let key = format!("scale|{}|{}|{}|{:?}|{:?}", alg, real, e, ws, p0);
            let nontrivial = n >= 3 && p0.iter().any(|x| *x != 0) && ws.iter().any(|x| *x != 0);
            w.push(coq, json, &key, nontrivial, &format!("{}:scaled:{}", if alg == 0 { "best" } else { "first" }, wfam));
            continue;
        }
        let (wfam, ws) = gen_weights(&mut r, big);
        let n = ws.len();
        // malformed stream: partition length differs (shorter, longer, empty)
        let mut plen = n;
        if r.chance(1, 14) {
            plen = match r.below(3) {
                0 => 0,
                1 => n + 1 + r.below(3) as usize,
                _ => n.saturating_sub(1 + r.below(2) as usize),
            };
        }
        let (_pfam, p0) = gen_partition(&mut r, plen);
        let flt = r.chance(1, 3);
        let this = idx;
        idx += 1;
        if let Some(o) = a.only {
            if o != this {
                continue;
            }
        }
        let mut part = Some(if alg == 0 { Part::B(coupe::VnBest) } else { Part::F(coupe::VnFirst) });
        let (coq, impl_json, _) = one_call(&mut part, alg, flt, &ws, &p0, &mut c);
        let json = format!(
            "{{\"algorithm\":\"{}\",\"f64\":{},\"weights\":{},\"partition\":{},\"impl\":{}}}",
            if alg == 0 { "VnBest" } else { "VnFirst" },
            flt,
            json_i64s(&ws),
            json_usizes(&p0),
            impl_json
        );
        let key = format!("{}|{}|{:?}|{:?}", alg, flt, ws, p0);
        // non-trivial: matching lengths, at least two parts in the input, at least 3 weights, not all zero
        let nontrivial = plen == n && n >= 3 && p0.iter().any(|x| *x != 0) && ws.iter().any(|x| *x != 0);
        let fam = format!("{}:{}", if alg == 0 { "best" } else { "first" }, wfam);
        w.push(coq, json, &key, nontrivial, &fam);
        if c.hangs > 3 {
            break;
        }
    }
    w.finish(&format!(
        "\"hangs\":{},\"panics\":{},\"f64_runs\":{},\"f64_genuine\":{},\"f64_vnbest_hangs\":{},\"moved\":{},\"reuse_sequences\":{},\"reuse_calls\":{},\"large\":{},\"scaled\":{},\"many_moves_cases\":{},\"many_moves_with_1024_or_more\":{}",
        c.hangs, c.panics, c.f64_runs, f64_genuine, f64_hangs, c.moved, reuse_sequences, reuse_calls, large, scaled, many, many_ge_1024
    ));
}

//! C11: MultiJagged vs Model/MultiJagged.v — case generator and runner.
//!
//! Per case: the scheme the implementation builds (hook), the partition under
//! the pool size of the case and under a one-thread pool, and the slices on
//! which rayon's unstable sort answered something else than the stable order
//! (the model's sort oracle replays those answers after validating them).
use coupe::rayon::prelude::*;
use coupe::Partition as _;
use coupe::PointND;
use std::cmp::Ordering;
use std::panic::{catch_unwind, AssertUnwindSafe};
use std::time::Duration;
use verif_harness::*;

// ------------------------------------------------------------------ scheme

struct Node {
    ns: u64,
    mods: Vec<u64>,
    next: Option<Vec<Node>>,
}

fn parse(v: &[u64], pos: &mut usize) -> Node {
    let ns = v[*pos];
    let nm = v[*pos + 1] as usize;
    let mods = v[*pos + 2..*pos + 2 + nm].to_vec();
    *pos += 2 + nm;
    let has = v[*pos];
    *pos += 1;
    let next = if has == 1 {
        let nc = v[*pos] as usize;
        *pos += 1;
        Some((0..nc).map(|_| parse(v, pos)).collect())
    } else {
        None
    };
    Node { ns, mods, next }
}

fn coq_scheme(n: &Node, out: &mut String) {
    out.push_str(&format!("(SNode {} [", n.ns));
    for (i, m) in n.mods.iter().enumerate() {
        if i > 0 {
            out.push(';');
        }
        out.push_str(&m.to_string());
    }
    out.push_str("] ");
    match &n.next {
        None => out.push_str("None"),
        Some(cs) => {
            out.push_str("(Some [");
            for (i, c) in cs.iter().enumerate() {
                if i > 0 {
                    out.push(';');
                }
                coq_scheme(c, out);
            }
            out.push_str("])");
        }
    }
    out.push(')');
}

fn leaf_count(n: &Node) -> usize {
    if n.ns == 0 {
        1
    } else {
        n.next.as_ref().map_or(0, |cs| cs.iter().map(leaf_count).sum())
    }
}

// --------------------------------------------------------------- sort replay

/// Copy of recursive_bisection::axis_sort (private to coupe): the same rayon
/// sort with the same comparator.  See docs/C11.md (hook request).
fn axis_sort_copy<const D: usize>(points: &[PointND<D>], permutation: &mut [usize], c: usize) {
    permutation.par_sort_unstable_by(|i1, i2| {
        if points[*i1][c] < points[*i2][c] {
            Ordering::Less
        } else {
            Ordering::Greater
        }
    })
}

/// Walks the recursion as multi_jagged_recurse does, with the real sort and the
/// real compute_split_positions, to learn which slices get sorted; records the
/// (axis, slice, sorted slice) triples where the answer is not the stable order.
fn replay<const D: usize>(
    node: &Node,
    axis: usize,
    slice: &mut [usize],
    points: &[PointND<D>],
    weights: &[f64],
    out: &mut Vec<(usize, Vec<usize>, Vec<usize>)>,
) {
    if node.ns == 0 {
        return;
    }
    let before = slice.to_vec();
    axis_sort_copy(points, slice, axis);
    let mut stable = before.clone();
    // stable insertion sort on `<` (what Model's isort does)
    for i in 1..stable.len() {
        let mut j = i;
        while j > 0 && points[stable[j]][axis] < points[stable[j - 1]][axis] {
            stable.swap(j, j - 1);
            j -= 1;
        }
    }
    if stable != slice {
        out.push((axis, before, slice.to_vec()));
    }
    let mods: Vec<f64> = node.mods.iter().map(|b| f64::from_bits(*b)).collect();
    let sl: &[usize] = slice;
    let pos = match catch_unwind(AssertUnwindSafe(|| {
        coupe::verif_multi_jagged::compute_split_positions(weights, sl, &mods)
    })) {
        Ok(p) => p,
        Err(_) => return,
    };
    let children = match &node.next {
        Some(c) => c,
        None => return,
    };
    let mut start = 0usize;
    let mut bounds = pos.clone();
    bounds.push(slice.len());
    for (b, child) in bounds.iter().zip(children.iter()) {
        if *b < start || *b > slice.len() {
            return;
        }
        replay(child, (axis + 1) % D, &mut slice[start..*b], points, weights, out);
        start = *b;
    }
}

// ---------------------------------------------------------------- generators

fn unit(r: &mut Rng) -> f64 {
    (r.next() >> 11) as f64 / (1u64 << 53) as f64
}

fn gen_points(r: &mut Rng, n: usize, d: usize) -> (&'static str, Vec<Vec<f64>>) {
    match r.below(8) {
        0 | 1 => (
            "uniform",
            (0..n).map(|_| (0..d).map(|_| 2.0 * unit(r) - 1.0).collect()).collect(),
        ),
        2 => {
            let nc = r.range(1, 4) as usize;
            let cs: Vec<Vec<f64>> = (0..nc).map(|_| (0..d).map(|_| 10.0 * unit(r)).collect()).collect();
            (
                "clustered",
                (0..n)
                    .map(|_| {
                        let c = &cs[r.below(nc as u64) as usize];
                        (0..d).map(|a| c[a] + 0.01 * unit(r)).collect()
                    })
                    .collect(),
            )
        }
        3 => {
            // on a line: along an axis (all other coordinates equal) or diagonal; integer steps give ties
            let diag = r.chance(1, 2);
            let ax = r.below(d as u64) as usize;
            let ties = r.chance(1, 2);
            (
                "collinear",
                (0..n)
                    .map(|_| {
                        let t = if ties { r.range(0, 6) as f64 } else { unit(r) };
                        (0..d).map(|a| if diag { t * (a as f64 + 1.0) } else if a == ax { t } else { 0.5 }).collect()
                    })
                    .collect(),
            )
        }
        4 => {
            let nd = r.range(1, 3) as usize;
            let ps: Vec<Vec<f64>> = (0..nd).map(|_| (0..d).map(|_| r.range(-2, 2) as f64).collect()).collect();
            (
                "coincident",
                (0..n).map(|_| ps[r.below(nd as u64) as usize].clone()).collect(),
            )
        }
        5 => {
            let m = r.range(2, 4);
            (
                "duplicates",
                (0..n).map(|_| (0..d).map(|_| r.range(0, m) as f64 * 0.25).collect()).collect(),
            )
        }
        6 => {
            // lattice points in row-major order, optionally shuffled
            let side = (1..).find(|s: &usize| s.pow(d as u32) >= n).unwrap();
            let mut ps: Vec<Vec<f64>> = (0..n)
                .map(|i| {
                    let mut x = i;
                    (0..d)
                        .map(|_| {
                            let c = x % side;
                            x /= side;
                            c as f64
                        })
                        .collect()
                })
                .collect();
            if r.chance(1, 2) {
                for i in (1..ps.len()).rev() {
                    let j = r.below(i as u64 + 1) as usize;
                    ps.swap(i, j);
                }
            }
            ("lattice", ps)
        }
        _ => {
            let mut ps: Vec<Vec<f64>> = (0..n).map(|_| (0..d).map(|_| unit(r)).collect()).collect();
            if n > 0 {
                let i = r.below(n as u64) as usize;
                ps[i] = (0..d).map(|_| 1.0e6 * (unit(r) - 0.5)).collect();
            }
            ("outlier", ps)
        }
    }
}

fn gen_weights(r: &mut Rng, n: usize, zeros: bool) -> (&'static str, Vec<i64>) {
    if zeros {
        return match r.below(4) {
            0 => {
                // the witness class of the repaired panic: one heavy element, the rest light or zero
                let mut ws: Vec<i64> = (0..n).map(|_| r.range(0, 1)).collect();
                if n > 0 {
                    let i = r.below(n as u64) as usize;
                    ws[i] = r.range(50, 500);
                }
                ("zeros_one_heavy", ws)
            }
            1 => ("all_zero", vec![0; n]),
            2 => ("zeros_sparse", (0..n).map(|_| if r.chance(1, 4) { r.range(1, 9) } else { 0 }).collect()),
            _ => ("zeros_mixed", (0..n).map(|_| r.range(0, 3)).collect()),
        };
    }
    match r.below(6) {
        0 => {
            let c = *r.pick(&[1i64, 1, 3, 7]);
            ("w_uniform", vec![c; n])
        }
        1 => ("w_random", (0..n).map(|_| r.range(1, 9)).collect()),
        2 => ("w_skewed", (0..n).map(|_| 1i64 << r.below(11)).collect()),
        3 => {
            let mut ws: Vec<i64> = (0..n).map(|_| r.range(1, 3)).collect();
            if n > 0 {
                let i = r.below(n as u64) as usize;
                ws[i] = r.range(50, 1000);
            }
            ("w_one_heavy", ws)
        }
        4 => {
            let mut ws: Vec<i64> = vec![1; n];
            for _ in 0..r.range(0, 3) {
                if n > 0 {
                    let i = r.below(n as u64) as usize;
                    ws[i] = r.range(10, 40);
                }
            }
            ("w_few_heavy", ws)
        }
        _ => ("w_large", (0..n).map(|_| r.range(1, 1 << 30)).collect()),
    }
}

struct Case {
    /// description of a large structured input (its points are not written into the JSON record)
    desc: String,
    /// the points as a Coq expression (large inputs), instead of the literal list of bit patterns
    pts_coq: Option<String>,
    family: String,
    wfamily: String,
    d: usize,
    pts: Vec<Vec<f64>>,
    ws: Vec<i64>,
    /// weight i is ws[i] * 2^(wexp + wsh[i]) (exact in f64)
    wexp: i32,
    wsh: Vec<u32>,
    /// number of MultiJagged::partition calls running at the same time as this one (0 = alone)
    conc: usize,
    k: usize,
    max_iter: usize,
    pool: usize,
    blk: usize,
}

/// Coordinate j of point i of a large input, as a formula both sides evaluate (RunC11.cspec): the case file
/// then carries the formula, not tens of thousands of 19-digit bit patterns (coqc spends ~1 ms per such numeral).
#[derive(Clone)]
enum CSpec {
    /// ((a * i + b) mod m) / q
    Aff { a: i64, b: i64, m: i64, q: i64 },
    /// blocks of 1024 entries in the order `order`: b = order[i / 1024], o = i mod 1024;
    /// o * nb + b (interleaved) or b * 1024 + o
    Block { order: Vec<i64>, interleave: bool },
}
impl CSpec {
    fn eval(&self, i: i64) -> f64 {
        (match self {
            CSpec::Aff { a, b, m, q } => ((a * i + b) % m) / q,
            CSpec::Block { order, interleave } => {
                let (b, o, nb) = (order[(i / 1024) as usize], i % 1024, order.len() as i64);
                if *interleave {
                    o * nb + b
                } else {
                    b * 1024 + o
                }
            }
        }) as f64
    }
    fn coq(&self) -> String {
        match self {
            CSpec::Aff { a, b, m, q } => format!("CAff {} {} {} {}", a, b, m, q),
            CSpec::Block { order, interleave } => format!(
                "CBlock [{}] {}",
                order.iter().map(|x| x.to_string()).collect::<Vec<_>>().join(";"),
                coq_bool(*interleave)
            ),
        }
    }
}
const HUGE: i64 = 1 << 40;
fn modulo(i_mod: i64) -> CSpec {
    CSpec::Aff { a: 1, b: 0, m: i_mod, q: 1 }
}
fn quotient(i_div: i64) -> CSpec {
    CSpec::Aff { a: 1, b: 0, m: HUGE, q: i_div }
}
/// a scattered, deterministic "random" coordinate: (a * i + b) mod p for a prime p
fn scatter(r: &mut Rng) -> CSpec {
    let p = *r.pick(&[1_000_003i64, 999_983, 65_537, 10_007]);
    CSpec::Aff { a: r.range(1, p - 1), b: r.range(0, p - 1), m: p, q: 1 }
}
fn spec_points(n: usize, specs: &[CSpec]) -> (Vec<Vec<f64>>, String) {
    let pts = (0..n as i64).map(|i| specs.iter().map(|s| s.eval(i)).collect()).collect();
    let coq = format!("(gen_pts {}%nat [{}]%Z)", n, specs.iter().map(|s| s.coq()).collect::<Vec<_>>().join(";"));
    (pts, coq)
}

/// Large structured inputs (n > 1024): grids numbered row by row with a row length that is a multiple of
/// 1024, the same column-major, and point sets whose order is sorted inside every aligned block of 1024 but
/// not across blocks.  A sort that trusts a block-local "already sorted" test leaves them unsorted.
fn gen_big_case(r: &mut Rng) -> Case {
    let variant = r.below(4);
    let (cols, rows) = *r.pick(&[(1024usize, 2usize), (1024, 3), (1024, 4), (1024, 5), (1024, 8), (2048, 2), (2048, 3), (3072, 2)]);
    let n = cols * rows;
    let (name, specs): (&str, Vec<CSpec>) = match variant {
        0 | 1 => ("grid_row_major", vec![modulo(cols as i64), quotient(cols as i64)]),
        2 => ("grid_column_major", vec![quotient(rows as i64), modulo(rows as i64)]),
        _ => {
            // x strictly increasing inside every block of 1024 entries, the blocks in a shuffled order
            let nb = n / 1024;
            let mut order: Vec<i64> = (0..nb as i64).collect();
            for i in (1..nb).rev() {
                let j = r.below(i as u64 + 1) as usize;
                order.swap(i, j);
            }
            ("blockwise_sorted_shuffled_blocks", vec![CSpec::Block { order, interleave: r.chance(1, 2) }, scatter(r)])
        }
    };
    let (pts, pts_coq) = spec_points(n, &specs);
    let ws: Vec<i64> = if r.chance(1, 2) { vec![1; n] } else { (0..n).map(|_| r.range(1, 9)).collect() };
    let k = *r.pick(&[2usize, 3, 4, 4, 8]);
    let max_iter = *r.pick(&[1usize, 1, 1, 2]);
    Case {
        desc: format!("{} {} x {}: {}", name, cols, rows, pts_coq),
        pts_coq: Some(pts_coq),
        family: format!("big/{}", name),
        wfamily: "w_big".to_string(),
        d: 2,
        pts,
        ws,
        wexp: 0,
        wsh: vec![0; n],
        conc: 0,
        k,
        max_iter,
        pool: *r.pick(&[1usize, 2, 4, 8, 16]),
        blk: 1,
    }
}

/// Large inputs whose FINAL PARTS are large and of no particular size: n in {9001, 10000, 12345, 20000, 30000},
/// 2..4 parts chosen so that every leaf holds more than 4096 points (and no multiple of 1024 / 4096); scattered
/// clouds and grids of odd widths.  A leaf write that handles the slice in fixed-size chunks and forgets the
/// remainder leaves elements unwritten (the buffer is prefilled with usize::MAX).
fn gen_unaligned_big_case(r: &mut Rng) -> Case {
    let n = *r.pick(&[9001usize, 10000, 12345, 20000, 30000]);
    let kmax = ((n - 1) / 4200).clamp(2, 4);
    let k = r.range(2, kmax as i64) as usize;
    let d = if r.chance(1, 3) { 3usize } else { 2 };
    let (name, specs): (&str, Vec<CSpec>) = if r.chance(1, 2) {
        ("cloud", (0..d).map(|_| scatter(r)).collect())
    } else {
        let w = *r.pick(&[97i64, 100, 123, 1000, 1001]);
        let mut v = vec![modulo(w), quotient(w)];
        if d == 3 {
            v.push(modulo(7));
        }
        ("grid_odd_width", v)
    };
    let (pts, pts_coq) = spec_points(n, &specs);
    let ws: Vec<i64> = if r.chance(1, 2) { vec![1; n] } else { (0..n).map(|_| r.range(1, 9)).collect() };
    Case {
        desc: format!("{} of {} points: {}", name, n, pts_coq),
        pts_coq: Some(pts_coq),
        family: format!("big_unaligned/{}", name),
        wfamily: "w_big".to_string(),
        d,
        pts,
        ws,
        wexp: 0,
        wsh: vec![0; n],
        conc: 0,
        k,
        max_iter: 1,
        pool: *r.pick(&[1usize, 2, 4, 8, 16]),
        blk: 1,
    }
}

fn gen_case(r: &mut Rng, tier: &str, allow_conc: bool) -> Case {
    if allow_conc && r.chance(if tier == "thorough" { 4 } else { 12 }, 1000) {
        return gen_big_case(r);
    }
    let big = tier == "thorough";
    let d = if r.chance(1, 2) { 2 } else { 3 };
    let stream = match r.below(100) {
        // strictly positive weights far below f64::EPSILON (z * 2^-70): broke the balance bound before 70b7d46
        0..=4 => "tiny",
        // strictly positive SUBNORMAL weights (multiples of 2^-1074, about 1e-320..1e-310), alone or next to
        // a few normal ones (then some slab has a subnormal total although the global total is normal)
        5..=10 => "subnormal",
        11..=77 => "main",
        78..=87 => "zeros",
        88..=94 => "more_parts",
        95..=97 => "iter0",
        _ => "parts0",
    };
    let n = match r.below(40) {
        0 => r.range(0, 2) as usize,
        1..=27 => r.range(1, 24) as usize,
        28..=37 => r.range(21, if big { 90 } else { 48 }) as usize,
        _ => r.range(49, if big { 260 } else { 100 }) as usize,
    };
    let n = if stream == "main" || stream == "tiny" { n.max(1) } else { n };
    let n = if stream == "subnormal" { n.max(4) } else { n };
    // exact power-of-two scaling of the weights: harmless for the algorithm except far below f64::EPSILON
    let wexp = match stream {
        "tiny" => -70,
        "subnormal" => -1074,
        _ => *r.pick(&[0, 0, 0, 0, 0, 0, 10, -10, -30, 3]),
    };
    let (pf, pts) = gen_points(r, n, d);
    let (mut wf, mut ws) = gen_weights(r, n, stream == "zeros");
    let mut wsh = vec![0u32; n];
    let mut mixed = false;
    if stream == "subnormal" {
        // mantissas of 10..45 bits: 1e-320 .. 1.7e-310
        match r.below(4) {
            0 => {
                let c = 1i64 << r.range(10, 44);
                ws = vec![c + r.range(0, 1000); n];
                wf = "sub_uniform";
            }
            1 => {
                ws = (0..n).map(|_| r.range(1 << 10, 1 << 45)).collect();
                wf = "sub_random";
            }
            2 => {
                ws = (0..n).map(|_| 1i64 << r.range(10, 44)).collect();
                wf = "sub_skewed";
            }
            _ => {
                // a few normal weights (1..9) among subnormal ones
                ws = (0..n).map(|_| r.range(1 << 10, 1 << 40)).collect();
                for _ in 0..r.range(1, 3) {
                    let i = r.below(n as u64) as usize;
                    ws[i] = r.range(1, 9);
                    wsh[i] = 1074;
                }
                wf = "sub_mixed_with_normal";
                mixed = true;
            }
        }
    }
    let mut k = match r.below(8) {
        0 => 1,
        1 => 2,
        2 => 3,
        3 => n.max(1),
        4 => n.saturating_sub(1).max(1),
        5 => r.range(1, 9) as usize,
        _ => r.range(1, n.max(1) as i64) as usize,
    };
    k = k.min(n.max(1));
    // keep the scheme (k leaves, up to k^2 modifiers) readable by coqc
    if k > 40 && !r.chance(1, 6) {
        k = r.range(2, 40) as usize;
    }
    let mut max_iter = r.range(1, 4) as usize;
    if mixed {
        // more slabs than normal weights, and a second level that has to cut the subnormal slabs
        k = k.max(r.range(4, 12) as usize);
        max_iter = max_iter.max(2);
    }
    match stream {
        "more_parts" => k = n + 1 + r.below(6) as usize,
        "iter0" => max_iter = 0,
        "parts0" => k = 0,
        _ => {}
    }
    let mut pool = *r.pick(&[1usize, 2, 4, 8, 16]);
    let blk = r.range(1, 5) as usize;
    // concurrency stream: this call runs while one or two other MultiJagged::partition calls run
    let mut conc = 0;
    if allow_conc && n >= 24 && k >= 2 && max_iter >= 1 && r.chance(1, 5) {
        conc = r.range(1, 2) as usize;
        pool = *r.pick(&[0usize, 1, 2, 4]); // 0 = rayon's global pool, shared by the simultaneous calls
    }
    Case {
        desc: String::new(),
        pts_coq: None,
        family: format!("{}/{}", stream, pf),
        wfamily: wf.to_string(),
        d,
        pts,
        ws,
        wexp,
        wsh,
        conc,
        k,
        max_iter,
        pool,
        blk,
    }
}

/// x * 2^e without intermediate overflow/underflow surprises (exact when the result is representable)
fn scale2(mut x: f64, mut e: i32) -> f64 {
    while e > 500 {
        x *= 2f64.powi(500);
        e -= 500;
    }
    while e < -500 {
        x *= 2f64.powi(-500);
        e += 500;
    }
    x * 2f64.powi(e)
}

fn weights_f64(c: &Case) -> Vec<f64> {
    c.ws.iter().zip(c.wsh.iter()).map(|(w, s)| scale2(*w as f64, c.wexp + *s as i32)).collect()
}

// -------------------------------------------------------------------- running

type PartRes = Guarded<Result<Vec<usize>, coupe::Error>>;

fn run_impl<const D: usize>(c: &Case, pool: usize) -> PartRes {
    let points: Vec<PointND<D>> = c.pts.iter().map(|p| PointND::<D>::from_iterator(p.iter().cloned())).collect();
    let weights: Vec<f64> = weights_f64(c);
    let (k, m) = (c.k, c.max_iter);
    guarded(pool, Duration::from_secs(20), move || {
        let mut p = vec![usize::MAX; points.len()];
        coupe::MultiJagged { part_count: k, max_iter: m }
            .partition(&mut p, (&points[..], &weights[..]))
            .map(|()| p)
            .map_err(|_| coupe::Error::NotFound)
    })
}

/// One partition call of the case as a reusable job.
fn make_job(c: &Case) -> Box<dyn Fn() -> Vec<usize> + Send + Sync> {
    fn job<const D: usize>(c: &Case) -> Box<dyn Fn() -> Vec<usize> + Send + Sync> {
        let points: Vec<PointND<D>> = c.pts.iter().map(|p| PointND::<D>::from_iterator(p.iter().cloned())).collect();
        let weights = weights_f64(c);
        let (k, m) = (c.k, c.max_iter);
        Box::new(move || {
            let mut p = vec![usize::MAX; points.len()];
            coupe::MultiJagged { part_count: k, max_iter: m }
                .partition(&mut p, (&points[..], &weights[..]))
                .unwrap();
            p
        })
    }
    if c.d == 2 {
        job::<2>(c)
    } else {
        job::<3>(c)
    }
}

const CONC_REPEAT: usize = 6;

/// Runs the calls of `cases` at the same time, each from its own std thread
/// (inside its own rayon pool, or the global one when pool = 0), CONC_REPEAT
/// times in a row without waiting for the others.  Returns the outputs of
/// the first case, or None when a thread did not answer in 60 s.
fn run_concurrent(cases: &[&Case]) -> Option<Vec<Result<Vec<usize>, String>>> {
    use std::sync::{mpsc, Arc, Barrier};
    let barrier = Arc::new(Barrier::new(cases.len()));
    let (tx, rx) = mpsc::channel();
    for (t, c) in cases.iter().enumerate() {
        let job = make_job(c);
        let pool = c.pool;
        let barrier = barrier.clone();
        let tx = tx.clone();
        std::thread::Builder::new()
            .stack_size(64 << 20)
            .spawn(move || {
                let body = || {
                    barrier.wait();
                    (0..CONC_REPEAT)
                        .map(|_| {
                            catch_unwind(AssertUnwindSafe(|| job())).map_err(|e| {
                                e.downcast_ref::<&str>().map(|s| s.to_string()).or_else(|| e.downcast_ref::<String>().cloned()).unwrap_or_else(|| "panic".into())
                            })
                        })
                        .collect::<Vec<_>>()
                };
                let out = if pool == 0 {
                    body()
                } else {
                    coupe::rayon::ThreadPoolBuilder::new().num_threads(pool).build().unwrap().install(body)
                };
                let _ = tx.send((t, out));
            })
            .unwrap();
    }
    let mut first = None;
    for _ in 0..cases.len() {
        match rx.recv_timeout(Duration::from_secs(60)) {
            Ok((0, out)) => first = Some(out),
            Ok(_) => {}
            Err(_) => return None,
        }
    }
    first
}

fn canon(p: &[usize]) -> Vec<usize> {
    let mut seen: Vec<usize> = Vec::new();
    p.iter()
        .map(|x| match seen.iter().position(|y| y == x) {
            Some(i) => i,
            None => {
                seen.push(*x);
                seen.len() - 1
            }
        })
        .collect()
}

fn sorts_of<const D: usize>(c: &Case, tree: &Node) -> Vec<(usize, Vec<usize>, Vec<usize>)> {
    let points: Vec<PointND<D>> = c.pts.iter().map(|p| PointND::<D>::from_iterator(p.iter().cloned())).collect();
    let weights: Vec<f64> = weights_f64(c);
    let mut perm: Vec<usize> = (0..points.len()).collect();
    let mut out = Vec::new();
    replay(tree, 0, &mut perm, &points, &weights, &mut out);
    out
}

/// Fixed experiments behind the findings reported in docs/C11.md (`c11 --probe`).
fn probe() {
    // (1) part_count not representable in f32
    for (k, m) in [(16_777_216usize, 1usize), (16_777_217, 1), (16_777_219, 1)] {
        let r = guarded(0, Duration::from_secs(60), move || {
            let v = coupe::verif_multi_jagged::partition_scheme(k, m);
            (v[0], v.len())
        });
        match r {
            Guarded::Done((ns, len)) => println!("partition_scheme({k}, {m}): num_splits = {ns}, flattened length {len}"),
            Guarded::Panic(msg) => println!("partition_scheme({k}, {m}): PANIC {msg}"),
            Guarded::Hang => println!("partition_scheme({k}, {m}): no answer in 60 s"),
        }
    }
    // (1b) the root expression satisfies root_ok for every part_count below 2^24, max_iter 1..=8
    //      (and the first max_iter at which a root of 1 appears for 2 parts)
    let root = |k: usize, m: usize| (k as f32).powf(1. / m as f32).ceil() as usize;
    let mut bad = 0usize;
    let mut first_bad = None;
    for m in 1..=8usize {
        for k in 1..(1usize << 24) {
            let r = root(k, m);
            let ok = if k == 1 { r == 1 } else { 2 <= r && r <= k } && (m != 1 || r == k);
            if !ok {
                bad += 1;
                first_bad.get_or_insert((k, m, r));
            }
        }
    }
    println!("root_ok violations for 1 <= part_count < 2^24, max_iter 1..=8: {bad} {first_bad:?}");
    let m1 = (1..100_000_000usize).find(|m| root(2, *m) < 2);
    println!("smallest max_iter with root(2, max_iter) = 1: {m1:?}");
    // (2) strictly positive weights far below f64::EPSILON
    // (3) the smallest subnormal weights: 4 ULPs are then 4 times the weight itself
    for (unit, n) in [(1u64, 16usize), (1, 64), (3, 64), (1000, 64)] {
        let points: Vec<PointND<2>> = (0..n).map(|i| PointND::<2>::new(i as f64, 0.0)).collect();
        let w = f64::from_bits(unit);
        let weights: Vec<f64> = vec![w; n];
        let mut p = vec![usize::MAX; n];
        coupe::MultiJagged { part_count: 2, max_iter: 1 }.partition(&mut p, (&points[..], &weights[..])).unwrap();
        let c0 = p.iter().filter(|x| **x == p[0]).count();
        println!(
            "{n} points of weight {w:e} (= {unit} * 2^-1074), 2 parts, max_iter 1: sizes {} | {}; |load - total/2| / max weight = {}  (bound: < 2)",
            c0,
            n - c0,
            (c0 as f64 - n as f64 / 2.0).abs()
        );
    }
    for scale in [1.0f64, 1e-12, 1e-15, 1e-16, 1e-17, 1e-20, 1e300, 1e308] {
        let n = 8usize;
        let points: Vec<PointND<2>> = (0..n).map(|i| PointND::<2>::new(i as f64, (i % 3) as f64)).collect();
        let weights: Vec<f64> = vec![scale; n];
        let mut p = vec![usize::MAX; n];
        coupe::MultiJagged { part_count: 2, max_iter: 1 }
            .partition(&mut p, (&points[..], &weights[..]))
            .unwrap();
        let l0: f64 = (0..n).filter(|i| p[*i] == p[0]).map(|i| weights[i]).sum();
        let tot: f64 = weights.iter().sum();
        println!(
            "8 points, weight {scale:e} each, 2 parts, max_iter 1: ids {:?}; |load - total/2| / max weight = {}  (bound: < 2)",
            p,
            (l0 - tot / 2.0).abs() / scale
        );
    }
}

fn main() {
    if std::env::args().any(|x| x == "--probe") {
        quiet_panics();
        probe();
        return;
    }
    let a = parse_args();
    quiet_panics();
    let mut rng = Rng::new(a.seed);
    let mut w = CaseWriter::new(
        &a.out,
        "From Coupe Require Import Lib.Prelude Lib.Report Model.MultiJagged Run.RunC11.",
        "case11",
        "run11",
        if a.tier == "thorough" { 150 } else { 100 },
    );
    let (mut hangs, mut panics, mut hook_panics, mut sort_entries, mut empty_parts) = (0usize, 0usize, 0usize, 0usize, 0usize);
    let (mut conc_cases, mut conc_odd) = (0usize, 0usize);
    for idx in 0..a.cases {
        let mut r = rng.fork();
        // two large unaligned inputs per 1200 cases, at fixed indices (so that every run has them)
        let c = if idx % 600 == 299 { gen_unaligned_big_case(&mut r) } else { gen_case(&mut r, &a.tier, true) };
        // companions of the concurrency stream: other inputs whose calls run at the same time
        let companions: Vec<Case> = (0..c.conc)
            .map(|_| loop {
                let o = gen_case(&mut r, &a.tier, false);
                if o.pts.len() >= 24 && o.k >= 2 && o.max_iter >= 1 {
                    break o;
                }
            })
            .collect();
        if let Some(o) = a.only {
            if o != idx {
                continue;
            }
        }
        let (k, m) = (c.k, c.max_iter);
        let tree = catch_unwind(|| coupe::verif_multi_jagged::partition_scheme(k, m))
            .ok()
            .map(|v| parse(&v, &mut 0));
        if tree.is_none() {
            hook_panics += 1;
        }
        let root0 = (k as f32).powf(1. / m as f32).ceil() as usize;
        let seq = if c.d == 2 { run_impl::<2>(&c, 1) } else { run_impl::<3>(&c, 1) };
        let res: PartRes = if c.conc == 0 {
            if c.d == 2 {
                run_impl::<2>(&c, c.pool)
            } else {
                run_impl::<3>(&c, c.pool)
            }
        } else {
            conc_cases += 1;
            let mut all: Vec<&Case> = vec![&c];
            all.extend(companions.iter());
            match run_concurrent(&all) {
                None => Guarded::Hang,
                Some(outs) => {
                    // every output is a candidate; the one handed to the checkers is the first that is
                    // not the partition of the undisturbed one-thread run (up to renaming, ids below k)
                    let reference = match &seq {
                        Guarded::Done(Ok(p)) => Some(canon(p)),
                        _ => None,
                    };
                    let odd = outs.iter().position(|o| match o {
                        Ok(p) => Some(canon(p)) != reference || p.iter().any(|x| *x >= c.k),
                        Err(_) => true,
                    });
                    if odd.is_some() {
                        conc_odd += 1;
                    }
                    match outs[odd.unwrap_or(0)].clone() {
                        Ok(p) => Guarded::Done(Ok(p)),
                        Err(m) => Guarded::Panic(m),
                    }
                }
            }
        };
        match &res {
            Guarded::Hang => hangs += 1,
            Guarded::Panic(_) => panics += 1,
            Guarded::Done(Ok(p)) => {
                let mut seen = std::collections::HashSet::new();
                for x in p {
                    seen.insert(*x);
                }
                if seen.len() < k {
                    empty_parts += 1;
                }
            }
            _ => {}
        }
        let big = c.pts.len() > 600;
        let sorts = match &tree {
            Some(_) if big => Vec::new(), // the model is not re-run on large inputs (RunC11.eval_big)
            Some(t) => {
                if c.d == 2 {
                    sorts_of::<2>(&c, t)
                } else {
                    sorts_of::<3>(&c, t)
                }
            }
            None => Vec::new(),
        };
        sort_entries += sorts.len();
        let scheme_coq = match &tree {
            Some(t) => {
                let mut s = String::from("(Some ");
                coq_scheme(t, &mut s);
                s.push(')');
                s
            }
            None => "None".to_string(),
        };
        let pts_term: String = match &c.pts_coq {
            Some(e) => e.clone(),
            None => format!(
                "[{}]%N",
                c.pts
                    .iter()
                    .map(|p| format!("[{}]", p.iter().map(|x| x.to_bits().to_string()).collect::<Vec<_>>().join(";")))
                    .collect::<Vec<_>>()
                    .join(";")
            ),
        };
        // uniform weights of a large input as an expression too
        let ws_term: String = if c.pts_coq.is_some() && c.ws.iter().all(|w| *w == c.ws[0]) {
            format!("(repeat {}%Z {}%nat)", c.ws[0], c.ws.len())
        } else {
            format!(
                "[{}]%Z",
                c.ws.iter()
                    .zip(c.wsh.iter())
                    .map(|(w, s)| if *s == 0 { coq_z(*w as i128) } else { format!("({} * 2 ^ {})", w, s) })
                    .collect::<Vec<_>>()
                    .join(";")
            )
        };
        let sorts_coq: Vec<String> = sorts
            .iter()
            .map(|(ax, i, o)| format!("({}, {}, {})", ax, coq_natlist(i.iter().cloned()), coq_natlist(o.iter().cloned())))
            .collect();
        let coq = format!(
            "mk11 {}%nat {} {} {} {}%N {}%nat {}%nat {}%N {}%N [{}]%nat {} {}",
            c.d,
            pts_term,
            ws_term,
            format!("({})%Z", c.wexp),
            c.k,
            c.max_iter,
            c.blk,
            scheme_coq,
            root0,
            sorts_coq.join(";"),
            coq_impl_partition(&res),
            coq_impl_partition(&seq)
        );
        let pts_json: Vec<String> = c
            .pts
            .iter()
            .map(|p| format!("[{}]", p.iter().map(|x| format!("{:?}", x)).collect::<Vec<_>>().join(",")))
            .collect();
        let short = |g: &PartRes| match g {
            Guarded::Done(Ok(p)) => {
                let mut ids: Vec<usize> = p.clone();
                ids.sort_unstable();
                ids.dedup();
                format!("{{\"ok_first_64\":{},\"distinct_ids\":{}}}", json_usizes(&p[..p.len().min(64)]), json_usizes(&ids))
            }
            other => json_impl_partition(other),
        };
        let (pts_field, ws_field, impl_field, seq_field) = if big {
            (
                json_str(&format!("{} points: {}", c.pts.len(), c.desc)),
                json_str(&format!("{} weights, first 16: {:?}", c.ws.len(), &c.ws[..16])),
                short(&res),
                short(&seq),
            )
        } else {
            (format!("[{}]", pts_json.join(",")), json_i64s(&c.ws), json_impl_partition(&res), json_impl_partition(&seq))
        };
        let json = format!(
            "{{\"weight_family\":\"{}\",\"dim\":{},\"points\":{},\"weights\":{},\"weight_exponent\":{},\"weight_extra_shifts\":{},\"simultaneous_calls\":{},\"part_count\":{},\"max_iter\":{},\"pool\":{},\"scheme_leaves\":{},\"sort_replays\":{},\"impl\":{},\"impl_one_thread\":{}}}",
            c.wfamily,
            c.d,
            pts_field,
            ws_field,
            c.wexp,
            if big { "[]".to_string() } else { json_usizes(&c.wsh.iter().map(|x| *x as usize).collect::<Vec<_>>()) },
            c.conc,
            c.k,
            c.max_iter,
            c.pool,
            tree.as_ref().map_or(0, leaf_count),
            sorts.len(),
            impl_field,
            seq_field
        );
        let key = format!(
            "{}|{:?}|{}|{}|{:?}|{:?}|{}|{}|{}",
            c.wexp,
            c.wsh,
            c.conc,
            c.d,
            c.pts.iter().map(|p| p.iter().map(|x| x.to_bits()).collect::<Vec<_>>()).collect::<Vec<_>>(),
            c.ws,
            c.k,
            c.max_iter,
            c.pool
        );
        // non-trivial: inside the contract, at least 4 points and 2 parts (a real cut is made)
        let nontrivial = c.pts.len() >= 4 && c.k >= 2 && c.max_iter >= 1 && c.ws.iter().all(|w| *w > 0);
        w.push(coq, json, &key, nontrivial, &c.family);
        if hangs > 3 {
            break;
        }
    }
    w.finish(&format!(
        "\"hangs\":{},\"panics\":{},\"hook_panics\":{},\"sort_replays\":{},\"cases_with_empty_parts\":{},\"concurrent_cases\":{},\"concurrent_outputs_differing_from_the_solo_run\":{}",
        hangs, panics, hook_panics, sort_entries, empty_parts, conc_cases, conc_odd
    ));
}

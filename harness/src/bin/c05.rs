//! C05: ArcSwap under a controlled scheduler vs Model/ArcSwap.v.
//!
//! The `coupe_verif` hooks announce every shared access of ArcSwap's workers
//! (`YIELD` before, the access kind and value after).  The hook installed here
//! parks every worker at its yield point; a controller thread waits until all
//! chunks of the pass are parked or finished and releases exactly one, chosen
//! from the case's seed.  The run is therefore one sequentially consistent
//! interleaving, recorded as a global event trace that the Coq side replays.
use coupe::verif;
use coupe::Partition as _;
use coupe::Topology;
use std::sync::{Arc, Condvar, Mutex};
use std::time::{Duration, Instant};
use verif_harness::*;

/// known-finding class: decided by the input alone (the weight type)
const KF_UNSIGNED: &str = "arcswap-unsigned-weights";
/// known-finding class, decided by the input alone: f64 vertex weights with
/// `4 * thread_count * max(cap, total weight) + thread_count >= 2^53` (thread_count = chunks of
/// work_share, cap = max_part_weight as arc_swap computes it): only there can the per-thread budget
/// `pw + (max - pw) / thread_count`, rounded to a binary64 number, exceed the exact share
const KF_F64: &str = "arcswap-f64-budget-rounding";

/// weights `integer * f` whose sums are all exact in binary64
fn is_pow2_scale(f: f64) -> bool {
    f == 1.0 || f == 0.5 || f == 0.25 || f == 0.125
}

/// known_findings.json (never written at run time) has an open entry of this class
fn kf_open(out: &str, class: &str) -> bool {
    std::fs::read_to_string(format!("{}/../../../known_findings.json", out))
        .map(|t| {
            t.match_indices(class).any(|(i, _)| {
                let lo = t[..i].rfind('{').unwrap_or(0);
                let hi = t[i..].find('}').map(|x| x + i).unwrap_or(t.len());
                t[lo..hi].contains("\"open\"")
            })
        })
        .unwrap_or(false)
}

// ------------------------------------------------------------------ graph

/// Adjacency rows in arbitrary order, parallel edges and self loops allowed.
#[derive(Clone)]
struct AdjGraph {
    rows: Vec<Vec<(usize, i64)>>,
}
impl Topology<i64> for AdjGraph {
    type Neighbors<'n> = std::iter::Cloned<std::slice::Iter<'n, (usize, i64)>> where Self: 'n;
    fn len(&self) -> usize {
        self.rows.len()
    }
    fn neighbors(&self, vertex: usize) -> Self::Neighbors<'_> {
        self.rows[vertex].iter().cloned()
    }
}
impl AdjGraph {
    fn new(n: usize) -> Self {
        AdjGraph { rows: vec![Vec::new(); n] }
    }
    fn edge(&mut self, a: usize, b: usize, w: i64) {
        if a == b {
            self.rows[a].push((a, w));
        } else {
            self.rows[a].push((b, w));
            self.rows[b].push((a, w));
        }
    }
    /// rows sorted by neighbour, no duplicate neighbour: representable as a CSR matrix
    fn is_csr(&self) -> bool {
        self.rows.iter().all(|r| r.windows(2).all(|w| w[0].0 < w[1].0))
    }
    fn to_csr(&self) -> coupe::sprs::CsMat<i64> {
        let n = self.rows.len();
        let (mut ip, mut ix, mut d) = (vec![0usize], vec![], vec![]);
        for r in &self.rows {
            for (j, w) in r {
                ix.push(*j);
                d.push(*w);
            }
            ip.push(ix.len());
        }
        coupe::sprs::CsMat::new((n, n), ip, ix, d)
    }
    fn cut(&self, p: &[usize]) -> i64 {
        let mut c = 0;
        for (v, r) in self.rows.iter().enumerate() {
            for (u, w) in r {
                if *u < v && p[*u] != p[v] {
                    c += *w;
                }
            }
        }
        c
    }
}

// -------------------------------------------------------------- scheduler

#[derive(Clone, Copy, PartialEq, Debug)]
enum St {
    NotStarted,
    Running,
    Parked,
    Done,
    Dead,
}

#[derive(Clone, PartialEq, Debug)]
enum Policy {
    Uniform,
    RoundRobin,
    /// leave workers frozen right after a successful CAS / inside their
    /// neighbour-lock check / between their gain reads and their store
    Adversarial,
    /// run the same worker for a random burst of accesses
    Bursts,
    /// bounded preemption: keep running the current worker; at the listed global access
    /// indices (and when it finishes) hand over to the next parked worker, cyclically
    Preempt(Vec<usize>),
}

struct Sched {
    st: Vec<St>,
    /// the task holds this lock (successful CAS not yet followed by UNLOCK)
    holding: Vec<Option<usize>>,
    /// frozen in a window where an interference would matter
    sensitive: Vec<bool>,
    granted: Option<usize>,
    last_progress: Instant,
    finished: bool,
    trace: Vec<(usize, u8, usize, usize)>,
    passes: usize,
    choices: usize,
    late_starts: usize,
    dead: usize,
    rng: Rng,
    policy: Policy,
    last: usize,
    burst_left: u64,
}

struct Shared {
    m: Mutex<Sched>,
    cv: Condvar,
}

fn make_hook(sh: &Arc<Shared>) -> Arc<verif::Hook> {
    let sh = sh.clone();
    Arc::new(move |task, kind, index, value| {
        let mut g = sh.m.lock().unwrap();
        g.last_progress = Instant::now();
        match kind {
            verif::PASS_BEGIN => {
                g.st = vec![St::NotStarted; task];
                g.holding = vec![None; task];
                g.sensitive = vec![false; task];
                g.passes += 1;
                sh.cv.notify_all();
            }
            verif::TASK_BEGIN => {
                if task < g.st.len() {
                    g.st[task] = St::Running;
                }
                sh.cv.notify_all();
            }
            verif::TASK_END => {
                if task < g.st.len() {
                    g.st[task] = St::Done;
                }
                sh.cv.notify_all();
            }
            verif::YIELD => {
                if task >= g.st.len() {
                    return; // access outside a chunk closure: not scheduled
                }
                g.st[task] = St::Parked;
                sh.cv.notify_all();
                while g.granted != Some(task) {
                    g = sh.cv.wait(g).unwrap();
                }
                g.granted = None;
                g.st[task] = St::Running;
                g.last_progress = Instant::now();
            }
            _ => {
                if task < g.st.len() {
                    match kind {
                        verif::CAS => {
                            if value == 1 {
                                g.holding[task] = Some(index);
                                g.sensitive[task] = true;
                            }
                        }
                        verif::READ_LOCK => g.sensitive[task] = value == 0,
                        verif::READ_PART => g.sensitive[task] = g.holding[task].is_some(),
                        verif::STORE_PART => g.sensitive[task] = false,
                        verif::UNLOCK => {
                            g.holding[task] = None;
                            g.sensitive[task] = false;
                        }
                        _ => {}
                    }
                }
                g.trace.push((task, kind, index, value));
            }
        }
    })
}

fn choose(g: &mut Sched, parked: &[usize]) -> usize {
    let policy = g.policy.clone();
    match policy {
        Policy::Uniform => parked[g.rng.below(parked.len() as u64) as usize],
        Policy::RoundRobin => {
            let n = g.st.len();
            let mut t = (g.last + 1) % n;
            while !parked.contains(&t) {
                t = (t + 1) % n;
            }
            t
        }
        Policy::Adversarial => {
            let calm: Vec<usize> = parked.iter().cloned().filter(|t| !g.sensitive[*t]).collect();
            if !calm.is_empty() && g.rng.chance(9, 10) {
                calm[g.rng.below(calm.len() as u64) as usize]
            } else {
                parked[g.rng.below(parked.len() as u64) as usize]
            }
        }
        Policy::Preempt(points) => {
            let n = g.st.len();
            let switch = points.contains(&g.choices);
            let mut t = if switch { (g.last + 1) % n } else { g.last % n };
            while !parked.contains(&t) {
                t = (t + 1) % n;
            }
            t
        }
        Policy::Bursts => {
            if g.burst_left > 0 && parked.contains(&g.last) {
                g.burst_left -= 1;
                g.last
            } else {
                g.burst_left = match g.rng.below(3) {
                    0 => g.rng.below(4),
                    1 => g.rng.below(20),
                    _ => g.rng.below(200),
                };
                parked[g.rng.below(parked.len() as u64) as usize]
            }
        }
    }
}

fn controller(sh: Arc<Shared>) {
    let mut g = sh.m.lock().unwrap();
    let mut waiting_since: Option<Instant> = None;
    loop {
        if g.finished {
            return;
        }
        let running = g.granted.is_some() || g.st.iter().any(|s| *s == St::Running);
        if running {
            // a worker that stays Running without any hook call has died (panic)
            if g.granted.is_none() && g.last_progress.elapsed() > Duration::from_secs(3) {
                for s in g.st.iter_mut() {
                    if *s == St::Running {
                        *s = St::Dead;
                    }
                }
                g.dead += 1;
            }
        } else {
            let parked: Vec<usize> = (0..g.st.len()).filter(|t| g.st[*t] == St::Parked).collect();
            let not_started = g.st.iter().any(|s| *s == St::NotStarted);
            if !parked.is_empty() {
                let go = if not_started {
                    // give rayon time to start the remaining chunks; determinism needs all of them
                    let since = *waiting_since.get_or_insert_with(Instant::now);
                    if since.elapsed() > Duration::from_millis(1500) {
                        g.late_starts += 1;
                        true
                    } else {
                        false
                    }
                } else {
                    true
                };
                // a run of more than 40k accesses on an 8-vertex graph does not terminate: stop
                // scheduling, the watchdog reports it as a hang
                if go && g.choices < 40_000 {
                    waiting_since = None;
                    let t = choose(&mut g, &parked);
                    g.last = t;
                    g.choices += 1;
                    g.granted = Some(t);
                    g.last_progress = Instant::now();
                    sh.cv.notify_all();
                }
            }
        }
        let (ng, _) = sh.cv.wait_timeout(g, Duration::from_millis(2)).unwrap();
        g = ng;
    }
}

// ------------------------------------------------------------------ cases

struct Case {
    family: String,
    g: AdjGraph,
    vw: Vec<i64>,
    p0: Vec<usize>,
    threads: usize,
    mi: Option<f64>,
    policy: Policy,
    sseed: u64,
    csr: bool,
    /// run with `u64` vertex weights (known-finding stream, off unless enabled)
    unsigned: bool,
    /// run with `f64` vertex weights `vw[i] * fscale` (checked on outputs only, no replay)
    fscale: Option<f64>,
}

fn gen_graph(r: &mut Rng) -> (String, AdjGraph) {
    let n = r.range(3, 8) as usize;
    let mut g = AdjGraph::new(n);
    let wmax = *r.pick(&[1i64, 1, 3, 5]);
    let w = |r: &mut Rng| if wmax == 1 { 1 } else { r.range(1, wmax) };
    let fam = r.below(10);
    let name = match fam {
        0 => {
            for i in 0..n - 1 {
                let x = w(r);
                g.edge(i, i + 1, x);
            }
            "path"
        }
        1 => {
            for i in 0..n {
                let x = w(r);
                g.edge(i, (i + 1) % n, x);
            }
            "cycle"
        }
        2 => {
            for a in 0..n {
                for b in 0..a {
                    let x = w(r);
                    g.edge(a, b, x);
                }
            }
            "clique"
        }
        3 => {
            let c = r.below(n as u64) as usize;
            for i in 0..n {
                if i != c {
                    let x = w(r);
                    g.edge(c, i, x);
                }
            }
            "star"
        }
        4 | 5 | 6 => {
            let dens = *r.pick(&[25u64, 45, 70]);
            for a in 0..n {
                for b in 0..a {
                    if r.below(100) < dens {
                        let x = w(r);
                        g.edge(a, b, x);
                    }
                }
            }
            "random"
        }
        7 => {
            // parallel edges and unsorted rows
            let m = r.range(n as i64, 3 * n as i64);
            for _ in 0..m {
                let a = r.below(n as u64) as usize;
                let b = r.below(n as u64) as usize;
                if a != b {
                    let x = w(r);
                    g.edge(a, b, x);
                }
            }
            "multigraph"
        }
        8 => {
            // two-row grid: the shape of the library's own tests
            let h = n / 2;
            for i in 0..h {
                if i + 1 < h {
                    g.edge(i, i + 1, 1);
                    g.edge(h + i, h + i + 1, 1);
                }
                g.edge(i, h + i, 1);
            }
            "grid2"
        }
        _ => {
            // signed / zero edge weights, an occasional self loop
            for a in 0..n {
                for b in 0..a {
                    if r.below(100) < 55 {
                        let x = r.range(-2, 4);
                        g.edge(a, b, x);
                    }
                }
            }
            if r.chance(1, 3) {
                let a = r.below(n as u64) as usize;
                g.edge(a, a, 1);
            }
            "signed"
        }
    };
    if name != "multigraph" && r.chance(3, 4) {
        for row in g.rows.iter_mut() {
            row.sort();
        }
    }
    (name.to_string(), g)
}

/// Which of the two cap-sensitive families (docs/C05.md, "Correspondence").
#[derive(Clone, Copy, PartialEq)]
enum CapFam {
    /// a part holds no weight (unused id below the maximum, or only zero-weight vertices)
    Weightless,
    /// the input is already beyond the tolerance: heaviest part above (1+x)*ideal
    Beyond,
}

/// `max_part_weight` of arc_swap for W = i64
fn cap_i64(loads: &[i64], mi: Option<f64>) -> i64 {
    match mi {
        None => *loads.iter().max().unwrap(),
        Some(x) => {
            let ideal = loads.iter().sum::<i64>() as f64 / loads.len() as f64;
            (ideal + x * ideal) as i64
        }
    }
}

/// Inputs on which the value of the cap decides: some vertex `v` has a positive gain towards a
/// part `q` that sits at the cap (`load[q] <= cap < load[q] + w[v]`, so the move must be
/// refused), while a looser cap (heaviest input part / ideal taken over the loaded parts only)
/// would leave every worker enough headroom to make it.  Rejection sampling; the returned flag
/// says whether the predicate holds for the returned case.
fn gen_cap_case(r: &mut Rng, fam: CapFam) -> (Case, bool) {
    let mut best: Option<Case> = None;
    for _try in 0..300 {
        let n = r.range(5, 8) as usize;
        let mut g = AdjGraph::new(n);
        let gname = match r.below(4) {
            0 => {
                for i in 0..n - 1 {
                    g.edge(i, i + 1, r.range(1, 3));
                }
                "path"
            }
            1 => {
                for i in 0..n {
                    g.edge(i, (i + 1) % n, r.range(1, 2));
                }
                "cycle"
            }
            2 => {
                let h = n / 2;
                for i in 0..h {
                    if i + 1 < h {
                        g.edge(i, i + 1, 1);
                        g.edge(h + i, h + i + 1, 1);
                    }
                    g.edge(i, h + i, 1);
                }
                "grid2"
            }
            _ => {
                for a in 0..n {
                    for b in 0..a {
                        if r.below(100) < 50 {
                            g.edge(a, b, r.range(1, 3));
                        }
                    }
                }
                "random"
            }
        };
        for row in g.rows.iter_mut() {
            row.sort();
        }
        let k = r.range(2, 4) as usize;
        // light movable vertices, a few heavy anchors
        let mut vw: Vec<i64> = (0..n).map(|_| if r.chance(1, 3) { r.range(4, 12) } else { r.range(1, 2) }).collect();
        let mut p0: Vec<usize> = (0..n).map(|i| if r.chance(1, 3) { r.below(k as u64) as usize } else { i % k }).collect();
        if fam == CapFam::Weightless {
            let z = r.below(k as u64) as usize; // the weightless part
            if r.chance(1, 2) && k >= 3 && z + 1 < k {
                // unused id below the maximum
                for x in p0.iter_mut() {
                    if *x == z {
                        *x = k - 1;
                    }
                }
                p0[n - 1] = k - 1;
            } else {
                // present, but all its vertices weigh nothing
                p0[r.below(n as u64) as usize] = z;
                for i in 0..n {
                    if p0[i] == z {
                        vw[i] = 0;
                    }
                }
                if !p0.contains(&(k - 1)) {
                    p0[n - 1] = k - 1;
                    if z == k - 1 {
                        vw[n - 1] = 0;
                    }
                }
            }
        }
        let kk = usize::max(2, 1 + *p0.iter().max().unwrap());
        let mut loads = vec![0i64; kk];
        for i in 0..n {
            loads[p0[i]] += vw[i];
        }
        let total: i64 = loads.iter().sum();
        if total == 0 {
            continue;
        }
        let ideal = total as f64 / kk as f64;
        let threads = *r.pick(&[1usize, 2, 2, 3]);
        let tc = work_share(n, threads).1 as i64;
        // candidate (v, q): positive gain on the input partition
        let mut cands = vec![];
        for v in 0..n {
            for q in 0..kk {
                if q == p0[v] {
                    continue;
                }
                let gain: i64 = g.rows[v]
                    .iter()
                    .map(|(u, w)| if p0[*u] == p0[v] { -*w } else if p0[*u] == q { *w } else { 0 })
                    .sum();
                if gain > 0 && vw[v] > 0 {
                    cands.push((v, q));
                }
            }
        }
        if cands.is_empty() {
            continue;
        }
        let (v, q) = cands[r.below(cands.len() as u64) as usize];
        // put part q at the cap: Some(0.0) when that already does it, else the x that does
        let mi = if (ideal as i64) == loads[q] && r.chance(1, 2) {
            Some(0.0)
        } else if loads[q] as f64 >= ideal {
            Some((loads[q] as f64 + 0.5) / ideal - 1.0)
        } else {
            continue;
        };
        let cap = cap_i64(&loads, mi);
        let heaviest = *loads.iter().max().unwrap();
        let loaded = loads.iter().filter(|x| **x != 0).count().max(1);
        let loose_ideal = total as f64 / loaded as f64;
        let loose = i64::max(heaviest, (loose_ideal + mi.unwrap() * loose_ideal) as i64);
        let at_cap = loads[q] <= cap && cap < loads[q] + vw[v];
        let looser_allows = (loose - loads[q]) / tc >= vw[v];
        let fam_ok = match fam {
            CapFam::Weightless => loaded < kk,
            CapFam::Beyond => heaviest > cap,
        };
        let policy = match r.below(4) {
            0 => Policy::Uniform,
            1 => Policy::RoundRobin,
            2 => Policy::Adversarial,
            _ => Policy::Bursts,
        };
        let c = Case {
            family: format!("{}_{}", if fam == CapFam::Weightless { "weightless" } else { "beyondtol" }, gname),
            g,
            vw,
            p0,
            threads,
            mi,
            policy,
            sseed: r.next(),
            csr: r.chance(1, 2),
            unsigned: false,
            fscale: None,
        };
        if at_cap && looser_allows && fam_ok {
            return (c, true);
        }
        if fam_ok && best.is_none() {
            best = Some(c);
        }
    }
    match best {
        Some(c) => (c, false),
        None => (gen_case(r), false),
    }
}

/// Inputs on which the SUM of the per-thread budgets decides (docs/C05.md): the vertex count is
/// not a multiple of the chunk length (last chunk shorter), every chunk owns one vertex (a
/// "mover") with a positive gain into the same target part q, and every mover weighs more than
/// `headroom / thread_count` (so each worker must refuse it) but at most
/// `headroom * items_per_thread / len` (so a budget proportional to the chunk LENGTH, whose shares
/// add up to more than 1, would let all of them in and push q above the cap).
fn gen_budget_case(r: &mut Rng) -> (Case, bool) {
    for _try in 0..400 {
        let n = *r.pick(&[5usize, 7, 8, 10, 11]);
        let threads = r.range(2, 4) as usize;
        let (ipt, tc) = work_share(n, threads);
        if tc < 2 || tc * ipt == n || n - tc < 2 {
            continue;
        }
        let h = r.range(30, 240); // headroom of the target part
        let tb = (h as f64 / tc as f64) as i64;
        let mb = (h as f64 * ipt as f64 / n as f64) as i64;
        if mb <= tb {
            continue;
        }
        let (a, q) = if r.chance(1, 2) { (0usize, 1usize) } else { (1, 0) };
        let mut p0 = vec![usize::MAX; n];
        let mut vw = vec![0i64; n];
        let mut movers = vec![];
        for c in 0..tc {
            let lo = c * ipt;
            let hi = usize::min(lo + ipt, n);
            let m = lo + r.below((hi - lo) as u64) as usize;
            movers.push(m);
            p0[m] = a;
            vw[m] = r.range(tb + 1, mb);
        }
        let free: Vec<usize> = (0..n).filter(|i| !movers.contains(i)).collect();
        // two anchors of part q tied by a heavy edge (they never want to leave), the rest fillers
        let i1 = r.below(free.len() as u64) as usize;
        let mut i2 = r.below(free.len() as u64) as usize;
        if i2 == i1 {
            i2 = (i1 + 1) % free.len();
        }
        let (a1, a2) = (free[i1], free[i2]);
        let third = r.chance(1, 3);
        for &f in &free {
            if f == a1 || f == a2 {
                p0[f] = q;
                vw[f] = r.range(1, 60);
            } else {
                p0[f] = if third && r.chance(1, 2) { 2 } else if r.chance(1, 2) { a } else { q };
                vw[f] = r.range(0, 6);
            }
        }
        let kk = usize::max(2, 1 + *p0.iter().max().unwrap());
        let load = |p0: &[usize], vw: &[i64], x: usize| -> i64 { (0..n).filter(|i| p0[*i] == x).map(|i| vw[i]).sum() };
        // place the cap at load[q] + h
        let mi = if r.chance(1, 3) {
            // None: the cap is the heaviest input part; make that part `a`, exactly h above q
            let need = load(&p0, &vw, a) - h - (load(&p0, &vw, q) - vw[a1]);
            if need < 1 {
                continue;
            }
            vw[a1] = need;
            let la = load(&p0, &vw, a);
            if (0..kk).any(|x| load(&p0, &vw, x) > la) {
                continue;
            }
            None
        } else {
            let total: i64 = vw.iter().sum();
            let ideal = total as f64 / kk as f64;
            let x = (load(&p0, &vw, q) as f64 + h as f64 + 0.5) / ideal - 1.0;
            if !(x >= 0.0) {
                continue;
            }
            Some(x)
        };
        let loads: Vec<i64> = (0..kk).map(|x| load(&p0, &vw, x)).collect();
        let cap = cap_i64(&loads, mi);
        if cap - loads[q] != h {
            continue;
        }
        let mut g = AdjGraph::new(n);
        g.edge(a1, a2, r.range(8, 12));
        for &m in &movers {
            g.edge(m, if r.chance(1, 2) { a1 } else { a2 }, r.range(1, 2));
        }
        for row in g.rows.iter_mut() {
            row.sort();
        }
        let sum_w: i64 = movers.iter().map(|m| vw[*m]).sum();
        let ok = sum_w > h && movers.iter().all(|m| tb < vw[*m] && vw[*m] <= mb);
        let policy = match r.below(5) {
            0 => Policy::Uniform,
            1 => Policy::RoundRobin,
            2 => Policy::Adversarial,
            3 => Policy::Preempt(vec![]),
            _ => Policy::Bursts,
        };
        let c = Case {
            family: format!("budgetsum_w{}", tc),
            g,
            vw,
            p0,
            threads,
            mi,
            policy,
            sseed: r.next(),
            csr: r.chance(1, 2),
            unsigned: false,
            fscale: None,
        };
        if ok {
            return (c, true);
        }
    }
    (gen_case(r), false)
}

/// the class of KF_F64, from the input alone
fn f64_budget_class(c: &Case) -> bool {
    let f = match c.fscale {
        Some(f) => f,
        None => return false,
    };
    let n = c.p0.len();
    let kk = usize::max(2, 1 + *c.p0.iter().max().unwrap());
    let w: Vec<f64> = c.vw.iter().map(|x| *x as f64 * f).collect();
    let mut loads = vec![0f64; kk];
    for i in 0..n {
        loads[c.p0[i]] += w[i];
    }
    let total: f64 = loads.iter().sum();
    let cap = match c.mi {
        None => loads.iter().cloned().fold(f64::MIN, f64::max),
        Some(x) => {
            let ideal = total / kk as f64;
            ideal + x * ideal
        }
    };
    let tc = work_share(n, c.threads).1 as f64;
    4.0 * tc * f64::max(cap.abs(), total) + tc >= 9007199254740992.0
}

/// f64 weights at magnitude 2^52 (open known finding KF_F64): two chunks, one mover of weight 2 per
/// chunk tied to an anchor of the target part; the target sits 3 below the cap, each budget
/// x + 1.5 is rounded to x + 2 and both movers get in.
fn gen_f64big_case(r: &mut Rng) -> Case {
    let x: i64 = (1i64 << 52) + 2 * r.range(0, 1000);
    let mut g = AdjGraph::new(5);
    g.edge(0, 1, r.range(1, 2));
    g.edge(3, 4, r.range(1, 2));
    Case {
        family: "f64big".to_string(),
        g,
        vw: vec![2, x / 2, x - 1, 2, x / 2],
        p0: vec![0, 1, 0, 0, 1],
        threads: 2,
        mi: None,
        policy: match r.below(3) {
            0 => Policy::Uniform,
            1 => Policy::RoundRobin,
            _ => Policy::Preempt(vec![]),
        },
        sseed: r.next(),
        csr: false,
        unsigned: false,
        fscale: Some(1.0),
    }
}

/// Vertices of high degree (30..70, in particular 31..34 and 63..65): stars, wheels and two-hub
/// graphs with random parts and edge weights, a loose cap, 1..4 workers.  The gain of the hub
/// depends on every one of its neighbours.
fn gen_highdeg_case(r: &mut Rng) -> Case {
    let d = *r.pick(&[30usize, 31, 32, 33, 33, 33, 33, 33, 33, 34, 34, 40, 48, 63, 64, 65, 65, 65, 70]);
    let k = r.range(2, 3) as usize;
    let shape = r.below(10);
    let (name, g, n) = if shape < 6 {
        // star: hub 0 with d leaves
        let n = d + 1;
        let mut g = AdjGraph::new(n);
        for i in 1..n {
            g.edge(0, i, r.range(1, 3));
        }
        ("star", g, n)
    } else if shape < 9 || d > 34 {
        // wheel: hub 0 with d rim vertices on a cycle
        let n = d + 1;
        let mut g = AdjGraph::new(n);
        for i in 1..n {
            g.edge(0, i, r.range(1, 3));
        }
        for i in 1..n {
            let j = if i + 1 < n { i + 1 } else { 1 };
            g.edge(i, j, 1);
        }
        ("wheel", g, n)
    } else {
        // two hubs 0 and 1 joined by an edge, every other vertex tied to both: both hubs have degree d
        let n = d + 1;
        let mut g = AdjGraph::new(n);
        g.edge(0, 1, r.range(1, 2));
        for i in 2..n {
            g.edge(0, i, r.range(1, 3));
            g.edge(1, i, r.range(1, 3));
        }
        ("twohubs", g, n)
    };
    let mut g = g;
    for row in g.rows.iter_mut() {
        row.sort();
    }
    let kk = k;
    // the hub's part is 0; the others are split almost evenly so that single neighbours decide the sign
    let mut p0: Vec<usize> = (0..n).map(|i| if i == 0 { 0 } else { r.below(kk as u64) as usize }).collect();
    if !p0.contains(&(kk - 1)) {
        p0[n - 1] = kk - 1;
    }
    if name != "twohubs" && r.chance(2, 3) {
        // constructed: the LAST neighbour of the hub decides.  Two parts; the last neighbour is in
        // the hub's part with a heavy edge, the others lean towards part 1 by less than that edge:
        // the hub's true gain is <= 0, but > 0 for anyone who overlooks its last neighbour
        let others = d - 1;
        let a = (others + 2) / 2 + (others % 2); // in part 1
        for i in 1..n {
            p0[i] = if i < n - 1 && i <= a { 1 } else { 0 };
        }
        for (j, e) in g.rows[0].iter_mut().enumerate() {
            e.1 = if j + 1 == d { 3 } else { 1 };
        }
        for i in 1..n {
            for e in g.rows[i].iter_mut() {
                if e.0 == 0 {
                    e.1 = if i == n - 1 { 3 } else { 1 };
                }
            }
        }
    }
    Case {
        family: format!("highdeg_{}", name),
        g,
        vw: (0..n).map(|_| r.range(1, 3)).collect(),
        p0,
        threads: r.range(1, 4) as usize,
        mi: Some(*r.pick(&[3.0, 8.0])),
        policy: match r.below(4) {
            0 => Policy::Uniform,
            1 => Policy::RoundRobin,
            2 => Policy::Adversarial,
            _ => Policy::Bursts,
        },
        sseed: r.next(),
        csr: r.chance(1, 2),
        unsigned: false,
        fscale: None,
    }
}

fn gen_case(r: &mut Rng) -> Case {
    let (family, g) = gen_graph(r);
    let n = g.rows.len();
    let k = r.range(2, 4) as usize;
    let p0: Vec<usize> = match r.below(5) {
        0 => (0..n).map(|i| i % k).collect(),
        1 => (0..n).map(|i| (i * k / n).min(k - 1)).collect(),
        2 => {
            // one-sided: almost everything in one part (some ids unused)
            let a = r.below(k as u64) as usize;
            (0..n).map(|_| if r.chance(1, 5) { r.below(k as u64) as usize } else { a }).collect()
        }
        _ => (0..n).map(|_| r.below(k as u64) as usize).collect(),
    };
    let vw: Vec<i64> = match r.below(5) {
        0 => vec![1; n],
        1 => (0..n).map(|_| r.range(1, 5)).collect(),
        2 => (0..n).map(|_| r.range(0, 2)).collect(),
        3 => {
            let mut v: Vec<i64> = (0..n).map(|_| r.range(1, 3)).collect();
            let i = r.below(n as u64) as usize;
            v[i] = r.range(10, 40);
            v
        }
        _ => (0..n).map(|_| r.range(0, 9)).collect(),
    };
    let mi = match r.below(12) {
        0 | 1 => None,
        2 => Some(0.0),
        3 => Some(0.05),
        4 => Some(0.25),
        5 => Some(0.5),
        6 | 7 => Some(1.0),
        8 | 9 => Some(3.0),
        10 => Some(8.0),
        _ => Some(r.below(1000) as f64 / 500.0),
    };
    let threads = match r.below(10) {
        0 => 1,
        1..=4 => 2,
        5..=7 => 3,
        _ => 4,
    };
    let policy = match r.below(9) {
        0 | 1 => Policy::Uniform,
        2 => Policy::RoundRobin,
        3 | 4 | 5 => Policy::Adversarial,
        6 => {
            let k = r.range(1, 4) as usize;
            let mut pts: Vec<usize> = (0..k).map(|_| r.below(160) as usize).collect();
            pts.sort();
            Policy::Preempt(pts)
        }
        _ => Policy::Bursts,
    };
    let csr = g.is_csr() && r.chance(1, 2);
    Case { family, g, vw, p0, threads, mi, policy, sseed: r.next(), csr, unsigned: false, fscale: None }
}

/// A small two- or three-worker input on which the uninterrupted schedule moves vertices:
/// the base of a systematic sweep over preemption points.
fn gen_sweep_base(seed: u64) -> (Case, usize) {
    let mut r = Rng::new(seed);
    let mut last = None;
    for _ in 0..40 {
        let n = r.range(4, 6) as usize;
        let mut g = AdjGraph::new(n);
        match r.below(3) {
            0 => {
                for i in 0..n - 1 {
                    g.edge(i, i + 1, r.range(1, 2));
                }
            }
            1 => {
                for i in 0..n {
                    g.edge(i, (i + 1) % n, 1);
                }
            }
            _ => {
                for a in 0..n {
                    for b in 0..a {
                        if r.below(100) < 60 {
                            g.edge(a, b, r.range(1, 3));
                        }
                    }
                }
            }
        }
        let k = r.range(2, 3) as usize;
        let p0: Vec<usize> = (0..n).map(|i| if r.chance(1, 4) { r.below(k as u64) as usize } else { i % k }).collect();
        let c = Case {
            family: "sweep".to_string(),
            g,
            vw: (0..n).map(|_| r.range(1, 2)).collect(),
            p0,
            threads: r.range(2, 3) as usize,
            mi: Some(*r.pick(&[1.0, 3.0])),
            policy: Policy::Preempt(vec![]),
            sseed: 1,
            csr: false,
            unsigned: false,
            fscale: None,
        };
        let o = run_case(&c);
        let good = matches!(&o.res, Guarded::Done((_, md)) if md.move_count > 0) && o.choices <= 140;
        let l = o.choices;
        last = Some((c, l));
        if good {
            break;
        }
    }
    last.unwrap()
}

struct Outcome {
    res: Guarded<(Vec<usize>, coupe::AsMetadata)>,
    trace: Vec<(usize, u8, usize, usize)>,
    passes: usize,
    choices: usize,
    late: usize,
    dead: usize,
}

fn run_case(c: &Case) -> Outcome {
    let sh = Arc::new(Shared {
        m: Mutex::new(Sched {
            st: vec![],
            holding: vec![],
            sensitive: vec![],
            granted: None,
            last_progress: Instant::now(),
            finished: false,
            trace: vec![],
            passes: 0,
            choices: 0,
            late_starts: 0,
            dead: 0,
            rng: Rng::new(c.sseed),
            policy: c.policy.clone(),
            last: 0,
            burst_left: 0,
        }),
        cv: Condvar::new(),
    });
    verif::set_hook(Some(make_hook(&sh)));
    let ctl = {
        let sh = sh.clone();
        std::thread::spawn(move || controller(sh))
    };
    let (g, vw, p0, mi, csr, unsigned) = (c.g.clone(), c.vw.clone(), c.p0.clone(), c.mi, c.csr, c.unsigned);
    let fscale = c.fscale;
    let res = guarded(c.threads, Duration::from_secs(30), move || {
        let mut p = p0;
        let md = if let Some(f) = fscale {
            let fw: Vec<f64> = vw.iter().map(|x| *x as f64 * f).collect();
            coupe::ArcSwap { max_imbalance: mi }.partition(&mut p, (&g, &fw[..])).unwrap()
        } else if unsigned {
            let uw: Vec<u64> = vw.iter().map(|x| *x as u64).collect();
            coupe::ArcSwap { max_imbalance: mi }.partition(&mut p, (&g, &uw[..])).unwrap()
        } else if csr {
            let m = g.to_csr();
            coupe::ArcSwap { max_imbalance: mi }.partition(&mut p, (m.view(), &vw[..])).unwrap()
        } else {
            coupe::ArcSwap { max_imbalance: mi }.partition(&mut p, (&g, &vw[..])).unwrap()
        };
        (p, md)
    });
    {
        let mut gd = sh.m.lock().unwrap();
        gd.finished = true;
        sh.cv.notify_all();
    }
    let _ = ctl.join();
    verif::set_hook(None);
    let gd = sh.m.lock().unwrap();
    Outcome {
        res,
        trace: gd.trace.clone(),
        passes: gd.passes,
        choices: gd.choices,
        late: gd.late_starts,
        dead: gd.dead,
    }
}

fn enc(e: &(usize, u8, usize, usize)) -> u64 {
    (((e.0 as u64 * 8 + (e.1 as u64 - 10)) * 256 + e.2 as u64) * 256) + e.3 as u64
}

fn coq_rows(g: &AdjGraph) -> String {
    let rows: Vec<String> = g
        .rows
        .iter()
        .map(|r| {
            let es: Vec<String> = r.iter().map(|(j, w)| format!("({}%nat,{})", j, coq_z(*w as i128))).collect();
            format!("[{}]", es.join(";"))
        })
        .collect();
    format!("[{}]", rows.join(";"))
}
fn json_rows(g: &AdjGraph) -> String {
    let rows: Vec<String> = g
        .rows
        .iter()
        .map(|r| {
            let es: Vec<String> = r.iter().map(|(j, w)| format!("[{},{}]", j, w)).collect();
            format!("[{}]", es.join(","))
        })
        .collect();
    format!("[{}]", rows.join(","))
}

fn main() {
    let a = parse_args();
    quiet_panics();
    let mut rng = Rng::new(a.seed);
    let mut w = CaseWriter::new(
        &a.out,
        "From Coupe Require Import Lib.Prelude Lib.Report Run.RunC05.\nOpen Scope Z_scope.",
        "case05",
        "run05",
        40,
    );
    let (mut hangs, mut panics, mut late, mut dead, mut events, mut moved_cases) = (0usize, 0usize, 0usize, 0usize, 0usize, 0usize);
    let (mut rerun, mut rerun_diff, mut multi_pass, mut raced_cases, mut locked_cases, mut balance_cases) =
        (0usize, 0usize, 0usize, 0usize, 0usize, 0usize);
    // The unsigned-weights stream exhibits a known finding (the subtraction `max_part_weight - pw`
    // underflows for a part above the cap); it runs when known_findings.json (never written at
    // run time) has an open entry of that class, or when VERIF_C05_UNSIGNED=1.
    let unsigned_stream = std::env::var("VERIF_C05_UNSIGNED").map(|v| v == "1").unwrap_or(false) || kf_open(&a.out, KF_UNSIGNED);
    // f64 weights at magnitude 2^52: the rounded per-thread budget over-allocates (open known finding)
    let f64big_stream = std::env::var("VERIF_C05_F64BIG").map(|v| v == "1").unwrap_or(false) || kf_open(&a.out, KF_F64);
    // plan: systematic sweeps over preemption points first, random cases after
    let thorough = a.tier == "thorough";
    let mut sweep: Vec<(usize, Vec<usize>)> = Vec::new(); // (base, preemption points)
    let mut bases: Vec<Case> = Vec::new();
    let nb = if thorough { 3 } else { 1 };
    for b in 0..nb {
        let (base, l) = gen_sweep_base(a.seed.wrapping_mul(1000).wrapping_add(b as u64));
        bases.push(base);
        // every single preemption point; in the thorough tier also every pair (evenly thinned to 1200)
        for i in 0..l {
            sweep.push((b, vec![i]));
        }
        if thorough {
            let total = l * l.saturating_sub(1) / 2;
            let stride = (total / 1200).max(1);
            let mut c = 0usize;
            for i in 0..l {
                for j in i + 1..l {
                    if c % stride == 0 {
                        sweep.push((b, vec![i, j]));
                    }
                    c += 1;
                }
            }
        }
    }
    sweep.truncate(a.cases / 2);
    let mut sweep_cases = 0usize;
    let mut cap_decides = 0usize;
    let mut budget_decides = 0usize;
    for idx in 0..a.cases {
        let mut r = rng.fork();
        let c = if idx < sweep.len() {
            let (b, pts) = &sweep[idx];
            sweep_cases += 1;
            let base = &bases[*b];
            Case {
                family: format!("sweep{}", pts.len()),
                g: base.g.clone(),
                vw: base.vw.clone(),
                p0: base.p0.clone(),
                threads: base.threads,
                mi: base.mi,
                policy: Policy::Preempt(pts.clone()),
                sseed: 1,
                csr: false,
                unsigned: false,
                fscale: None,
            }
        } else {
            let mut c = match idx % 10 {
                3 => {
                    let (c, ok) = gen_cap_case(&mut r, CapFam::Weightless);
                    cap_decides += ok as usize;
                    c
                }
                5 => {
                    let (c, ok) = gen_cap_case(&mut r, CapFam::Beyond);
                    cap_decides += ok as usize;
                    c
                }
                1 => {
                    let (c, ok) = gen_budget_case(&mut r);
                    budget_decides += ok as usize;
                    c
                }
                _ => gen_case(&mut r),
            };
            if std::env::var("VERIF_C05_UNSIGNED").map(|v| v == "2").unwrap_or(false) {
                // experiment: unsigned weights where no part is above the cap (any panic is then
                // the thread-local underflow, which depends on the schedule)
                c.unsigned = true;
                c.csr = false;
                if c.mi.is_some() {
                    c.mi = Some(8.0);
                }
                c.family = format!("unsigned2_{}", c.family);
            } else if idx % 10 == 9 {
                // f64 weights with EXACT sums (integers times 1, 1/2, 1/4, 1/8): replayed through the f64
                // instance of the machine; the base case comes from any of the families
                c = match r.below(4) {
                    0 => gen_cap_case(&mut r, CapFam::Weightless).0,
                    1 => gen_cap_case(&mut r, CapFam::Beyond).0,
                    2 => gen_budget_case(&mut r).0,
                    _ => c,
                };
                c.fscale = Some(*r.pick(&[1.0, 0.5, 0.25, 0.125]));
                c.csr = false;
                c.family = format!("f64x_{}", c.family);
            } else if idx % 10 == 7 {
                // f64 weights (the library's own tests use them): non-representable fractions
                c.fscale = Some(*r.pick(&[0.1, 0.3, 1.0 / 3.0, 1e-3, 2.5]));
                c.csr = false;
                c.family = format!("f64_{}", c.family);
            } else if idx % 100 == 72 {
                c = gen_highdeg_case(&mut r);
            } else if f64big_stream && idx % 50 == 31 {
                c = gen_f64big_case(&mut r);
            } else if idx % 25 == 13 {
                // i64 totals of 2^53 and more: a heavy vertex next to a light one, one worker, cap = None;
                // the headroom of the light part is about 2^b (a share computed through f64 rounds it)
                let b = r.range(53, 61) as u32;
                let ulp = 1i64 << (b - 52);
                let (heavy, light) = if r.chance(1, 3) {
                    ((1i64 << b) + r.range(1, 4 * ulp), r.range(1, 3))
                } else if b == 53 {
                    // tie, rounds to the even mantissa: heavy - 1 -> heavy
                    ((1i64 << b) + 4 * r.range(0, 1000), 1)
                } else {
                    // heavy is a binary64 number and light is below half an ulp: heavy - light -> heavy
                    ((1i64 << b) + ulp * r.range(0, 1000), r.range(1, ulp / 2 - 1))
                };
                let mut g = AdjGraph::new(2);
                g.edge(0, 1, 1);
                c = Case {
                    family: "big_i64".to_string(),
                    g,
                    vw: vec![heavy, light],
                    p0: vec![0, 1],
                    threads: 1,
                    mi: None,
                    policy: Policy::Uniform,
                    sseed: r.next(),
                    csr: false,
                    unsigned: false,
                    fscale: None,
                };
            } else if unsigned_stream && idx % 20 == 18 {
                // known-finding stream: unsigned weights, a tight cap, an unbalanced input
                c.unsigned = true;
                c.csr = false;
                c.mi = Some(*r.pick(&[0.0, 0.05, 0.25]));
                let k = 1 + c.p0.iter().max().unwrap();
                if c.p0.len() >= 3 {
                    for i in 0..c.p0.len() - 1 {
                        c.p0[i] = 0;
                    }
                    let last = c.p0.len() - 1;
                    c.p0[last] = (k - 1).max(1);
                }
                for w in c.vw.iter_mut() {
                    *w = (*w).max(1);
                }
                c.family = format!("unsigned_{}", c.family);
            }
            c
        };
        if let Some(o) = a.only {
            if o != idx {
                continue;
            }
        }
        let mut c = c;
        if std::env::var("VERIF_C05_SEQUENTIAL").is_ok() {
            // replay aid: same input, workers run one after the other
            c.policy = Policy::Preempt(vec![]);
        }
        let o = run_case(&c);
        late += o.late;
        dead += o.dead;
        events += o.trace.len();
        // same seed => same schedule: re-run a sample and compare the traces
        if idx % 16 == 0 && matches!(o.res, Guarded::Done(_)) {
            let o2 = run_case(&c);
            rerun += 1;
            if o2.trace != o.trace {
                rerun_diff += 1;
            }
        }
        let n = c.g.rows.len();
        let (impl_coq, impl_json, md_coq) = match &o.res {
            Guarded::Done((p, md)) => {
                if md.move_count > 0 {
                    moved_cases += 1;
                }
                if md.pass_count > 2 {
                    multi_pass += 1;
                }
                if md.race_count > 0 {
                    raced_cases += 1;
                }
                if md.locked_count > 0 {
                    locked_cases += 1;
                }
                if md.bad_balance_count > 0 {
                    balance_cases += 1;
                }
                let mdv = [
                    md.edge_cut_gain as i128,
                    md.pass_count as i128,
                    md.move_attempts as i128,
                    md.move_count as i128,
                    md.race_count as i128,
                    md.locked_count as i128,
                    md.no_gain_count as i128,
                    md.bad_balance_count as i128,
                    md.vertices_per_thread as i128,
                ];
                (
                    format!("(IOk {})", coq_nlist(p.iter().map(|x| *x as u128))),
                    format!(
                        "{{\"ok\":{},\"cut_before\":{},\"cut_after\":{},\"metadata\":{}}}",
                        json_usizes(p),
                        c.g.cut(&c.p0),
                        c.g.cut(p),
                        json_str(&format!("{:?}", md))
                    ),
                    coq_zlist(mdv.iter().cloned()),
                )
            }
            Guarded::Panic(m) => {
                panics += 1;
                ("IPanic".to_string(), format!("{{\"panic\":{}}}", json_str(m)), "[]%Z".to_string())
            }
            Guarded::Hang => {
                hangs += 1;
                ("IHang".to_string(), "{\"hang\":true}".to_string(), "[]%Z".to_string())
            }
        };
        let mi_coq = match c.mi {
            None => "None".to_string(),
            Some(x) => format!("(Some {}%N)", x.to_bits()),
        };
        let tr: Vec<u64> = if matches!(o.res, Guarded::Hang) { vec![] } else { o.trace.iter().map(enc).collect() };
        let coq = format!(
            "mk05 {} {} {} {} {} {} {} {} {}",
            coq_rows(&c.g),
            match c.fscale {
                // exact-sum f64 weights travel as bit patterns
                Some(f) if is_pow2_scale(f) => coq_zlist(c.vw.iter().map(|x| (*x as f64 * f).to_bits() as i128)),
                _ => coq_zlist(c.vw.iter().map(|x| *x as i128)),
            },
            coq_natlist(c.p0.iter().cloned()),
            c.threads,
            mi_coq,
            coq_nlist(tr.iter().map(|x| *x as u128)),
            impl_coq,
            md_coq,
            match c.fscale {
                Some(f) if is_pow2_scale(f) => "2%N",
                Some(_) => "1%N",
                None => "0%N",
            }
        );
        let json = format!(
            "{{{}\"n\":{},\"rows\":{},\"vertex_weights\":{},\"p0\":{},\"threads\":{},\"max_imbalance\":{},\"topology\":\"{}\",\"policy\":\"{:?}\",\"schedule_seed\":{},\"passes\":{},\"choices\":{},\"events\":{},\"trace_enc\":{},\"impl\":{}}}",
            if c.unsigned {
                format!("\"kf\":\"{}\",\"weight_type\":\"u64\",", KF_UNSIGNED)
            } else if let Some(f) = c.fscale {
                if f64_budget_class(&c) {
                    format!("\"kf\":\"{}\",\"weight_type\":\"f64\",\"weight_scale\":{},", KF_F64, f)
                } else {
                    format!("\"weight_type\":\"f64\",\"weight_scale\":{},", f)
                }
            } else {
                "\"weight_type\":\"i64\",".to_string()
            },
            n,
            json_rows(&c.g),
            json_i64s(&c.vw),
            json_usizes(&c.p0),
            c.threads,
            match c.mi {
                None => "null".to_string(),
                Some(x) => format!("{}", x),
            },
            if c.csr { "sprs::CsMatView" } else { "adjacency rows" },
            c.policy,
            c.sseed,
            o.passes,
            o.choices,
            o.trace.len(),
            format!("[{}]", tr.iter().map(|x| x.to_string()).collect::<Vec<_>>().join(",")),
            impl_json
        );
        // distinct by (graph, weights, partition, pool size, cap, recorded schedule)
        let key = format!("{:?}|{:?}|{:?}|{}|{:?}|{:?}|{:?}", c.g.rows, c.vw, c.p0, c.threads, c.mi.map(|x| x.to_bits()), tr, c.fscale.map(|x| x.to_bits()));
        // non-trivial: at least two workers and at least one vertex moved
        let nontrivial = match &o.res {
            Guarded::Done((_, md)) => md.move_count > 0 && work_share(n, c.threads).1 >= 2,
            _ => false,
        };
        let fam = match &c.policy {
            Policy::Preempt(_) => format!("{}/Preempt", c.family),
            p => format!("{}/{:?}", c.family, p),
        };
        w.push(coq, json, &key, nontrivial, &fam);
        if hangs > 2 {
            break;
        }
    }
    w.finish(&format!(
        "\"hangs\":{},\"panics\":{},\"systematic_sweep_cases\":{},\"cases_where_the_cap_decides\":{},\"cases_where_the_budget_sum_decides\":{},\"late_starts\":{},\"dead_workers\":{},\"events\":{},\"cases_with_moves\":{},\"cases_with_3plus_passes\":{},\"cases_with_races\":{},\"cases_with_lock_conflicts\":{},\"cases_with_balance_refusals\":{},\"reruns\":{},\"rerun_trace_differs\":{}",
        hangs, panics, sweep_cases, cap_decides, budget_decides, late, dead, events, moved_cases, multi_pass, raced_cases, locked_cases, balance_cases, rerun, rerun_diff
    ));
}

/// src/work_share.rs (private in coupe): (items per thread, thread count)
fn work_share(total: usize, max_threads: usize) -> (usize, usize) {
    let m = usize::min(total, max_threads);
    let per = (total + m - 1) / m;
    (per, (total + per - 1) / per)
}

//! C13: CompleteKarmarkarKarp vs Model/Ckk.v — case generator and runner.
use coupe::Partition as _;
use std::time::Duration;
use verif_harness::*;

/// The k-th vector of the exhaustive enumeration of all vectors over {0..4}
/// of length 1..=6 (5 + 25 + ... + 15625 = 19530 vectors).
fn small_vector(mut k: u64) -> Vec<i64> {
    let mut len = 1;
    let mut block = 5u64;
    while k >= block {
        k -= block;
        len += 1;
        block *= 5;
    }
    (0..len).map(|_| { let d = (k % 5) as i64; k /= 5; d }).collect()
}
const SMALL_TOTAL: u64 = 5 + 25 + 125 + 625 + 3125 + 15625;

fn gen_case(r: &mut Rng, tier: &str, idx: usize) -> (String, Vec<i64>, f64, usize) {
    let big = tier == "thorough";
    // thorough tier: the first SMALL_TOTAL cases enumerate every vector over {0..4} up to length 6 at tolerance 0
    if big && (idx as u64) < SMALL_TOTAL {
        let ws = small_vector(idx as u64);
        let n = ws.len();
        return ("exhaustive_small".to_string(), ws, 0.0, n);
    }
    let fam = r.below(16);
    let mut forced_tol: Option<f64> = None;
    let (name, ws): (&str, Vec<i64>) = match fam {
        0 | 9 | 10 | 11 => {
            // a random element of the exhaustive small-alphabet space
            ("small_alphabet", small_vector(r.below(SMALL_TOTAL)))
        }
        12 | 13 => {
            // the two largest weights together balance the rest exactly (up to the tolerance)
            let k = r.range(1, 5) as usize;
            let rest: Vec<i64> = (0..k).map(|_| r.range(1, 9)).collect();
            let s: i64 = rest.iter().sum();
            let m = *rest.iter().max().unwrap();
            let slack = if r.chance(1, 2) { 0 } else { r.range(0, 2) };
            let target = s + slack; // a + b
            let a = (target + 1) / 2;
            let b = target - a;
            let mut ws = rest;
            if b >= m {
                ws.push(a);
                ws.push(b);
            } else {
                ws.push(target.max(m));
            }
            for i in (1..ws.len()).rev() {
                let j = r.below(i as u64 + 1) as usize;
                ws.swap(i, j);
            }
            let total: i64 = ws.iter().sum();
            forced_tol = Some(if slack == 0 || total == 0 { 0.0 } else { slack as f64 / total as f64 });
            ("pair_vs_rest", ws)
        }
        14 => {
            // sums close to (but inside) the i64 range: the contract only asks that sums do not overflow
            let n = r.range(2, 6) as usize;
            let budget = i64::MAX / 4 * 3; // total stays below 0.75 * i64::MAX
            let mut left = budget;
            let mut ws = Vec::new();
            for k in 0..n {
                let x = if k + 1 == n { r.range(0, left.min(1 << 40)) } else { r.range(left / 3, left / 2) };
                ws.push(x);
                left -= x;
            }
            forced_tol = Some(*r.pick(&[0.0, 0.5, 0.9, 0.99, 1.0]));
            ("near_i64_max", ws)
        }
        15 => {
            // binary64 boundary of `T::from_f64(sum as f64 * tolerance)`: the only achievable
            // difference is 2^k + e against a bound of 2^k (tolerance 1/2), k in 53..60
            let k = r.range(53, 61) as u32;
            let e = r.range(0, 3);
            let a = (1i64 << k) + (1i64 << (k - 1)) + e;
            let mut b = 1i64 << (k - 1);
            let mut ws = vec![a];
            // optionally split the small side into several weights (the best difference stays a - sum(b))
            for _ in 0..r.below(4) {
                let x = r.range(1, (b / 2).max(2));
                ws.push(x);
                b -= x;
            }
            ws.push(b);
            for i in (1..ws.len()).rev() {
                let j = r.below(i as u64 + 1) as usize;
                ws.swap(i, j);
            }
            forced_tol = Some(*r.pick(&[0.5, 0.5, 0.5, 0.49999999999999994, 0.5000000000000001]));
            ("f64_boundary", ws)
        }
        1 => {
            let n = r.range(2, if big { 13 } else { 11 }) as usize;
            ("random", (0..n).map(|_| r.range(0, 100)).collect())
        }
        2 => {
            let n = r.range(2, 11) as usize;
            let v = r.range(1, 9);
            ("ties", (0..n).map(|_| if r.chance(3, 4) { v } else { r.range(0, 9) }).collect())
        }
        3 => {
            let n = r.range(2, 11) as usize;
            let mut ws: Vec<i64> = (0..n).map(|_| r.range(0, 10)).collect();
            let i = r.below(n as u64) as usize;
            ws[i] = r.range(50, 1000);
            ("one_dominant", ws)
        }
        4 => {
            // a perfect partition exists by construction
            let n = r.range(1, 6) as usize;
            let a: Vec<i64> = (0..n).map(|_| r.range(1, 60)).collect();
            let s: i64 = a.iter().sum();
            let mut b = Vec::new();
            let mut left = s;
            while left > 0 {
                let x = r.range(1, left.min(40));
                b.push(x);
                left -= x;
            }
            let mut ws = a;
            ws.extend(b);
            for i in (1..ws.len()).rev() {
                let j = r.below(i as u64 + 1) as usize;
                ws.swap(i, j);
            }
            ws.truncate(13);
            ("perfect_exists", ws)
        }
        5 => {
            let n = r.range(1, 10) as usize;
            ("zeros", (0..n).map(|_| if r.chance(1, 2) { 0 } else { r.range(0, 20) }).collect())
        }
        6 => {
            let n = r.range(14, if big { 22 } else { 18 }) as usize;
            ("long_loose", (0..n).map(|_| r.range(0, 1000)).collect())
        }
        7 => {
            let n = r.range(1, 3) as usize;
            ("tiny", (0..n).map(|_| r.range(0, 5)).collect())
        }
        _ => {
            let n = r.range(2, 10) as usize;
            ("large_values", (0..n).map(|_| r.range(0, 1 << 40)).collect())
        }
    };
    let total: i64 = ws.iter().sum();
    let tol = if let Some(t) = forced_tol {
        t
    } else if name == "long_loose" {
        *r.pick(&[0.05, 0.1, 0.3])
    } else {
        match r.below(10) {
            0 | 1 | 2 => 0.0,
            3 => 0.01,
            4 => 0.05,
            5 => 0.1,
            6 => 0.5,
            7 => 1.0,
            // an exact small difference: d / total
            8 => if total > 0 { r.range(0, 3) as f64 / total as f64 } else { 0.0 },
            _ => (r.below(1000) as f64) / 1000.0,
        }
    };
    // malformed stream: partition length differs (shorter, longer, empty)
    let mut plen = ws.len();
    if r.chance(1, 14) {
        plen = match r.below(3) {
            0 => 0,
            1 => ws.len() + 1 + r.below(3) as usize,
            _ => ws.len().saturating_sub(1 + r.below(2) as usize),
        };
    }
    (name.to_string(), ws, tol, plen)
}

fn main() {
    let a = parse_args();
    quiet_panics();
    let mut rng = Rng::new(a.seed);
    let mut w = CaseWriter::new(
        &a.out,
        "From Coupe Require Import Lib.Prelude Lib.Report Run.RunC13.",
        "case13",
        "run13",
        250,
    );
    let mut hangs = 0usize;
    let mut panics = 0usize;
    for idx in 0..a.cases {
        let mut r = rng.fork();
        let (fam, ws, tol, plen) = gen_case(&mut r, &a.tier, idx);
        if let Some(o) = a.only {
            if o != idx {
                continue;
            }
        }
        let p0: Vec<usize> = vec![usize::MAX; plen];
        let ws2 = ws.clone();
        let p02 = p0.clone();
        let res = guarded(0, Duration::from_secs(20), move || {
            let mut p = p02;
            coupe::CompleteKarmarkarKarp { tolerance: tol }
                .partition(&mut p, ws2.iter().cloned())
                .map(|()| p)
        });
        match &res {
            Guarded::Hang => hangs += 1,
            Guarded::Panic(_) => panics += 1,
            _ => {}
        }
        let coq = format!(
            "mk13 {} {}%N {} {}",
            coq_zlist(ws.iter().map(|x| *x as i128)),
            tol.to_bits(),
            coq_nlist(p0.iter().map(|x| *x as u128)),
            coq_impl_partition(&res)
        );
        let json = format!(
            "{{\"weights\":{},\"tolerance\":{},\"tolerance_bits\":{},\"partition_len\":{},\"impl\":{}}}",
            json_i64s(&ws),
            tol,
            tol.to_bits(),
            plen,
            json_impl_partition(&res)
        );
        let key = format!("{:?}|{}|{}", ws, tol.to_bits(), plen);
        // non-trivial: at least 3 weights, matching lengths (the search has a real choice to make)
        let nontrivial = ws.len() >= 3 && plen == ws.len();
        w.push(coq, json, &key, nontrivial, &fam);
        if hangs > 3 {
            break;
        }
    }
    w.finish(&format!("\"hangs\":{},\"panics\":{}", hangs, panics));
}

//! C13: CompleteKarmarkarKarp vs Model/Ckk.v — case generator and runner.
use coupe::Partition as _;
use std::time::Duration;
use verif_harness::*;

fn gen_case(r: &mut Rng, tier: &str) -> (String, Vec<i64>, f64, usize) {
    let big = tier == "thorough";
    let fam = r.below(9);
    let (name, ws): (&str, Vec<i64>) = match fam {
        0 => {
            let n = r.range(1, 7) as usize;
            ("small_alphabet", (0..n).map(|_| r.range(0, 4)).collect())
        }
        1 => {
            let n = r.range(2, if big { 13 } else { 11 }) as usize;
            ("random", (0..n).map(|_| r.range(0, 100)).collect())
        }
        2 => {
            let n = r.range(2, 11) as usize;
            let v = r.range(1, 9);
            ("ties", (0..n).map(|_| if r.chance(3, 4) { v } else { r.range(0, 9) }).collect())
        }
        3 => {
            let n = r.range(2, 11) as usize;
            let mut ws: Vec<i64> = (0..n).map(|_| r.range(0, 10)).collect();
            let i = r.below(n as u64) as usize;
            ws[i] = r.range(50, 1000);
            ("one_dominant", ws)
        }
        4 => {
            // a perfect partition exists by construction
            let n = r.range(1, 6) as usize;
            let a: Vec<i64> = (0..n).map(|_| r.range(1, 60)).collect();
            let s: i64 = a.iter().sum();
            let mut b = Vec::new();
            let mut left = s;
            while left > 0 {
                let x = r.range(1, left.min(40));
                b.push(x);
                left -= x;
            }
            let mut ws = a;
            ws.extend(b);
            // shuffle
            for i in (1..ws.len()).rev() {
                let j = r.below(i as u64 + 1) as usize;
                ws.swap(i, j);
            }
            ws.truncate(13);
            ("perfect_exists", ws)
        }
        5 => {
            let n = r.range(1, 10) as usize;
            ("zeros", (0..n).map(|_| if r.chance(1, 2) { 0 } else { r.range(0, 20) }).collect())
        }
        6 => {
            let n = r.range(14, if big { 22 } else { 18 }) as usize;
            ("long_loose", (0..n).map(|_| r.range(0, 1000)).collect())
        }
        7 => {
            let n = r.range(1, 3) as usize;
            ("tiny", (0..n).map(|_| r.range(0, 5)).collect())
        }
        _ => {
            let n = r.range(2, 10) as usize;
            ("large_values", (0..n).map(|_| r.range(0, 1 << 40)).collect())
        }
    };
    let tol = if name == "long_loose" {
        *r.pick(&[0.05, 0.1, 0.3])
    } else {
        match r.below(8) {
            0 | 1 => 0.0,
            2 => 0.01,
            3 => 0.05,
            4 => 0.1,
            5 => 0.5,
            6 => 1.0,
            _ => (r.below(1000) as f64) / 1000.0,
        }
    };
    // malformed stream: partition length differs (shorter, longer, empty)
    let mut plen = ws.len();
    if r.chance(1, 12) {
        plen = match r.below(3) {
            0 => 0,
            1 => ws.len() + 1 + r.below(3) as usize,
            _ => ws.len().saturating_sub(1 + r.below(2) as usize),
        };
    }
    (name.to_string(), ws, tol, plen)
}

fn main() {
    let a = parse_args();
    quiet_panics();
    let mut rng = Rng::new(a.seed);
    let mut w = CaseWriter::new(
        &a.out,
        "From Coupe Require Import Lib.Prelude Lib.Report Run.RunC13.",
        "case13",
        "run13",
        250,
    );
    let mut hangs = 0usize;
    let mut panics = 0usize;
    for idx in 0..a.cases {
        let mut r = rng.fork();
        let (fam, ws, tol, plen) = gen_case(&mut r, &a.tier);
        if let Some(o) = a.only {
            if o != idx {
                continue;
            }
        }
        let p0: Vec<usize> = vec![usize::MAX; plen];
        let ws2 = ws.clone();
        let p02 = p0.clone();
        let res = guarded(0, Duration::from_secs(20), move || {
            let mut p = p02;
            coupe::CompleteKarmarkarKarp { tolerance: tol }
                .partition(&mut p, ws2.iter().cloned())
                .map(|()| p)
        });
        match &res {
            Guarded::Hang => hangs += 1,
            Guarded::Panic(_) => panics += 1,
            _ => {}
        }
        let coq = format!(
            "mk13 {} {}%N {} {}",
            coq_zlist(ws.iter().map(|x| *x as i128)),
            tol.to_bits(),
            coq_nlist(p0.iter().map(|x| *x as u128)),
            coq_impl_partition(&res)
        );
        let json = format!(
            "{{\"weights\":{},\"tolerance\":{},\"tolerance_bits\":{},\"partition_len\":{},\"impl\":{}}}",
            json_i64s(&ws),
            tol,
            tol.to_bits(),
            plen,
            json_impl_partition(&res)
        );
        let key = format!("{:?}|{}|{}", ws, tol.to_bits(), plen);
        // non-trivial: at least 3 weights, matching lengths (the search has a real choice to make)
        let nontrivial = ws.len() >= 3 && plen == ws.len();
        w.push(coq, json, &key, nontrivial, &fam);
        if hangs > 3 {
            break;
        }
    }
    w.finish(&format!("\"hangs\":{},\"panics\":{}", hangs, panics));
}

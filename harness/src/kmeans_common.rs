//! KMeans correspondence (bins c02km, c06km): every case is run on the real
//! `coupe::KMeans::partition` under pools 1,2,3,4,8,16, twice each, and handed to
//! Coq (Run/RunKM.v) with everything the concrete model Model/KMeans.v needs:
//! bit patterns of the points / weights / tolerances, the iteration limits, the
//! flags and the rotation matrix `obb_to_aabb`.
//!
//! The rotation matrix is NOT computed by the model (nalgebra's symmetric
//! eigendecomposition).  `OrientedBoundingBox` is private to coupe, so the matrix
//! is recomputed here with the same nalgebra calls as src/geometry.rs and then
//! VALIDATED against the implementation's own box: ZCurve builds the same
//! `OrientedBoundingBox::from_points(points)` and its hook exports the box and
//! the rotated coordinates (`zcurve_aabb`, `zcurve_rotated`); the case is
//! compared with the model only when, under every pool size, M * p equals the
//! exported rotated point bit for bit for every p and the box is the exported box.
use coupe::nalgebra::allocator::Allocator;
use coupe::nalgebra::{ArrayStorage, Const, DefaultAllocator, DimDiff, DimSub, SMatrix, SVector};
use coupe::Partition as _;
use std::time::Duration;
use verif_harness::*;

#[path = "gen.rs"]
mod gen;

const POOLS: [usize; 6] = [1, 2, 3, 4, 8, 16];
const REPS: usize = 2;

// approx 0.5.1: `impl_ulps_eq!(f64, u64)` with epsilon = f64::EPSILON, max_ulps = 4
fn ulps_eq(a: f64, b: f64) -> bool {
    if (a - b).abs() <= f64::EPSILON {
        return true;
    }
    if a.signum() != b.signum() {
        return false;
    }
    let (ia, ib) = (a.to_bits(), b.to_bits());
    (if ia > ib { ia - ib } else { ib - ia }) <= 4
}

/// `householder_reflection(inertia_vector(inertia_matrix(points))).try_inverse()`
/// with the sequential sums (src/geometry.rs:210-325).
fn obb_matrix<const D: usize>(points: &[SVector<f64, D>]) -> Option<SMatrix<f64, D, D>>
where
    Const<D>: DimSub<Const<1>>,
    DefaultAllocator: Allocator<f64, Const<D>, Const<D>, Buffer = ArrayStorage<f64, D, D>>
        + Allocator<f64, DimDiff<Const<D>, Const<1>>>,
{
    // inertia_matrix
    let centroid: SVector<f64, D> = points.iter().sum();
    let centroid: SVector<f64, D> = centroid / points.len() as f64;
    let mat: SMatrix<f64, D, D> = points
        .iter()
        .map(|point| {
            let offset = point - centroid;
            offset * offset.transpose()
        })
        .sum();
    // inertia_vector
    let sym_eigen = mat.symmetric_eigen();
    let mut indices = (0..D).collect::<Vec<_>>();
    if sym_eigen.eigenvalues.iter().any(|x| x.is_nan()) {
        return None;
    }
    indices.as_mut_slice().sort_unstable_by(|a, b| {
        sym_eigen.eigenvalues[*b]
            .partial_cmp(&sym_eigen.eigenvalues[*a])
            .unwrap()
    });
    let element: SVector<f64, D> = sym_eigen.eigenvectors.column(indices[0]).into();
    // householder_reflection
    let mut e0 = SVector::<f64, D>::from_element(0.);
    e0[0] = 1.0;
    let norm = element.norm();
    let scaled = element / norm;
    let aabb_to_obb = if scaled.iter().zip(e0.iter()).all(|(a, b)| ulps_eq(*a, *b)) {
        SMatrix::<f64, D, D>::identity()
    } else {
        let sign = if element[0] > 0. { -1. } else { 1. };
        let w = element + sign * e0 * element.norm();
        let id = SMatrix::<f64, D, D>::identity();
        id - 2. * &w * w.transpose() / (w.transpose() * w)[0]
    };
    aabb_to_obb.try_inverse()
}

fn bits_rows<const D: usize>(m: &SMatrix<f64, D, D>) -> Vec<Vec<u64>> {
    (0..D).map(|i| (0..D).map(|j| m[(i, j)].to_bits()).collect()).collect()
}

/// The rotation matrix (by rows, bit patterns) if the implementation's own box
/// agrees with it under every pool size.
fn validated_rotation<const D: usize>(pts: &[Vec<f64>], stats: &mut Stats) -> Option<Vec<Vec<u64>>>
where
    Const<D>: DimSub<Const<1>>,
    DefaultAllocator: Allocator<f64, Const<D>, Const<D>, Buffer = ArrayStorage<f64, D, D>>
        + Allocator<f64, DimDiff<Const<D>, Const<1>>>,
    coupe::ZCurve: for<'a> coupe::Partition<&'a [SVector<f64, D>]>,
{
    let v: Vec<SVector<f64, D>> = pts.iter().map(|q| SVector::<f64, D>::from_iterator(q.iter().cloned())).collect();
    if v.is_empty() {
        return None;
    }
    let m = match obb_matrix(&v) {
        Some(m) => m,
        None => {
            stats.rot_none += 1;
            return None;
        }
    };
    // our rotated coordinates and box
    let rotated: Vec<u64> = v.iter().flat_map(|p| (m * p).iter().map(|c| c.to_bits()).collect::<Vec<u64>>()).collect();
    for &threads in POOLS.iter() {
        let _ = coupe::verif::drain();
        let v2 = v.clone();
        let n = v.len();
        let r = guarded(threads, Duration::from_secs(30), move || {
            let mut p = vec![0usize; n];
            let _ = coupe::ZCurve { part_count: 1, order: 1 }.partition(&mut p, &v2[..]);
        });
        let recs = coupe::verif::drain();
        if !matches!(r, Guarded::Done(())) {
            stats.rot_mismatch += 1;
            return None;
        }
        let take = |k: &str| -> Option<Vec<u64>> { recs.iter().find(|(n, _)| *n == k).map(|(_, d)| d.clone()) };
        match (take("zcurve_aabb"), take("zcurve_rotated")) {
            (Some(_), Some(rot)) if rot == rotated => {}
            _ => {
                stats.rot_mismatch += 1;
                return None;
            }
        }
    }
    stats.rot_validated += 1;
    Some(bits_rows(&m))
}

#[derive(Default)]
pub struct Stats {
    rot_validated: usize,
    rot_mismatch: usize,
    rot_none: usize,
    hangs: usize,
    panics: usize,
    model_cases: usize,
    exact_cases: usize,
    differing_outputs: usize,
    event_cases: usize,
    event_records: usize,
    obb_records: usize,
    obb_record_mismatch: usize,
}

fn coq_bits(xs: &[u64]) -> String {
    coq_nlist(xs.iter().map(|x| *x as u128))
}

fn is_int(x: f64) -> bool {
    x.is_finite() && x == x.trunc() && x.abs() < 9007199254740992.0 && !(x == 0.0 && x.is_sign_negative())
}

pub fn drive(header: &str, run_fn: &str) {
    let a = parse_args();
    quiet_panics();
    coupe::verif::trace_enable(true);
    let mut rng = Rng::new(a.seed ^ 0x6b6d);
    let mut w = CaseWriter::new(&a.out, header, "caseKM", run_fn, 40);
    let mut stats = Stats::default();
    let thorough = a.tier == "thorough";
    for idx in 0..a.cases {
        let mut r = rng.fork();
        if let Some(o) = a.only {
            if o != idx {
                continue;
            }
        }
        // ---- stream
        // 0 exact (integer coordinates and weights; compared with the model, C06 clause)
        // 1 fractional values (C02 clauses only)  2 large (implementation only)
        // 3 outside the contract (invalid partition / short point set), compared with the model
        let stream = match r.below(20) {
            0..=12 => 0,
            13..=15 => 1,
            16..=17 => 2,
            _ => 3,
        };
        let d = if r.chance(1, 3) { 3 } else { 2 };
        let n = match stream {
            2 => r.range(100, if thorough { 3000 } else { 600 }) as usize,
            // the rotation matrix is schedule independent (hence validated, hence the case is
            // compared with the model) when the point count is a power of two: exact centroid
            0 | 3 if r.chance(3, 5) => *r.pick(&[2usize, 4, 8, 8, 16, 16, 32, 32, 64]),
            _ => match r.below(12) {
                0 => 1,
                1 => 2,
                2 => 3,
                3 => *r.pick(&[4usize, 8, 16, 32]),
                4 => r.range(33, 60) as usize,
                _ => r.range(4, 32) as usize,
            },
        };
        let k = r.range(1, 8) as usize;
        let (mut pfam, mut pts) = gen::points(&mut r, n, d);
        if stream == 0 || stream == 3 {
            // integer-valued families only
            while pfam == "arbitrary_f64" {
                let (f, p) = gen::points(&mut r, n, d);
                pfam = f;
                pts = p;
            }
        }
        let (wfam, wi) = gen::weights(&mut r, n);
        let mut ws: Vec<f64> = wi.iter().map(|x| *x as f64).collect();
        if stream == 1 {
            match r.below(3) {
                0 => ws = ws.iter().map(|x| x / 7.0).collect(),
                1 => ws = ws.iter().map(|x| x * 0.1).collect(),
                _ => {}
            }
            if pfam != "arbitrary_f64" && r.chance(1, 2) {
                for p in pts.iter_mut() {
                    for c in p.iter_mut() {
                        *c = *c / 3.0 + 0.1;
                    }
                }
            }
        }
        let mut p0 = gen::valid_partition(&mut r, n, k);
        // families of initial partitions: one-sided, blocks, a cluster about to lose all its points
        if n >= 2 && r.chance(1, 5) {
            let kk = k.max(1).min(n);
            match r.below(3) {
                0 => {
                    for (i, x) in p0.iter_mut().enumerate() {
                        *x = if i < kk { i } else { 0 };
                    }
                }
                1 => {
                    for (i, x) in p0.iter_mut().enumerate() {
                        *x = i * kk / n;
                    }
                }
                _ => {
                    for (i, x) in p0.iter_mut().enumerate() {
                        *x = i % kk;
                    }
                }
            }
        }
        let mut contract = true;
        if stream == 3 && n >= 2 {
            contract = false;
            match r.below(3) {
                0 => {
                    // a gap in the ids: "Input partition is unsound"
                    let m = p0.iter().cloned().max().unwrap_or(0);
                    p0[0] = m + 2;
                }
                1 => {
                    // fewer points than ids (the zips truncate)
                    pts.truncate(n - 1);
                }
                _ => {
                    // fewer weights than points
                    ws.truncate(n / 2);
                }
            }
        }
        let max_iter = *r.pick(&[0usize, 1, 2, 3, 5, 8]);
        let max_balance_iter = *r.pick(&[0usize, 1, 2, 3, 4]);
        let imbalance_tol = *r.pick(&[0.0, 0.01, 1.0, 5.0, 50.0, 1e9]);
        let delta = *r.pick(&[0.0, 0.01, 1.0, 100.0]);
        let erode = r.chance(1, 8);
        let hilbert = r.chance(1, 2);
        let early = r.chance(1, 3);
        let exact = pts.iter().all(|p| p.iter().all(|c| is_int(*c))) && ws.iter().all(|x| is_int(*x));

        // ---- rotation
        let rot = if stream == 2 || erode {
            None
        } else if d == 2 {
            validated_rotation::<2>(&pts, &mut stats)
        } else {
            validated_rotation::<3>(&pts, &mut stats)
        };
        let model = rot.is_some() && exact && !erode;

        // ---- the implementation, every pool, twice
        let mut impls_coq: Vec<String> = Vec::new();
        let mut impls_json: Vec<String> = Vec::new();
        let mut outs: Vec<Option<Vec<usize>>> = Vec::new();
        for &threads in POOLS.iter() {
            for _ in 0..REPS {
                let (pts2, ws2, p2) = (pts.clone(), ws.clone(), p0.clone());
                let res = guarded(threads, Duration::from_secs(120), move || {
                    let mut p = p2;
                    let mut km = coupe::KMeans {
                        imbalance_tol,
                        delta_threshold: delta,
                        max_iter,
                        max_balance_iter,
                        erode,
                        hilbert,
                        mbr_early_break: early,
                    };
                    if d == 2 {
                        let v: Vec<coupe::Point2D> = pts2.iter().map(|q| coupe::Point2D::new(q[0], q[1])).collect();
                        km.partition(&mut p, (&v[..], &ws2[..])).unwrap();
                    } else {
                        let v: Vec<coupe::Point3D> = pts2.iter().map(|q| coupe::Point3D::new(q[0], q[1], q[2])).collect();
                        km.partition(&mut p, (&v[..], &ws2[..])).unwrap();
                    }
                    p
                });
                match res {
                    Guarded::Done(p) => {
                        impls_coq.push(format!("IOk {}", coq_nlist(p.iter().map(|x| *x as u128))));
                        impls_json.push(format!("{{\"threads\":{threads},\"ok\":{}}}", json_usizes(&p)));
                        outs.push(Some(p));
                    }
                    Guarded::Panic(m) => {
                        stats.panics += 1;
                        impls_coq.push("IPanic".to_string());
                        impls_json.push(format!("{{\"threads\":{threads},\"panic\":{}}}", json_str(&m)));
                        outs.push(None);
                    }
                    Guarded::Hang => {
                        stats.hangs += 1;
                        impls_coq.push("IHang".to_string());
                        impls_json.push(format!("{{\"threads\":{threads},\"hang\":true}}"));
                        outs.push(None);
                    }
                }
            }
        }
        if outs.iter().any(|o| *o != outs[0]) {
            stats.differing_outputs += 1;
        }
        // the trajectory: the same call with max_iter = 0, 1, .., max_iter - 1 (pool 4, once each) stops with the
        // assignments the longer run has after that many outer iterations; the model's trace must show them
        let mut prefix_coq: Vec<String> = Vec::new();
        let mut prefix_json: Vec<String> = Vec::new();
        if model {
            for mi in 0..max_iter {
                let (pts2, ws2, p2) = (pts.clone(), ws.clone(), p0.clone());
                let res = guarded(4, Duration::from_secs(120), move || {
                    let mut p = p2;
                    let mut km = coupe::KMeans {
                        imbalance_tol,
                        delta_threshold: delta,
                        max_iter: mi,
                        max_balance_iter,
                        erode,
                        hilbert,
                        mbr_early_break: early,
                    };
                    if d == 2 {
                        let v: Vec<coupe::Point2D> = pts2.iter().map(|q| coupe::Point2D::new(q[0], q[1])).collect();
                        km.partition(&mut p, (&v[..], &ws2[..])).unwrap();
                    } else {
                        let v: Vec<coupe::Point3D> = pts2.iter().map(|q| coupe::Point3D::new(q[0], q[1], q[2])).collect();
                        km.partition(&mut p, (&v[..], &ws2[..])).unwrap();
                    }
                    p
                });
                match res {
                    Guarded::Done(p) => {
                        prefix_coq.push(format!("IOk {}", coq_nlist(p.iter().map(|x| *x as u128))));
                        prefix_json.push(json_usizes(&p));
                    }
                    Guarded::Panic(_) => {
                        prefix_coq.push("IPanic".to_string());
                        prefix_json.push("\"panic\"".to_string());
                    }
                    Guarded::Hang => {
                        stats.hangs += 1;
                        prefix_coq.push("IHang".to_string());
                        prefix_json.push("\"hang\"".to_string());
                    }
                }
            }
        }
        // the records of k-means' own iterations (present only when /repo has them: feature-detected): one more
        // run under pool 4 with an empty trace; the records are made by the sequential driver code, in program order
        let _ = coupe::verif::drain();
        let mut events_coq = "None".to_string();
        if model {
            let (pts2, ws2, p2) = (pts.clone(), ws.clone(), p0.clone());
            let res = guarded(4, Duration::from_secs(120), move || {
                let mut p = p2;
                let mut km = coupe::KMeans {
                    imbalance_tol,
                    delta_threshold: delta,
                    max_iter,
                    max_balance_iter,
                    erode,
                    hilbert,
                    mbr_early_break: early,
                };
                if d == 2 {
                    let v: Vec<coupe::Point2D> = pts2.iter().map(|q| coupe::Point2D::new(q[0], q[1])).collect();
                    km.partition(&mut p, (&v[..], &ws2[..])).unwrap();
                } else {
                    let v: Vec<coupe::Point3D> = pts2.iter().map(|q| coupe::Point3D::new(q[0], q[1], q[2])).collect();
                    km.partition(&mut p, (&v[..], &ws2[..])).unwrap();
                }
            });
            let recs = coupe::verif::drain();
            let canon = |b: u64| -> u64 {
                // any NaN -> the canonical quiet NaN of Lib/SFloat.v
                if (b & 0x7ff0_0000_0000_0000) == 0x7ff0_0000_0000_0000 && (b & 0x000f_ffff_ffff_ffff) != 0 {
                    0x7ff8_0000_0000_0000
                } else {
                    b
                }
            };
            if matches!(res, Guarded::Done(())) && recs.iter().any(|(k, _)| *k == "kmeans_assign") {
                let mut items: Vec<String> = Vec::new();
                for (k, data) in recs.iter() {
                    match *k {
                        "kmeans_assign" => items.push(format!("(0%N, {})", coq_nlist(data.iter().map(|x| *x as u128)))),
                        "kmeans_bounds" => items.push(format!("(1%N, {})", coq_nlist(data.iter().map(|x| canon(*x) as u128)))),
                        "kmeans_influences" => items.push(format!("(2%N, {})", coq_nlist(data.iter().map(|x| canon(*x) as u128)))),
                        _ => {}
                    }
                }
                // the implementation's own rotation matrix (columns) against the one handed to the model
                if let Some(rows) = &rot {
                    for (_, data) in recs.iter().filter(|(k, _)| *k == "kmeans_obb") {
                        stats.obb_records += 1;
                        // (M * e_j loses the sign of a zero entry: (-0.0) * 1 + x * 0 = +0.0)
                        let z = |b: u64| if b << 1 == 0 { 0 } else { b };
                        let same = (0..d).all(|i| (0..d).all(|j| data.get(j * d + i).map(|b| z(*b)) == Some(z(rows[i][j]))));
                        if !same {
                            stats.obb_record_mismatch += 1;
                        }
                    }
                }
                events_coq = format!("(Some [{}])", items.join(";"));
                stats.event_cases += 1;
                stats.event_records += items.len();
            }
        }
        if model {
            stats.model_cases += 1;
        }
        if exact {
            stats.exact_cases += 1;
        }
        // C06's open known finding: OBB-based algorithms when the inertia sums are inexact
        let kf = if exact && rot.is_none() && !n.is_power_of_two() { Some("obb-inexact-sums") } else { None };

        let pts_coq: Vec<String> = pts.iter().map(|p| coq_bits(&p.iter().map(|c| c.to_bits()).collect::<Vec<_>>())).collect();
        let rot_coq = match &rot {
            Some(m) => format!("(Some [{}])", m.iter().map(|row| coq_bits(row)).collect::<Vec<_>>().join(";")),
            None => "None".to_string(),
        };
        let coq = format!(
            "mkKM {} ([{}] : list (list N)) {} {} {} {} {} {} {} {} {} {} {} {} {} [{}] [{}] {}",
            d,
            pts_coq.join(";"),
            coq_bits(&ws.iter().map(|x| x.to_bits()).collect::<Vec<_>>()),
            coq_nlist(p0.iter().map(|x| *x as u128)),
            imbalance_tol.to_bits(),
            delta.to_bits(),
            max_iter,
            max_balance_iter,
            coq_bool(erode),
            coq_bool(hilbert),
            coq_bool(early),
            rot_coq,
            coq_bool(model),
            coq_bool(exact),
            coq_bool(contract),
            impls_coq.join(";"),
            prefix_coq.join(";"),
            events_coq
        );
        let params = format!(
            "\"max_iter\":{max_iter},\"max_balance_iter\":{max_balance_iter},\"imbalance_tol\":{imbalance_tol:?},\"delta_threshold\":{delta:?},\"erode\":{erode},\"hilbert\":{hilbert},\"mbr_early_break\":{early}"
        );
        let input = format!(
            "\"dim\":{d},\"points\":{},\"weights\":[{}],\"partition\":{}",
            gen::json_points(&pts),
            ws.iter().map(|x| format!("{x:?}")).collect::<Vec<_>>().join(","),
            json_usizes(&p0)
        );
        let kfj = match kf {
            Some(k) => format!(",\"kf\":\"{k}\""),
            None => String::new(),
        };
        let json = format!(
            "{{\"alg\":\"kmeans\",\"stream\":{stream},{params},{input},\"model\":{model},\"exact\":{exact},\"contract\":{contract},\"impl\":[{}],\"prefix\":[{}]{kfj}}}",
            impls_json.join(","),
            prefix_json.join(",")
        );
        let key = format!("{params}|{input}");
        let distinct = {
            let mut q = p0.clone();
            q.sort();
            q.dedup();
            q.len()
        };
        let nontrivial = n >= 3 && distinct >= 2 && max_iter >= 1 && max_balance_iter >= 1;
        let sname = ["exact", "fractional", "large", "outside"][stream];
        w.push(coq, json, &key, nontrivial, &format!("{sname}:{pfam}/{wfam}"));
        if stats.hangs > 2 {
            break;
        }
    }
    w.finish(&format!(
        "\"hangs\":{},\"panics\":{},\"rot_validated\":{},\"rot_mismatch\":{},\"rot_none\":{},\"model_cases\":{},\"exact_cases\":{},\"differing_outputs\":{},\"event_cases\":{},\"event_records\":{},\"obb_records\":{},\"obb_record_mismatch\":{}",
        stats.hangs, stats.panics, stats.rot_validated, stats.rot_mismatch, stats.rot_none, stats.model_cases, stats.exact_cases, stats.differing_outputs, stats.event_cases, stats.event_records, stats.obb_records, stats.obb_record_mismatch
    ));
}

"""Per-property configuration of the checks: collected from tools/props_d/Cxx.py
(one file per property: PROP = check configuration, MANIFEST = MANIFEST.json
texts, GENERATORS = translator functions)."""
import importlib.util
import os

TB_COMMON = [
    "Coq 8.16.1 kernel (coqc, full .vo build; vm_compute used for finite certificates and witnesses; native_compute not used)",
    "hand-written Gallina model (coq/Model), tied to /repo only by the correspondence run and the translator",
    "tools/translate.py (regex-level extraction of literals/tables from the Rust source; fails closed)",
    "correspondence harness (Rust, /verif/harness) and the in-Coq evaluation of cases (coq/Run, vm_compute); no extraction is used",
    "Coq.Floats.SpecFloat as the meaning of IEEE-754 binary64/binary32 operations (validated bit-for-bit on every case that uses floats)",
]

PROPS = {}
MANIFESTS = {}
_d = os.path.join(os.path.dirname(os.path.abspath(__file__)), "props_d")
for _f in sorted(os.listdir(_d)):
    if not _f.endswith(".py"):
        continue
    _spec = importlib.util.spec_from_file_location("props_d_" + _f[:-3], os.path.join(_d, _f))
    _m = importlib.util.module_from_spec(_spec)
    _spec.loader.exec_module(_m)
    if hasattr(_m, "PROP"):
        _p = dict(_m.PROP)
        _p["trusted_base"] = TB_COMMON + _p.get("trusted_base", [])
        PROPS[_f[:-3]] = _p
        MANIFESTS[_f[:-3]] = _m.MANIFEST

"""Per-property configuration of the checks (read by tools/check.py)."""

TB_COMMON = [
    "Coq 8.16.1 kernel (coqc, full .vo build; vm_compute used for finite certificates and witnesses; native_compute not used)",
    "hand-written Gallina model (coq/Model), tied to /repo only by the correspondence run and the translator",
    "tools/translate.py (regex-level extraction of literals/tables from the Rust source; fails closed)",
    "correspondence harness (Rust, /verif/harness) and the in-Coq evaluation of cases (coq/Run, vm_compute); no extraction is used",
    "Coq.Floats.SpecFloat as the meaning of IEEE-754 binary64/binary32 operations (validated bit-for-bit on every case that uses floats)",
]

PROPS = {
    "C13": dict(
        bin="c13",
        run_targets=["Run/RunC13.vo"],
        prop_targets=["Properties/C13.vo"],
        cases=dict(quick=1500, thorough=12000),
        level="proof",
        rule="cases drawn from 9 families (small alphabet, random, ties, one dominant, perfect partition exists, zeros, "
             "long+loose tolerance, tiny, large values) x 8 tolerance choices, plus a malformed stream (partition length "
             "shorter/longer/empty); distinct = distinct (weights, tolerance bits, partition length); non-trivial = at "
             "least 3 weights and matching lengths",
        class_names={0: "Ok", 1: "NotFound", 2: "other error", 3: "panic", 4: "hang"},
        trusted_base=TB_COMMON + [
            "axioms: none (every theorem of Properties/C13.v is closed under the global context)",
            "modelled, not verified: i64 overflow of the weight sum (contract: sums do not overflow), f64 weights (run with integer weights only)",
        ],
        assumptions=[
            "weights are non-negative i64 whose sum does not overflow",
            "num_traits FromPrimitive::from_f64 for i64 = truncation toward zero, None outside [-2^63, 2^63)",
            "sort_unstable_by on (weight, index) pairs is a sort (indices distinct, so the order is total)",
        ],
    ),
}

"""Hand-written parts of MANIFEST.json."""
HOOKS = dict(
    guard="coupe_verif",
    enable="cargo feature `coupe_verif` of the coupe crate, switched on by /verif/harness/Cargo.toml (coupe = { path = \"/repo\", features = [\"coupe_verif\"] }); /repo/ffi is built without it",
    baseline_off_cmd="cd /repo && cargo test --workspace --no-fail-fast --offline",
    source_commits=["a3a7500", "f29fb15", "32d018c"],
    add_only=True,
)
NOTES = ("Technique: machine-checked proof in Coq 8.16.1 about executable Gallina models, tied to /repo on every run by a translator "
         "(constants/tables) and a correspondence run (model evaluated by vm_compute inside coqc vs the implementation built from the "
         "working tree). See DESIGN.md. Known findings: known_findings.json.")
NOT_APPLICABLE = {}

"""Hand-written parts of MANIFEST.json."""
HOOKS = dict(
    guard="coupe_verif",
    enable="cargo feature `coupe_verif` of the coupe crate, switched on by /verif/harness/Cargo.toml through its path dependency (no hook is needed by the checks claimed so far)",
    baseline_off_cmd="cd /repo && cargo test --workspace --no-fail-fast --offline",
    source_commits=[],
    add_only=True,
)
NOTES = ("Technique: machine-checked proof in Coq 8.16.1 about executable Gallina models, tied to /repo on every run by a translator "
         "(constants/tables) and a correspondence run (model evaluated by vm_compute inside coqc vs the implementation built from the "
         "working tree). See DESIGN.md. Known findings: known_findings.json.")
NOT_APPLICABLE = {}
CHECKS = {
    "C13": dict(
        text="Theorems C13_sound / C13_complete / C13_terminates / C13_no_panic proved for ALL non-negative weight vectors, tolerances and "
             "initial arrays about a line-by-line Gallina model of ckk.rs (search, sorted insertion, back-tracking build, f64 tolerance "
             "conversion); the literal that decides the property (the `separate` flag of each branch) is re-read from the source on "
             "every run, the rest of the model is compared with the implementation on generated inputs, and a checker proved equivalent "
             "to the property (incl. a subset-sum decision procedure for NotFound) judges every implementation output.",
        design_ref="DESIGN.md §7 C13",
        note="Trusted: Coq kernel; the model<->code tie is the translator (two literals) plus differential runs (1.5k/12k cases); "
             "SpecFloat = hardware f64 multiply; i64 sums do not overflow (contract). No axioms.",
        technique="Coq proof (induction on the search) + translator + model/implementation correspondence + certified checker",
    ),
}

"""C15 -- KernighanLin."""
import os, re, sys
sys.path.insert(0, os.path.dirname(os.path.dirname(os.path.abspath(__file__))))
from translate_lib import read, fn_body, Fail, HEADER, coq_bool


def gen_kl():
    """Which of the two repaired behaviours the current source has:
    * first candidate scan: `let Some(..) = ..max_by(..) else { break; }` followed by the `any` test
      on the other side (HEAD), or `.max_by(..).unwrap()` (pinned tree);
    * best prefix: `match best { Some((pos, cut)) if cut < cut_size => .., _ => { undo; break } }`
      (HEAD), or `.min_by(..).unwrap()` (pinned tree: the first swap is always kept)."""
    rel = "src/algorithms/kernighan_lin.rs"
    src = read(rel)
    body = fn_body(src, "kernighan_lin_2_impl")
    if body is None:
        raise Fail("fn kernighan_lin_2_impl not found")
    body = re.sub(r"//[^\n]*", "", body)
    scans = [m.start() for m in re.finditer(r"\.max_by\(", body)]
    if len(scans) != 2:
        raise Fail("expected two max_by scans, found %d" % len(scans))
    unwraps = re.findall(r"\.max_by\([^;]*?\)\s*\.unwrap\(\)\s*;", body, re.S)
    let_else = re.search(r"let\s+Some\(\(max_pos_1,\s*max_gain_1\)\)\s*=.*?\.max_by\(.*?\)\s*else\s*\{\s*break;\s*\}\s*;", body, re.S)
    any_test = re.search(r"if\s*!\s*initial_partition\s*\.iter\(\)\s*\.zip\(&locks\)\s*\.any\(\|\(part,\s*locked\)\|\s*\*part\s*==\s*unique_ids\[1\]\s*&&\s*!\*locked\)\s*\{\s*break;\s*\}", body, re.S)
    if let_else and any_test and len(unwraps) == 1:
        old_scan = False
    elif not let_else and not any_test and len(unwraps) == 2:
        old_scan = True
    else:
        raise Fail("candidate scans: neither the repaired shape (let-else break + any test + one unwrap) nor the pinned one (two unwraps)")
    guarded = re.search(r"match\s+best\s*\{\s*Some\(\(pos,\s*cut\)\)\s+if\s+cut\s*<\s*cut_size\s*=>\s*\(pos,\s*cut\),\s*_\s*=>\s*\{\s*for\s+\(\(idx_1,\s*_\),\s*\(idx_2,\s*_\)\)\s+in\s+&saves\s*\{\s*initial_partition\.swap\(\*idx_1,\s*\*idx_2\);\s*\}\s*break;\s*\}\s*\}", body, re.S)
    min_unwrap = re.search(r"\.min_by\([^;]*?\)\s*\.unwrap\(\)\s*;", body, re.S)
    if guarded and not min_unwrap:
        old_rewind = False
    elif min_unwrap and not guarded:
        old_rewind = True
    else:
        raise Fail("best-prefix selection: neither the repaired shape (guarded match, undo all) nor the pinned one (min_by(..).unwrap())")
    out = HEADER.format(src=rel)
    out += "Definition kl_first_scan_unwraps : bool := %s.\n" % coq_bool(old_scan)
    out += "Definition kl_rewind_keeps_first_swap : bool := %s.\n" % coq_bool(old_rewind)
    return out


GENERATORS = {"KlGen.v": gen_kl}

PROP = dict(
    bin="c15",
    run_targets=["Run/RunC15.vo"],
    prop_targets=["Properties/C15.vo"],
    cases=dict(quick=3000, thorough=40000),
    level="proof",
    rule="TODO",
    class_names={0: "Ok unchanged", 1: "Ok changed", 2: "panic", 3: "hang", 4: "error"},
    trusted_base=[],
    assumptions=[],
)

MANIFEST = dict(text="TODO", design_ref="DESIGN.md §7 C15", note="TODO", technique="TODO")

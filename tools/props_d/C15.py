"""C15 -- KernighanLin."""
import os, re, sys
sys.path.insert(0, os.path.dirname(os.path.dirname(os.path.abspath(__file__))))
from translate_lib import read, fn_body, Fail, HEADER, coq_bool


def gen_kl():
    """Which of the two repaired behaviours the current source has:
    * first candidate scan: `let Some(..) = ..max_by(..) else { break; }` followed by the `any` test
      on the other side (HEAD), or `.max_by(..).unwrap()` (pinned tree);
    * best prefix: `match best { Some((pos, cut)) if cut < cut_size => .., _ => { undo; break } }`
      (HEAD), or `.min_by(..).unwrap()` (pinned tree: the first swap is always kept)."""
    rel = "src/algorithms/kernighan_lin.rs"
    src = read(rel)
    body = fn_body(src, "kernighan_lin_2_impl")
    if body is None:
        raise Fail("fn kernighan_lin_2_impl not found")
    body = re.sub(r"//[^\n]*", "", body)
    scans = [m.start() for m in re.finditer(r"\.max_by\(", body)]
    if len(scans) != 2:
        raise Fail("expected two max_by scans, found %d" % len(scans))
    unwraps = re.findall(r"\.max_by\([^;]*?\)\s*\.unwrap\(\)\s*;", body, re.S)
    let_else = re.search(r"let\s+Some\(\(max_pos_1,\s*max_gain_1\)\)\s*=.*?\.max_by\(.*?\)\s*else\s*\{\s*break;\s*\}\s*;", body, re.S)
    any_test = re.search(r"if\s*!\s*initial_partition\s*\.iter\(\)\s*\.zip\(&locks\)\s*\.any\(\|\(part,\s*locked\)\|\s*\*part\s*==\s*unique_ids\[1\]\s*&&\s*!\*locked\)\s*\{\s*break;\s*\}", body, re.S)
    if let_else and any_test and len(unwraps) == 1:
        old_scan = False
    elif not let_else and not any_test and len(unwraps) == 2:
        old_scan = True
    else:
        raise Fail("candidate scans: neither the repaired shape (let-else break + any test + one unwrap) nor the pinned one (two unwraps)")
    # the two selection scans themselves: ONE sequential pass over all the vertices, gain / lock /
    # weight zipped position by position and `enumerate()`d, so that `locked` and
    # `initial_partition[*idx]` belong to the same vertex idx; no helper, no chunking
    for k in (0, 1):
        scan = (r"gains\s*\.iter\(\)\s*\.zip\(locks\.iter\(\)\)\s*\.zip\(weights\.iter\(\)\)\s*\.enumerate\(\)\s*"
                r"\.filter\(\|\(idx,\s*\(\(_,\s*locked\),\s*_weight\)\)\|\s*\{\s*initial_partition\[\*idx\]\s*==\s*unique_ids\[%d\]\s*&&\s*!\*\*locked\s*\}\)\s*"
                r"\.map\(\|\(idx,\s*\(\(gain,\s*_\),\s*_\)\)\|\s*\(idx,\s*\*gain\)\)\s*"
                r"\.max_by\(\|\(_,\s*g1\),\s*\(_,\s*g2\)\|\s*g1\.partial_cmp\(g2\)\.unwrap\(\)\)") % k
        if len(re.findall(scan, body)) != 1:
            raise Fail("selection scan of side %d is not the sequential zip(gains, locks, weights).enumerate() scan "
                       "indexed by the vertex itself" % k)
    whole = re.sub(r"//[^\n]*", "", src)
    if re.search(r"\b(par_)?(r)?chunks(_exact)?(_mut)?\b|\bsplit_at(_mut)?\b|\bwindows\b", whole):
        raise Fail("kernighan_lin.rs scans vertices by chunks / sub-slices: the model's scans are over the whole arrays")
    if len(re.findall(r"\blocks\b", body)) != len(re.findall(r"\blocks\b", whole)):
        raise Fail("the lock flags are used outside kernighan_lin_2_impl (helper function?)")
    guarded = re.search(r"match\s+best\s*\{\s*Some\(\(pos,\s*cut\)\)\s+if\s+cut\s*<\s*cut_size\s*=>\s*\(pos,\s*cut\),\s*_\s*=>\s*\{\s*for\s+\(\(idx_1,\s*_\),\s*\(idx_2,\s*_\)\)\s+in\s+&saves\s*\{\s*initial_partition\.swap\(\*idx_1,\s*\*idx_2\);\s*\}\s*break;\s*\}\s*\}", body, re.S)
    min_unwrap = re.search(r"\.min_by\([^;]*?\)\s*\.unwrap\(\)\s*;", body, re.S)
    if guarded and not min_unwrap:
        old_rewind = False
    elif min_unwrap and not guarded:
        old_rewind = True
    else:
        raise Fail("best-prefix selection: neither the repaired shape (guarded match, undo all) nor the pinned one (min_by(..).unwrap())")
    # entry guard: `if unique_ids.len() < 2 { return; }` before `if unique_ids.len() != 2 { unimplemented!(); }`
    m_ret = re.search(r"if\s+unique_ids\.len\(\)\s*<\s*2\s*\{\s*return;\s*\}", body)
    m_un = re.search(r"if\s+unique_ids\.len\(\)\s*!=\s*2\s*\{\s*unimplemented!\(\);\s*\}", body)
    if not m_un:
        raise Fail("entry guard `if unique_ids.len() != 2 { unimplemented!(); }` not found")
    if m_ret and m_ret.start() > m_un.start():
        raise Fail("the `< 2` early return is expected before the `!= 2` guard")
    if re.search(r"\bcut_size\b|edge_cut", body[:m_un.start()]):
        raise Fail("the entry guards are expected before the first cut computation")
    out = HEADER.format(src=rel)
    out += "Definition kl_first_scan_unwraps : bool := %s.\n" % coq_bool(old_scan)
    out += "Definition kl_rewind_keeps_first_swap : bool := %s.\n" % coq_bool(old_rewind)
    out += "Definition kl_few_ids_return : bool := %s.\n" % coq_bool(bool(m_ret))
    return out


GENERATORS = {"KlGen.v": gen_kl}

PROP = dict(
    bin="c15",
    run_targets=["Run/RunC15.vo"],
    prop_targets=["Properties/C15.vo"],
    cases=dict(quick=8000, thorough=45000),
    level="proof",
    rule="graphs from 9 families (random symmetric at 4 densities, grid, path, star, disconnected, isolated incl. trailing "
         "isolated vertices, complete, cycle, tiny/edgeless/empty) x 3 edge-weight ranges x 7 partition families (balanced, "
         "random, unbalanced 1-2 vertices on a side, contiguous halves, locally optimal for single moves, alternating, "
         "one-sided) x 4 id pairs ((0,1),(1,0),(3,7),(5,2)) x max_passes/max_flips_per_pass in {None,0,1,2,3} x "
         "max_bad_move_in_a_row 0..3; each graph run on one of three topology types: sprs CsMatView (60%, its own edge_cut override), "
         "harness-side adjacency lists with shuffled neighbour order (20%) and coupe::Grid 2-D / 3-D (20%, neighbour order "
         "x-1,x+1,y-1,y+1,..: not sorted) -- the last two use the trait's provided edge_cut and the model's generic cut; "
         "plus (1 case in 320) graphs with more than 1024 vertices (block sizes of chunked / parallel scans): two heavy "
         "paths over the first H >= 2^k vertices followed by small path gadgets at the highest indices (max_flips_per_pass "
         "2..6, max_bad_move_in_a_row 1..3: a bad swap followed by good ones inside the gadget, nearly locally optimal "
         "input), and planted bisections with 1025..2200 vertices (planted partition with 0..4 misplaced vertices, mostly at "
         "indices >= 1024; with max_flips_per_pass Some(2..5) the model is evaluated, with no limit the case is judged by the "
         "certified checker only -- field model_evaluated); plus a malformed stream (8%: weights shorter/longer than the partition, partition "
         "longer/shorter than the matrix, a directed edge or self-loop) and a known-finding stream (4%: more than two distinct "
         "ids); distinct = distinct (graph, weights length, partition, limits); non-trivial = contract stream, >= 4 vertices, "
         "two parts in use, at least one pass and one flip allowed",
    class_names={0: "Ok unchanged", 1: "Ok changed", 2: "panic (in contract)", 3: "hang", 4: "error",
                 10: "outside contract: Ok unchanged", 11: "outside contract: Ok changed", 12: "outside contract: panic",
                 13: "outside contract: hang", 14: "outside contract: error",
                 20: "ids>2: Ok unchanged", 21: "ids>2: Ok changed", 22: "ids>2: panic (unimplemented!, belongs to C02)",
                 23: "ids>2: hang", 24: "ids>2: error"},
    trusted_base=[
        "axioms: none (every theorem of Properties/C15.v is closed under the global context)",
        "modelled in Z, not in f64: edge weights, gains and cut sizes (exact while the accumulated gains stay below 2^53; "
        "the correspondence run compares every output partition with the f64 implementation)",
    ],
    assumptions=[
        "edge weights are integer-valued f64 and every gain accumulated during a pass stays below 2^53 (f64 +,-,2* and comparisons are then exact)",
        "the adjacency matrix is a valid sprs CSR matrix (rows sorted by column: CsMat::new enforces it), square, with one vertex weight per vertex",
        "at most two distinct part ids are in use (one part or an empty input return at once since 3ea376d); more than two hit unimplemented!() -- known-finding class kl-not-two-parts, property C02",
        "itertools unique() yields first occurrences in order; Iterator::max_by returns the last maximum, min_by the first minimum",
    ],
)

MANIFEST = dict(
    text="Theorems C15_sizes (part sizes preserved), C15_cut_not_worse(_sprs) (cut out <= cut in), C15_no_panic, C15_terminates and "
         "the combined C15_holds proved for ALL graphs, partitions and values of the three limits about a line-by-line Gallina "
         "model of kernighan_lin.rs (accumulating gains, last-maximum candidate scans, locks, swap, recomputed cut, first-minimum "
         "prefix, rewind, pass loop on fuel with a proved bound). The three repaired behaviours the theorems depend on (let-else "
         "break + `any` test in the candidate scan; guarded best-prefix match with undo-all; early return for fewer than two ids) are re-read from the source on every "
         "run and instantiate the model; regression lemmas show the four repaired defects on the same model with the old "
         "flags. Every implementation output is compared with the model's (exact partitions) and judged by a checker proved "
         "equivalent to the property (length, per-id counts, brute-force cut).",
    design_ref="DESIGN.md §7 C15",
    note="Trusted: Coq kernel; the model<->code tie is the translator (three structural flags) plus differential runs (8k/45k cases, "
         "exact partition equality); edge weights/gains are modelled in Z (integer-valued f64 below 2^53). No axioms. Inputs with "
         "more than two distinct ids panic (unimplemented!): known-finding class kl-not-two-parts, counted under C02, prop_ok = true here.",
    technique="Coq proof (loop invariants over the swap history; disjoint transpositions commute) + translator + model/implementation "
              "correspondence + certified checker",
)

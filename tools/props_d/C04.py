"""C04 -- each Rcb/Rib bisection is within tolerance or adjacent to the weighted median."""

PROP = dict(
    bin="c04",
    run_targets=["Run/RunC04.vo"],
    prop_targets=["Properties/C04.vo"],
    cases=dict(quick=1300, thorough=9000),
    level="proof",
    harness_timeout=2400,
    coqc_timeout=6000,
    rule="same generator as C03 (incl. the large structured inputs with n >= 8192 and the huge-magnitude families) biased towards clustered / one-outlier / duplicate point sets, iter_count 1..6; "
         "distinct = distinct (algorithm, dimension, iter_count, tolerance bits, points, weights, partition length); "
         "non-trivial = well-formed, at least 3 points and iter_count >= 1",
    class_names={0: "Ok", 1: "error", 2: "panic", 3: "hang"},
    trusted_base=[
        "axioms: C04_rcb_split_balanced and C04_mid_spec use the real-number axioms of Coq's standard library through Flocq 4.1 "
        "(ClassicalDedekindReals.sig_forall_dec, ClassicalDedekindReals.sig_not_dec, "
        "FunctionalExtensionality.functional_extensionality_dep, Classical_Prop.classic); C04_generic, the checker theorems and the "
        "refutation witnesses are closed under the global context",
        "Flocq 4.1 (BinarySingleNaN) as the link between Coq's SpecFloat operations and the real numbers",
        "Rib: the rotated points enter as data recorded by the hook",
        "modelled, not verified: i64 overflow of weight sums (contract), f64 weights (run with integer values only)",
    ],
    assumptions=[
        "coordinates are finite f64 (canonical binary64 values); a coordinate beyond the binary32 range counts as +-f32::MAX (clamped cast of the "
        "current source, flag rcb_clamp_cast); the balance clause is judged on the clamped images for every input of the contract; with the plain "
        "cast the statement is false (C04_refuted_beyond_f32_*, C04_refuted_plain_cast_outputs); weights are non-negative integers whose sum is below 2^53",
        "the former premise box_ok32 (the root box, f64 min/max then `as f32`, has finite canonical bounds enclosing the binary32 coordinates) "
        "is proved from the contract (box_ok32_holds, Proofs/RcbBox.v) and still evaluated on every in-contract case as a cross-check",
    ],
)

MANIFEST = dict(
    text="Theorem rcb_split_balanced (loop invariant of the repaired cut search, every exit) proved for all inputs and split trees under "
         "two facts about the midpoint expression `min/2 + max/2`, both proved for SpecFloat binary32 with Flocq (the midpoint of finite "
         "values is finite; when it is not strictly between them no finite value is), with refutation witnesses for the three "
         "old stop rules and for the three float-edge defects found while modelling (repaired in /repo: 241da30, a287019, 6449881); a checker proved sound for `within tolerance or bracketing` judges every bisection of "
         "every implementation output; model and implementation are compared on generated inputs (exact ids).",
    design_ref="DESIGN.md §7 C04",
    note="Trusted: Coq kernel; differential run; SpecFloat = hardware binary32/64. The instance theorem uses the standard "
         "real-number axioms through Flocq; no premise beyond the contract is left (box_ok32 is proved; the run glue keeps it as a cross-check).",
    technique="Coq proof (loop invariant) + refutation witnesses by vm_compute + model/implementation correspondence + certified checker",
)

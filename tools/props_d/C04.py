"""C04 -- each Rcb/Rib bisection is within tolerance or adjacent to the weighted median."""

PROP = dict(
    bin="c04",
    run_targets=["Run/RunC04.vo"],
    prop_targets=["Properties/C04.vo"],
    cases=dict(quick=1500, thorough=9000),
    level="proof",
    harness_timeout=2400,
    coqc_timeout=1500,
    rule="same generator as C03 biased towards clustered / one-outlier / duplicate point sets, iter_count 1..6; "
         "distinct = distinct (algorithm, dimension, iter_count, tolerance bits, points, weights, partition length); "
         "non-trivial = well-formed, at least 3 points and iter_count >= 1",
    class_names={0: "Ok", 1: "error", 2: "panic", 3: "hang"},
    trusted_base=[
        "axioms: none (every theorem of Properties/C04.v is closed under the global context)",
        "Rib: the rotated points enter as data recorded by the hook",
        "modelled, not verified: i64 overflow of weight sums (contract), f64 weights (run with integer values only)",
    ],
    assumptions=[
        "coordinates are finite f64 whose binary32 image is finite; weights are non-negative integers whose sum is below 2^53",
        "rcb_split_balanced holds under the named exactness hypotheses of Section Balance (distance sign, strict monotonicity of the "
        "rounded distance on the points, soundness of the `max <= target + distance` test, midpoint between its arguments); "
        "they are not discharged for SpecFloat: the three open known-finding classes are exactly inputs where one of them fails",
    ],
)

MANIFEST = dict(
    text="Theorem rcb_split_balanced (loop invariant of the repaired cut search, every exit) proved for all inputs and split trees under "
         "named exactness hypotheses on the float operations, with refutation witnesses for the three old stop rules and for the three "
         "float-edge defects still present at HEAD; a checker proved sound for `within tolerance or bracketing` judges every bisection of "
         "every implementation output; model and implementation are compared on generated inputs (exact ids).",
    design_ref="DESIGN.md §7 C04",
    note="Trusted: Coq kernel; differential run; SpecFloat = hardware binary32/64. The full statement is proved only under the exactness "
         "hypotheses (partial); outside them the certified checker and the correspondence carry the claim. No axioms.",
    technique="Coq proof (loop invariant) + refutation witnesses by vm_compute + model/implementation correspondence + certified checker",
)

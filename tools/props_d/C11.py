"""C11 -- MultiJagged: ids below part_count, jagged hierarchy, balance."""
import os, re, sys
sys.path.insert(0, os.path.dirname(os.path.dirname(os.path.abspath(__file__))))
from translate_lib import read, fn_body, Fail, HEADER, coq_bool


# ------------------------------------------------------- translator: MjGen.v
def gen_mj():
    """Literals of multi_jagged.rs the theorems are stated about."""
    rel = "src/algorithms/multi_jagged.rs"
    src = read(rel)
    rec = fn_body(src, "multi_jagged_recurse")
    if rec is None:
        raise Fail("fn multi_jagged_recurse not found")
    m = re.search(r"part_id\.fetch_add\(\s*(\d+)\s*,", rec)
    if not m:
        raise Fail("`part_id.fetch_add(<literal>, ..)` not found in multi_jagged_recurse")
    incr = int(m.group(1))
    if len(re.findall(r"fetch_add", rec)) != 1:
        raise Fail("exactly one fetch_add expected in multi_jagged_recurse")
    m = re.search(r"if\s+partition_scheme\.num_splits\s*!=\s*(\d+)", rec)
    if not m:
        raise Fail("`if partition_scheme.num_splits != <literal>` not found")
    leaf_splits = int(m.group(1))
    m = re.search(r"\(\s*current_coord\s*\+\s*(\d+)\s*\)\s*%\s*D", rec)
    if not m:
        raise Fail("`(current_coord + <literal>) % D` not found")
    axis_step = int(m.group(1))
    ws = fn_body(src, "multi_jagged_with_scheme")
    if ws is None:
        raise Fail("fn multi_jagged_with_scheme not found")
    m = re.search(r"AtomicUsize::new\(\s*(\d+)\s*\)", ws)
    if not m:
        raise Fail("`AtomicUsize::new(<literal>)` not found in multi_jagged_with_scheme")
    first_id = int(m.group(1))
    ps = fn_body(src, "partition_scheme")
    if ps is None:
        raise Fail("fn partition_scheme not found")
    m = re.search(r"num_splits\s*:\s*approx_root\s*-\s*(\d+)", ps)
    if not m:
        raise Fail("`num_splits: approx_root - <literal>` not found")
    splits_off = int(m.group(1))
    stop = re.search(r"if\s+rem\s*==\s*0\s*&&\s*max_iter\s*==\s*0\s*\{\s*None", ps) is not None
    csp = fn_body(src, "compute_split_positions")
    if csp is None:
        raise Fail("fn compute_split_positions not found")
    scan_gt = re.search(r"current_weights_sum\s*\+\s*current\.1\s*>\s*\*threshold", csp) is not None
    skip_gt = re.search(r"if\s+current_weights_sum\s*>\s*\*threshold", csp) is not None
    refine_lt = re.search(r"sum\s*\+\s*weights\[permutation\[idx\]\]\s*<\s*threshold", csp) is not None
    # the Ulps comparison of the refinement: `.epsilon(0.0)` since 70b7d46, the default epsilon before
    n_ulps = len(re.findall(r"Ulps::", csp))
    ulps_zero = re.search(r"Ulps::default\(\)\s*\.epsilon\(\s*0\.0?\s*\)\s*\.eq\(\s*&threshold\s*,", csp) is not None
    ulps_default = re.search(r"Ulps::default\(\)\s*\.eq\(\s*&threshold\s*,", csp) is not None
    if n_ulps != 1 or ulps_zero == ulps_default:
        raise Fail("the refinement is expected to use exactly one `Ulps::default()[.epsilon(0.0)].eq(&threshold, ..)`")
    bounded = re.search(r"while\s+idx\s*<\s*permutation\.len\(\)", csp) is not None
    # the exhausted scan puts the cut at the end of the slab (28ccbdd) instead of `scan.next().unwrap()`
    exhausted = (re.search(r"match\s+scan\.next\(\)\s*\{\s*Some\(v\)\s*=>\s*v\s*,\s*None\s*=>\s*\{[^}]*ret\.push\(permutation\.len\(\)\)", csp, re.S) is not None
                 and "scan.next().unwrap()" not in csp)
    lock = read("Cargo.lock")
    m = re.search(r'name = "approx"\s*\nversion = "(\d+)\.(\d+)\.(\d+)"', lock)
    if not m:
        raise Fail("approx not found in Cargo.lock")
    approx = tuple(int(x) for x in m.groups())
    out = HEADER.format(src=rel + " and Cargo.lock")
    out += "From Coq Require Import NArith.\n"
    out += "Definition approx_version : N * N * N := (%d, %d, %d)%%N.\n" % approx
    out += "Definition mj_counter_first : N := %d%%N.\n" % first_id
    out += "Definition mj_counter_incr : N := %d%%N.\n" % incr
    out += "Definition mj_leaf_num_splits : N := %d%%N.\n" % leaf_splits
    out += "Definition mj_axis_step : nat := %d%%nat.\n" % axis_step
    out += "Definition mj_num_splits_offset : N := %d%%N.\n" % splits_off
    out += "Definition mj_scheme_stops_on_rem0_iter0 : bool := %s.\n" % coq_bool(stop)
    out += "Definition mj_scan_test_is_gt : bool := %s.\n" % coq_bool(scan_gt)
    out += "Definition mj_skip_test_is_gt : bool := %s.\n" % coq_bool(skip_gt)
    out += "Definition mj_refine_test_is_lt : bool := %s.\n" % coq_bool(refine_lt)
    out += "Definition mj_refine_ulps_epsilon_is_zero : bool := %s.\n" % coq_bool(ulps_zero)
    out += "Definition mj_refine_bounded_by_len : bool := %s.\n" % coq_bool(bounded)
    out += "Definition mj_scan_exhaustion_puts_cut_at_end : bool := %s.\n" % coq_bool(exhausted)
    return out


def gen_mj_sort():
    """Structural fingerprint of recursive_bisection::axis_sort, the only sort MultiJagged relies on: the body
    must be exactly one `par_sort_unstable_by` over the permutation whose comparator orders by
    points[i][current_coord] with `<` (Less, else Greater).  Anything else (a fast path, another sort, another
    key) fails closed: the sort oracle of the model (a permutation sorted by the coordinate) is then no longer
    known to describe the code."""
    rel = "src/algorithms/recursive_bisection.rs"
    src = read(rel)
    m = re.search(r"pub\s+fn\s+axis_sort\s*<\s*const\s+D\s*:\s*usize\s*>\s*\(\s*points\s*:\s*&\[PointND<D>\]\s*,\s*"
                  r"permutation\s*:\s*&mut\s*\[usize\]\s*,\s*current_coord\s*:\s*usize\s*,?\s*\)\s*\{", src)
    if not m:
        raise Fail("signature `pub fn axis_sort<const D: usize>(points: &[PointND<D>], permutation: &mut [usize], current_coord: usize)` not found")
    body = fn_body(src, "axis_sort")
    if body is None:
        raise Fail("body of axis_sort not found")
    text = re.sub(r"//[^\n]*", "", body)          # comments
    text = re.sub(r"\s+", "", text)               # all white space
    expected = ("{permutation.par_sort_unstable_by(|i1,i2|{"
                "ifpoints[*i1][current_coord]<points[*i2][current_coord]{cmp::Ordering::Less}else{cmp::Ordering::Greater}"
                "})}")
    if text != expected:
        raise Fail("axis_sort is not exactly one par_sort_unstable_by on points[i][current_coord] (body: %s...)" % text[:120])
    if len(re.findall(r"\baxis_sort\s*\(", read("src/algorithms/multi_jagged.rs"))) != 1:
        raise Fail("multi_jagged.rs is expected to call axis_sort exactly once")
    out = HEADER.format(src=rel)
    out += "Definition mj_axis_sort_is_one_unstable_sort_by_coordinate : bool := true.\n"
    return out


def _norm(body):
    t = re.sub(r"//[^\n]*", "", body)      # comments
    t = re.sub(r"\s+", "", t)              # all white space
    return t.replace(",)", ")")            # trailing commas (rustfmt)


_EXPECTED_RECURSE = (
    "{ifpartition_scheme.num_splits!=0{super::recursive_bisection::axis_sort(points,permutation,current_coord);"
    "letsplit_positions=compute_split_positions(weights,permutation,&partition_scheme.modifiers);"
    "letmutsub_permutations=split_at_mut_many(permutation,&split_positions);"
    "sub_permutations.par_iter_mut().zip(partition_scheme.next.unwrap()).for_each(|(permu,scheme)|{"
    "multi_jagged_recurse(points,weights,permu,partition,(current_coord+1)%D,scheme,part_id)});}"
    "else{letpart_id=part_id.fetch_add(1,Ordering::Relaxed);"
    "permutation.par_iter().for_each(|idx|{letptr=partition.load(Ordering::Relaxed);"
    "unsafe{std::ptr::write(ptr.add(*idx),part_id)}});}}")
_EXPECTED_SPLIT_MANY = (
    "{letret=Vec::with_capacity(positions.len()+1);"
    "let(muthead,tail,_)=positions.iter().fold((ret,slice,0),|(mutacc_ret,acc_slice,drained_count),pos|{"
    "let(sub,next)=acc_slice.split_at_mut(*pos-drained_count);letlen=sub.len();acc_ret.push(sub);"
    "(acc_ret,next,drained_count+len)});head.push(tail);head}")
_EXPECTED_WITH_SCHEME = (
    "{letlen=points.len();letmutpermutation=(0..len).into_par_iter().collect::<Vec<_>>();"
    "letpart_id=AtomicUsize::new(0);"
    "multi_jagged_recurse(points,weights,&mutpermutation,&AtomicPtr::new(partition.as_mut_ptr()),0,partition_scheme,&part_id);}")


def gen_mj_rec():
    """Structural fingerprint of the recursion of MultiJagged: multi_jagged_with_scheme (identity permutation, one
    counter starting at 0), multi_jagged_recurse (sort, split positions, split_at_mut_many, one recursive call per
    (slab, child scheme) pair; leaf = one fetch_add and ONE store per index of the WHOLE permutation slice through
    `permutation.par_iter().for_each`) and split_at_mut_many (the slabs are the consecutive pieces between the
    positions, the last one included).  The bodies must be, comments / white space / trailing commas aside, exactly
    the text the model was written against: any chunking (`chunks_exact`, `par_chunks_exact`), `take`, fixed-size
    buffers, another iterator or another store fails closed."""
    rel = "src/algorithms/multi_jagged.rs"
    src = read(rel)
    for name, expected in (("multi_jagged_recurse", _EXPECTED_RECURSE), ("split_at_mut_many", _EXPECTED_SPLIT_MANY),
                           ("multi_jagged_with_scheme", _EXPECTED_WITH_SCHEME)):
        body = fn_body(src, name)
        if body is None:
            raise Fail("fn %s not found" % name)
        text = _norm(body)
        if text != expected:
            i = next((j for j in range(min(len(text), len(expected))) if text[j] != expected[j]), min(len(text), len(expected)))
            raise Fail("%s differs from the fingerprinted text at: ...%s" % (name, text[max(0, i - 30):i + 60]))
    for bad in ("chunks_exact", "par_chunks_exact", "rchunks", ".take(", "LEAF_BLOCK"):
        for name in ("multi_jagged_recurse", "multi_jagged_with_scheme", "split_at_mut_many"):
            if bad in fn_body(src, name):
                raise Fail("%s uses %s" % (name, bad))
    out = HEADER.format(src=rel)
    out += "Definition mj_recurse_is_fingerprinted_text : bool := true.\n"
    out += "Definition mj_split_at_mut_many_is_fingerprinted_text : bool := true.\n"
    out += "Definition mj_with_scheme_is_fingerprinted_text : bool := true.\n"
    return out


GENERATORS = {"MjGen.v": gen_mj, "MjSortGen.v": gen_mj_sort, "MjRecGen.v": gen_mj_rec}


_streams = {0: "in contract", 1: "zero weights", 2: "more parts than points", 3: "outside the contract (0 parts / 0 iterations)"}
_outcomes = {0: "Ok", 1: "panic", 2: "hang", 3: "error"}
_class_names = {}
for _s, _sn in _streams.items():
    for _o, _on in _outcomes.items():
        for _e, _en in ((0, "exact-arithmetic model agrees"), (1, "exact-arithmetic model differs"),
                        (2, "large input: judged by the checkers only, model not re-run")):
            _class_names[_s * 100 + _o * 10 + _e] = "%s / %s / %s" % (_sn, _on, _en)

PROP = dict(
    bin="c11",
    run_targets=["Run/RunC11.vo"],
    prop_targets=["Properties/C11.vo"],
    cases=dict(quick=1200, thorough=9000),
    level="proof",
    coqc_timeout=3000,   # a shard takes ~15 s of CPU; the margin is for a heavily shared machine
    release_too=True,   # thorough: half as many cases again against a release build (no overflow checks / debug assertions)
    rule="cases = stream x point family x weight family: streams main (positive integer-valued weights, 1 <= part_count <= n), "
         "zero weights / one heavy element (the inputs that panicked before 28ccbdd), tiny weights z*2^-70 (the inputs that broke the balance bound before 70b7d46), subnormal weights z*2^-1074 with 10..45-bit z (1e-320..1e-310), alone or next to 1-3 normal weights (a first-level slab then has a subnormal total), part_count > n, max_iter = 0 and "
         "part_count = 0 (outside the contract); points 2-D/3-D uniform, clustered, collinear, coincident, duplicate "
         "coordinates, lattice, one outlier; weights uniform, random, skewed, one heavy, few heavy, large; max_iter 1..4; "
         "pools 1,2,4,8,16 (each case also run under one thread); large structured inputs (1 % of the quick cases, 0.4 % of the thorough ones: grids numbered row by row with rows of 1024/2048/3072 points, column-major grids, point sets sorted inside every block of 1024 entries with shuffled blocks; 2048..8192 points; judged by the checkers only); two large unaligned inputs per 1200 cases at fixed indices (clouds / odd-width grids of 9001..30000 points into 2..4 parts, leaves above 4096 points and no multiple of 1024; output buffer prefilled with usize::MAX as everywhere); concurrency stream (about 1 case in 25): the call runs 6 times in a row while one or two other MultiJagged::partition calls on other inputs do the same from their own std threads (own rayon pool or the global one), and the first output that is not the partition of the solo run (or else the first) is the one judged; distinct = distinct (D, coordinate bits, weights, "
         "part_count, max_iter, pool); non-trivial = positive weights, at least 4 points, at least 2 parts, max_iter >= 1",
    class_names=_class_names,
    trusted_base=[
        "axioms: none for every theorem of Properties/C11.v except the five binary64 facts C11_f64_ulps_convex, C11_f64_mono_cuts_integer_weights, C11_f64_total, C11_f64_mono_cuts_scaled_weights and C11_f64_total_scaled, which go through Flocq and use the axioms of Coq's classical real numbers (ClassicalDedekindReals.sig_forall_dec, sig_not_dec, FunctionalExtensionality.functional_extensionality_dep, Classical_Prop.classic)",
        "oracles (universally quantified in the theorems, replayed in the runs): libm powf behind the scheme root (the run takes "
        "the roots revealed by the implementation's scheme and compares the whole scheme), rayon par_sort_unstable_by (any sorted "
        "permutation; the run replays rayon's answer after validating it), rayon's fold_with block decomposition, the order in "
        "which leaves draw their id from the atomic counter",
        "modelled, not verified: f64 rounding of the thresholds and the Ulps comparison with respect to the balance bound "
        "(C11_balance_partial is about exact arithmetic; the bound is tested on every implementation output)",
    ],
    assumptions=[
        "weights are z*2^e with integer z and sums below 2^53*2^e (every f64 sum is exact, so rayon's summation order is irrelevant); in the mixed subnormal family the subnormal weights are absorbed by the normal partial sums in every order",
        "part_count < 2^24 (exactly representable in f32) and pow(x, 1) = x, 2 <= ceil(n^(1/m)) <= n for n >= 2 (checked on every scheme used)",
        "rayon's par_sort_unstable_by is a deterministic function of the slice and returns a permutation sorted by the comparator",
        "approx 0.5.1 Ulps for f64: |a-b| <= epsilon, else same sign and bit patterns within max_ulps = 4 (transcribed from the crate source; the code passes epsilon 0.0, read by the translator)",
        "partition, points and weights have the same length (MultiJagged performs no length check; a shorter partition array is "
        "written out of bounds through a raw pointer)",
    ],
)

MANIFEST = dict(
    text="Theorems about a line-by-line Gallina model of multi_jagged.rs (partition_scheme with the powf root as an oracle, "
         "compute_modifiers, compute_split_positions with its block scan and Ulps refinement, split_at_mut_many, the recursion "
         "with the atomic leaf counter) for ALL inputs, root/sort/block/leaf-order oracles: C11_leaf_count (the scheme has "
         "part_count leaves), C11_ids_in_range (every element written with an id below part_count), C11_jagged (the parts form "
         "a JaggedTree of the shape of the scheme), C11_blocks_irrelevant and C11_balance_partial (exact-arithmetic reading: "
         "every part within max_iter * max weight of total/part_count). The model runs in IEEE binary64 against the "
         "implementation (partitions compared up to a renaming of ids, schemes compared bit for bit); proved checkers judge "
         "range and balance on every implementation output, a sound checker rebuilds the jagged hierarchy from the ids.",
    design_ref="DESIGN.md §7 C11",
    note="Trusted: Coq kernel; model<->code tie = translator literals + differential runs; oracles named in trusted_base. "
         "Balance is proved for exact arithmetic only (partial w.r.t. f64 rounding and the Ulps rule). No axioms.",
    technique="Coq proof (induction on the scheme, invariants of the scan) + translator + model/implementation correspondence + certified checkers",
)

"""C19 -- partition, weight and MEDIT files round-trip losslessly."""

GENERATORS = {}

PROP = dict(
    bin="c19",
    run_targets=["Run/RunC19.vo"],
    prop_targets=["Properties/C19.vo"],
    cases=dict(quick=1600, thorough=9600),
    level="proof",
    rule="TODO",
    class_names={},
    trusted_base=[
        "axioms: none (every theorem of Properties/C19.v is closed under the global context)",
    ],
    assumptions=[],
)

MANIFEST = dict(
    text="TODO",
    design_ref="DESIGN.md §7 C19",
    note="TODO",
    technique="Coq proof + model/implementation correspondence at byte level + certified checker",
)

"""C19 -- partition, weight and MEDIT files round-trip losslessly."""
import os, re, sys
sys.path.insert(0, os.path.dirname(os.path.dirname(os.path.abspath(__file__))))
from translate_lib import read, fn_body, Fail, HEADER, coq_bool

ETYPES = ["Vertex", "Edge", "Triangle", "Quadrangle", "Quadrilateral", "Tetrahedron", "Hexahedron"]


def _bytes(s):
    return "[" + "; ".join(str(b) for b in s.encode("utf-8")) + "]"


def _arms(body, rhs_pat):
    """`ElementType::A | ElementType::B => <rhs>` arms of a match on an element type -> {variant: rhs}"""
    out = {}
    for m in re.finditer(r"((?:(?:ElementType|Self)::\w+\s*\|?\s*)+)=>\s*" + rhs_pat, body):
        for v in re.findall(r"(?:ElementType|Self)::(\w+)", m.group(1)):
            if v in out:
                raise Fail("variant %s matched twice" % v)
            out[v] = m.group(2)
    return out


def _total(d, what):
    missing = [v for v in ETYPES if v not in d]
    extra = [v for v in d if v not in ETYPES]
    if missing or extra:
        raise Fail("%s: variants missing %s / unknown %s" % (what, missing, extra))


# ---------------------------------------------------------------- partition + weight constants
def gen_formats():
    out = HEADER.format(src="tools/mesh-io/src/partition.rs, weight.rs")
    out += "From Coq Require Import NArith List.\nImport ListNotations.\nOpen Scope N_scope.\n"
    src = read("tools/mesh-io/src/partition.rs")
    rd = fn_body(src, "read")
    wr = fn_body(src, "write")
    if rd is None or wr is None:
        raise Fail("partition.rs: fn read / fn write not found")
    m = re.search(r'header\s*!=\s*b"([^"]*)"', rd)
    if not m:
        raise Fail("partition::read: header comparison not found")
    out += "Definition part_magic_read : list N := %s.\n" % _bytes(m.group(1))
    m = re.search(r'write!\(\s*w\s*,\s*"([^"{}]*)"\s*\)', wr)
    if not m:
        raise Fail("partition::write: magic not found")
    out += "Definition part_magic_write : list N := %s.\n" % _bytes(m.group(1))

    # partition files: every count / id is a full u64, widened or narrowed only between u64 and usize
    pbad = []
    prd, pwr = rd, wr
    if re.findall(r"\bas\s+(\w+)", prd) != ["usize", "usize"] or len(re.findall(r"u64::from_le_bytes", prd)) != 2:
        pbad.append("partition::read: expected exactly `u64::from_le_bytes(..) as usize` twice")
    if re.findall(r"\bas\s+(\w+)", pwr) != ["u64", "u64"] or len(re.findall(r"u64::to_le_bytes", pwr)) != 2:
        pbad.append("partition::write: expected exactly `u64::to_le_bytes(.. as u64)` twice")
    if re.search(r"<<|>>\s*=?\s*[\w(]|\bwrapping_|\boverflowing_", prd + pwr):
        pbad.append("partition: shift or wrapping arithmetic")
    for b in pbad:
        out += "(* width fingerprint: %s *)\n" % b
    out += "Definition part_width_fingerprint : bool := %s.\n" % coq_bool(not pbad)

    src = read("tools/mesh-io/src/weight.rs")
    m = re.search(r"const\s+VERSION\s*:\s*u8\s*=\s*(\d+)\s*;", src)
    if not m:
        raise Fail("weight.rs: VERSION not found")
    out += "Definition weight_version : N := %s.\n" % m.group(1)
    m = re.search(r"const\s+FLAG_INTEGER\s*:\s*u8\s*=\s*1\s*<<\s*(\d+)\s*;", src)
    if not m:
        raise Fail("weight.rs: FLAG_INTEGER not found")
    out += "Definition weight_flag_integer : N := %d.\n" % (1 << int(m.group(1)))
    rd = fn_body(src, "read")
    wr = fn_body(src, "write_inner")
    m = re.search(r'header\s*!=\s*b"([^"]*)"', rd or "")
    if not m:
        raise Fail("weight::read: header comparison not found")
    out += "Definition weight_magic_read : list N := %s.\n" % _bytes(m.group(1))
    m = re.search(r'write!\(\s*w\s*,\s*"([^"{}]*)"\s*\)', wr or "")
    if not m:
        raise Fail("weight::write_inner: magic not found")
    out += "Definition weight_magic_write : list N := %s.\n" % _bytes(m.group(1))
    # the 16-byte literal written for an empty array
    m = re.search(r"let\s+buf\s*=\s*\[([^\]]*)\]", wr)
    if not m:
        raise Fail("weight::write_inner: empty-array literal not found")
    items = [x.strip() for x in m.group(1).split(",") if x.strip()]
    conv = []
    for x in items:
        mm = re.match(r"b'(.)'$", x)
        if mm:
            conv.append(str(ord(mm.group(1))))
        elif x == "VERSION":
            conv.append("weight_version")
        elif x == "flags":
            conv.append("flags")
        elif re.match(r"\d+$", x):
            conv.append(x)
        else:
            raise Fail("weight::write_inner: unexpected item %r in the empty-array literal" % x)
    out += "Definition weight_empty_file (flags : N) : list N := [%s].\n" % "; ".join(conv)
    # the assertion on the criterion count: largest count accepted
    m = re.search(r"assert!\(\s*criterion_count\s*(<=|<)\s*([^,]+),", wr)
    if not m:
        raise Fail("weight::write_inner: criterion-count assertion not found")
    rhs = m.group(2).strip()
    vals = {"u16::MAX as usize": 65535, "std::mem::size_of::<u16>()": 2, "size_of::<u16>()": 2}
    if rhs not in vals:
        raise Fail("weight::write_inner: unexpected bound %r" % rhs)
    out += "Definition weight_max_criteria : N := %d.\n" % (vals[rhs] if m.group(1) == "<=" else vals[rhs] - 1)

    # Fingerprint of the row-size arithmetic (the model computes `criterion_count * 8` on unbounded
    # integers): the criterion count must be widened to usize BEFORE any arithmetic, and no shift,
    # narrowing cast or u16 arithmetic may appear in read / read_inner / write_inner.  A mismatch does
    # not stop the run (the harness must still look for a failing input): it falsifies the obligation
    # weight_rowsize_tie of Properties/C19.v.
    ri = fn_body(src, "read_inner") or ""
    bad = []
    if not re.search(r"fn\s+read_inner\s*<[^(]*>\s*\(\s*mut\s+r\s*:\s*R\s*,\s*criterion_count\s*:\s*usize\s*,", src):
        bad.append("read_inner does not take criterion_count: usize")
    if not re.search(r"let\s+criterion_count\s*=\s*u16::from_le_bytes\(\s*\[\s*flags\[2\]\s*,\s*flags\[3\]\s*\]\s*\)\s*as\s+usize\s*;", rd):
        bad.append("read: the u16 criterion count is not widened with `as usize` where it is decoded")
    if len(re.findall(r"criterion_count", ri)) != 1 or not re.search(r"vec!\[\s*0x00\s*;\s*criterion_count\s*\*\s*8\s*\]", ri):
        bad.append("read_inner: the row buffer is not `vec![0x00; criterion_count * 8]` (only use of criterion_count)")
    if len(re.findall(r"\bweight_count\b", ri)) != 3 or not re.search(r"u64::from_le_bytes\(count_buf\)\s*as\s+usize", ri):
        bad.append("read_inner: the row count is not `u64::from_le_bytes(count_buf) as usize` used for the capacity and the loop bound only")
    for name, body in (("read", rd), ("read_inner", ri), ("write_inner", wr)):
        if re.search(r"<<|>>\s*=?\s*[\w(]|\bwrapping_|\boverflowing_|\bchecked_|\bsaturating_", body):
            bad.append("%s: shift or explicit wrapping/checked arithmetic" % name)
    casts_r = re.findall(r"\bas\s+(u8|u16|u32|i8|i16|i32)\b", rd + ri)
    if casts_r:
        bad.append("read/read_inner: narrowing cast `as %s`" % casts_r[0])
    casts_w = re.findall(r"(\w+)\s+as\s+(u8|u16|u32|i8|i16|i32)\b", wr)
    if casts_w != [("criterion_count", "u16")] or not re.search(r"u16::to_le_bytes\(\s*criterion_count\s+as\s+u16\s*\)", wr):
        bad.append("write_inner: narrowing casts other than `u16::to_le_bytes(criterion_count as u16)`: %s" % casts_w)
    if not re.search(r"let\s+criterion_count\s*=\s*first\.len\(\)\s*;", wr) or not re.search(r"u64::to_le_bytes\(\s*len\s+as\s+u64\s*\)", wr):
        bad.append("write_inner: criterion_count = first.len() / row count `len as u64` not found")
    for b in bad:
        out += "(* row-size fingerprint: %s *)\n" % b.replace("*)", "* )")
    out += "Definition weight_rowsize_fingerprint : bool := %s.\n" % coq_bool(not bad)
    return out


# ---------------------------------------------------------------- MEDIT tables
def gen_medit():
    out = HEADER.format(src="tools/mesh-io/src/lib.rs, medit/mod.rs, medit/parser.rs, medit/serializer.rs")
    out += "From Coupe Require Import Lib.Prelude Model.MeditTypes.\nOpen Scope N_scope.\n"
    mod = read("tools/mesh-io/src/medit/mod.rs")
    codes = dict(re.findall(r"pub\s+const\s+(\w+)\s*:\s*i64\s*=\s*(-?\d+)\s*;", mod))
    for k in ("DIMENSION", "VERTEX", "EDGE", "TRIANGLE", "QUAD", "TETRAHEDRON", "HEXAHEDRON", "END"):
        if k not in codes:
            raise Fail("medit/mod.rs: code::%s not found" % k)
    for k, v in codes.items():
        out += "Definition code_%s : Z := (%s)%%Z.\n" % (k, v)

    lib = read("tools/mesh-io/src/lib.rs")
    nc = _arms(fn_body(lib, "node_count") or "", r"(\d+)")
    _total(nc, "ElementType::node_count")
    out += "Definition etype_node_count (t : etype) : nat :=\n  match t with\n"
    for v in ETYPES:
        out += "  | %s => %s\n" % (v, nc[v])
    out += "  end%nat.\n"

    ser = read("tools/mesh-io/src/medit/serializer.rs")
    cd = _arms(fn_body(ser, "code") or "", r"code::(\w+)")
    _total(cd, "ElementType::code")
    out += "Definition etype_code (t : etype) : Z :=\n  match t with\n"
    for v in ETYPES:
        if cd[v] not in codes:
            raise Fail("ElementType::code: unknown constant code::%s" % cd[v])
        out += "  | %s => code_%s\n" % (v, cd[v])
    out += "  end.\n"

    par = read("tools/mesh-io/src/medit/parser.rs")
    fc = fn_body(par, "from_code")
    if fc is None:
        raise Fail("ElementType::from_code not found")
    arms = re.findall(r"code::(\w+)\s*=>\s*Self::(\w+)", fc)
    if not arms:
        raise Fail("ElementType::from_code: no arm found")
    out += "(* match arms in source order: the first equal constant wins *)\n"
    out += "Definition etype_from_code (c : Z) : option etype :=\n"
    for k, v in arms:
        if k not in codes or v not in ETYPES:
            raise Fail("ElementType::from_code: unexpected arm %s => %s" % (k, v))
        out += "  if (c =? code_%s)%%Z then Some %s else\n" % (k, v)
    out += "  None.\n"

    # ASCII section names: Display for AsciiElementType, FromStr for ElementType
    names = dict(re.findall(r'ElementType::(\w+)\s*=>\s*write!\(\s*f\s*,\s*"([^"]*)"\s*\)', ser))
    _total(names, "AsciiElementType::fmt")
    out += "Definition etype_ascii_name (t : etype) : list N :=\n  match t with\n"
    for v in ETYPES:
        out += "  | %s => %s   (* %s *)\n" % (v, _bytes(names[v]), names[v])
    out += "  end.\n"
    fs = fn_body(par, "from_str")
    if fs is None:
        raise Fail("FromStr for ElementType not found")
    kws = re.findall(r'"([^"]*)"\s*=>\s*ElementType::(\w+)', fs)
    if not kws:
        raise Fail("FromStr for ElementType: no arm found")
    out += "Definition etype_keywords : list (list N * etype) :=\n  [ "
    out += ";\n    ".join("(%s, %s)   (* %s *)" % (_bytes(k), v, k) for k, v in kws).replace(")   (*", ")  (*")
    out += "\n  ].\n"
    # skipped sections
    m = re.search(r'((?:"\w+"\s*\|\s*)+"\w+")\s*=>\s*\{\s*drop\(section\);[^}]*?num_entries', par)
    if not m:
        raise Fail("parse_ascii: skipped-section arm not found")
    sk = re.findall(r'"(\w+)"', m.group(1))
    out += "Definition ascii_skipped_sections : list (list N) :=\n  [ " + ";\n    ".join(
        "%s  (* %s *)" % (_bytes(k), k) for k in sk) + "\n  ].\n"

    # binary writer: magic, version, End code literals; reader: accepted magic
    sb = fn_body(ser, "serialize_medit_binary")
    if sb is None:
        raise Fail("serialize_medit_binary not found")
    lits = re.findall(r"i32::to_le_bytes\((\d+)\)", sb)
    if len(lits) != 3:
        raise Fail("serialize_medit_binary: expected three literal i32 (magic, version, End), found %s" % lits)
    out += "Definition bin_write_magic : N := %s.\nDefinition bin_write_version : N := %s.\nDefinition bin_write_end : Z := (%s)%%Z.\n" % tuple(lits)
    return out


GENERATORS = {"FormatsGen.v": gen_formats, "MeditGen.v": gen_medit}

PROP = dict(
    bin="c19",
    run_targets=["Run/RunC19.vo"],
    prop_targets=["Properties/C19.vo"],
    cases=dict(quick=1600, thorough=9600),
    level="proof",
    rule="every case is drawn from the seed: 9 streams -- partition files (5 id families incl. extreme 64-bit ids) and "
         "malformed partition bytes (7 mutations), weight arrays (int/float, 1..4 criteria and 5..300, one row, empty, "
         "zero criteria, ragged; non-finite / subnormal / extreme bit patterns) and malformed weight bytes (9 mutations), "
         "MEDIT meshes written in binary and in ASCII (dimension 1..4, 0..20 nodes, 0..5 blocks of any type in any order incl. "
         "empty blocks, 6 coordinate families, negative / extreme references, out-of-range node numbers), foreign and "
         "malformed MEDIT binary files (versions 1..4, both byte orders, 13 mutations), mutated ASCII files (15 mutations: "
         "case, CRLF/tabs, junk after keywords, skipped sections, missing/extra words, invalid UTF-8, Unicode spaces, ...), "
         "and format-sniffing buffers (10 families); plus, one per shard of 100 cases, HEADER-FIELD BOUNDARY cases whose values are "
         "given by a formula of (seed,row,column) evaluated identically by the harness and by Run/RunC19.v (only sizes, seed and "
         "(length,digest) summaries are in the case file; the judgement -- row lengths = criterion count, same values -- is made in "
         "Coq): weight files of both element types with 255,256,257,4095,4096,8191,8192,8193,8197,16384,32767,32768,65535 criteria "
         "(all 13 in every quick run) x 0..3 rows, 65535..65537 rows, partition files of 255..257 / 65535..65537 / 70000 ids, MEDIT "
         "binary and ASCII meshes with 65535..65537 nodes or elements. distinct = distinct input value (write+read cases) or distinct byte "
         "string (read-only cases); non-trivial = at least 2 ids / at least one weight row / a mesh with nodes and at least "
         "one block / a byte string longer than the fixed header",
    class_names={
        0: "partition write+read: read back Ok", 1: "partition write+read: error", 2: "partition write+read: panic",
        10: "partition bytes: Ok", 11: "partition bytes: error", 12: "partition bytes: panic",
        20: "weights in contract: read back Ok", 21: "weights in contract: error", 22: "weights in contract: panic",
        30: "weights outside contract (empty / 0 criteria / ragged / >65535): Ok", 31: "weights outside contract: error",
        32: "weights outside contract: panic",
        40: "weight bytes: Ok", 41: "weight bytes: error", 42: "weight bytes: panic",
        50: "MEDIT binary, listed block types: read back Ok", 51: "MEDIT binary, listed: error", 52: "MEDIT binary, listed: panic",
        60: "MEDIT binary with Vertex/Quadrangle blocks or node numbers >= 2^63-1: Ok", 61: "MEDIT binary outside contract: error", 62: "MEDIT binary outside contract: panic (writer `node + 1` / reader `0 - 1`)",
        70: "MEDIT ASCII in contract: read back Ok", 71: "MEDIT ASCII in contract: error", 72: "MEDIT ASCII in contract: panic",
        80: "MEDIT ASCII outside contract (Vertex block / NaN payload / node number usize::MAX): Ok", 81: "MEDIT ASCII outside contract: error",
        82: "MEDIT ASCII outside contract: panic (writer `node + 1`)",
        90: "parse_binary on foreign bytes: Ok", 91: "parse_binary: error", 92: "parse_binary: panic",
        94: "parse_ascii on mutated text: Ok", 95: "parse_ascii: error", 96: "parse_ascii: panic",
        98: "from_reader on foreign bytes: Ok", 99: "from_reader: error", 100: "from_reader: panic",
        120: "weights at a header-field boundary, in contract: read back Ok", 121: "same: error", 122: "same: panic",
        124: "weights at a boundary, outside contract (no rows / 65536 criteria): Ok", 125: "same (outside): error",
        126: "same (outside): panic",
        128: "partition with 2^8 / 2^16-ish ids: read back Ok", 129: "partition boundary: error", 130: "partition boundary: panic",
        132: "MEDIT binary with 2^16-ish nodes/elements: read back Ok", 133: "MEDIT binary boundary: error", 134: "MEDIT binary boundary: panic",
        136: "MEDIT ASCII with 2^16-ish nodes/elements: read back Ok", 137: "MEDIT ASCII boundary: error", 138: "MEDIT ASCII boundary: panic",
        110: "sniff: neither", 111: "sniff: ascii", 112: "sniff: test_format_ascii panics (slice off a char boundary)",
        114: "sniff: binary", 115: "sniff: binary and ascii", 116: "sniff: binary, ascii test panics",
    },
    trusted_base=[
        "axioms: none (every theorem of Properties/C19.v is closed under the global context)",
        "Rust std `impl Display for f64` / `impl FromStr for f64`: enter medit_ascii_roundtrip as Section variables "
        "print_f64 / parse_f64 under the per-coordinate hypothesis float_ok x := parse_f64 (print_f64 x) = Some x and the "
        "printed text is non-empty ASCII without white space (std documents the shortest-representation round trip for every "
        "finite value; inf / -inf print as `inf` / `-inf` and parse back); in the correspondence run the printed text of every "
        "coordinate and the parsed value of every word come from the implementation (tables in the case) and the hypothesis "
        "is re-checked on every case",
        "case files carry bytes packed 7 per primitive 63-bit integer (Coq Uint63, unpacked by Run/RunC19.unpack under vm_compute); "
        "used by the run glue only, not by any theorem",
        "modelled, not verified: usize overflow of the byte-position counter of serialize_medit_binary (needs a file of 2^64 bytes); "
        "an allocation failure (count below the capacity-overflow limit but larger than memory) aborts the process and is not "
        "modelled -- the read-only streams avoid such counts; line numbers of parse errors are modelled (they steer the "
        "junk-skipping loop) but error messages are compared by kind only",
        "BufRead chunking: the models read from one contiguous byte string (what `&[u8]` and Cursor give); with a chunked "
        "BufReader the token/line readers see the same bytes (UTF-8 validation per chunk can only differ on non-ASCII input)",
    ],
    assumptions=[
        "boundary cases: a 64-bit shift/add running digest stands for the compared byte strings / value lists (a collision would hide a "
        "difference; lengths and row lengths are compared exactly)",
        "usize = u64 (the code's own TODO: compile_error when sizeof(usize) < sizeof(u64))",
        "weight arrays are rectangular with 1 <= criteria <= 65535; arrays without rows are a separate lemma "
        "(Integers([]) round-trips, Floats([]) is read back as Integers([]): judged outside the property, see docs/C19.md)",
        "meshes satisfy the invariants of Mesh::from_raw_parts; binary: 1 <= dimension < 2^31, node numbers < 2^63-1; "
        "ASCII: node numbers < 2^64-1, coordinates whose Display text parses back to the same bits (all non-NaN values)",
        "in-memory sizes: 8*len <= isize::MAX for every Vec involved (true of any allocated Vec)",
        "debug profile (overflow checks on): `node + 1`, `x - 1` and `a * b` panic instead of wrapping",
    ],
)

MANIFEST = dict(
    text="Theorems partition_roundtrip, weight_roundtrip_int/float (any 64-bit pattern, 1..65535 criteria), medit_bin_roundtrip "
         "(+ _exact for the property's block types), sniff_binary_written / sniff_ascii_written and medit_ascii_roundtrip (under "
         "the named std float hypothesis) proved for ALL inputs about byte-level Gallina models of partition.rs, weight.rs, "
         "medit/serializer.rs, medit/parser.rs and the sniffing of lib.rs; magic strings, version, flag bit, criterion bound, "
         "MEDIT codes, node counts, keyword and name tables are re-read from the Rust source on every run; implementation and "
         "model are compared byte for byte (writers) and value for value (readers, incl. foreign/malformed files) on generated "
         "cases, and a checker compares what the implementation read back with what it wrote.",
    design_ref="DESIGN.md §7 C19",
    note="Trusted: Coq kernel; the model<->code tie is the translator (tables/literals) plus differential runs (1.6k/9.6k cases); "
         "Rust std f64 Display/FromStr round trip for the ASCII coordinates (hypothesis, re-checked per case). No axioms. "
         "Stated normalisations: Vertex blocks are not written; Quadrangle is read back as Quadrilateral in binary; ASCII "
         "loses NaN payloads; Floats([]) reads back as Integers([]).",
    technique="Coq proof (byte-level codecs, induction over rows/blocks/lines) + translator + model/implementation correspondence + checker",
)

"""C08 -- the Hilbert index is a bijective, continuous curve at every accepted order."""
import os, re, sys
sys.path.insert(0, os.path.dirname(os.path.dirname(os.path.abspath(__file__))))
from translate_lib import read, fn_body, Fail, HEADER


# ---------------------------------------------------------------- translator
def _int(lit):
    lit = lit.replace("_", "")
    if lit.startswith("0x"):
        return int(lit[2:], 16)
    if lit.startswith("0b"):
        return int(lit[2:], 2)
    return int(lit)


_BITS = {"u8::BITS": 8, "u16::BITS": 16, "u32::BITS": 32, "u64::BITS": 64, "usize::BITS": 64, "u128::BITS": 128}


def _resolve(expr, src, depth=0):
    """Value of a constant integer expression of the Rust source: literals, `uN::BITS`, named
    `const`s defined anywhere in the file (resolved recursively), + - * / << >> and parentheses;
    `as <type>` casts are dropped.  Raises Fail on anything else."""
    if depth > 8:
        raise Fail("constant expression nests too deep: %s" % expr)
    e = re.sub(r"\bas\s+\w+", "", expr)
    for k, v in _BITS.items():
        e = e.replace(k, str(v))
    e = re.sub(r"\b(?:Self|HilbertCurve|super|crate)::", "", e)

    def lit(m):
        return str(_int(m.group(0)))
    e = re.sub(r"\b0[xb][0-9a-fA-F_]+|\b[0-9][0-9_]*(?:_?[ui](?:8|16|32|64|128|size))?\b",
               lambda m: str(_int(re.sub(r"_?[ui](?:8|16|32|64|128|size)$", "", m.group(0)))), e)

    def name(m):
        n = m.group(0)
        d = re.search(r"\bconst\s+" + re.escape(n) + r"\s*:\s*\w+\s*=\s*([^;]+);", src)
        if not d:
            raise Fail("constant %s is not defined by a `const` item" % n)
        return "(" + str(_resolve(d.group(1), src, depth + 1)) + ")"
    e = re.sub(r"\b[A-Za-z_]\w*\b", name, e)
    if not re.fullmatch(r"[0-9\s()+\-*/<>]+", e):
        raise Fail("cannot evaluate constant expression `%s`" % expr.strip())
    try:
        v = eval(e.replace("/", "//"), {"__builtins__": {}}, {})
    except Exception:
        raise Fail("cannot evaluate constant expression `%s`" % expr.strip())
    if not isinstance(v, int) or v < 0:
        raise Fail("constant expression `%s` is not a natural number" % expr.strip())
    return v


def _table(body, name, rows, cols):
    m = re.search(r"const\s+" + name + r"\s*:\s*\[\[\w+;\s*(\d+)\];\s*(\d+)\]\s*=\s*\[(.*?)\];", body, re.S)
    if not m:
        raise Fail("const %s not found in encode_2d_slow" % name)
    if int(m.group(1)) != cols or int(m.group(2)) != rows:
        raise Fail("%s is expected to be [[_; %d]; %d]" % (name, cols, rows))
    text = re.sub(r"//[^\n]*", "", m.group(3))
    out = []
    for r in re.findall(r"\[([^\[\]]*)\]", text):
        row = [_int(x) for x in re.findall(r"[0-9][0-9a-fA-Fx_]*", r)]
        if len(row) != cols:
            raise Fail("%s: a row with %d entries" % (name, len(row)))
        out.append(row)
    if len(out) != rows:
        raise Fail("%s: %d rows" % (name, len(out)))
    return out


def _coq_rows(t):
    return "[" + ";\n   ".join("[" + ";".join(str(x) for x in r) + "]" for r in t) + "]"


def _masks(body, nargs):
    """pdep_u64(<var>, <hex> [<< k]) occurrences, in source order."""
    ms = re.findall(r"pdep_u64\(\s*(\w+)\s*,\s*(0x[0-9a-fA-F_]+)\s*(?:<<\s*(\d+))?\s*\)", body)
    if len(ms) != nargs:
        raise Fail("expected %d pdep_u64 calls, found %d" % (nargs, len(ms)))
    return [(v, _int(h), int(k) if k else 0) for v, h, k in ms]


def gen_hilbert():
    rel = "src/algorithms/hilbert_curve.rs"
    src = read(rel)
    slow = fn_body(src, "encode_2d_slow")
    e2 = fn_body(src, "encode_2d")
    e3 = fn_body(src, "encode_3d")
    if slow is None or e2 is None or e3 is None:
        raise Fail("fn encode_2d_slow / encode_2d / encode_3d not found")
    base = _table(slow, "BASE_PATTERN", 4, 4)
    conf = _table(slow, "CONFIGURATION", 4, 4)
    # the digit loop of encode_2d_slow: 2 bits per level, quadrant = (zorder >> 2i) & 3
    if not re.search(r"\(zorder\s*>>\s*\(2\s*\*\s*i\)\)\s*as\s+usize\s*&\s*3", slow):
        raise Fail("encode_2d_slow: quadrant extraction `(zorder >> (2 * i)) as usize & 3` not found")
    if not re.search(r"hilbert\s*=\s*\(hilbert\s*<<\s*2\)\s*\|\s*BASE_PATTERN\[config\]\[quadrant\]", slow):
        raise Fail("encode_2d_slow: `hilbert = (hilbert << 2) | BASE_PATTERN[config][quadrant]` not found")
    if not re.search(r"config\s*=\s*CONFIGURATION\[config\]\[quadrant\]", slow):
        raise Fail("encode_2d_slow: `config = CONFIGURATION[config][quadrant]` not found")

    # ---- encode_2d: LUT construction and chunking constants
    m = re.search(r"const\s+LUT\s*:\s*\[u16;\s*([0-9_]+)\]", e2)
    if not m:
        raise Fail("encode_2d: const LUT: [u16; N] not found")
    lut2_len = _int(m.group(1))
    m = re.search(r"let\s+mut\s+lut\s*=\s*\[0;\s*([0-9_]+)\];\s*let\s+mut\s+i\s*:\s*usize\s*=\s*0;\s*while\s+i\s*<\s*([^{]+?)\s*\{", e2)
    if not m or _int(m.group(1)) != lut2_len:
        raise Fail("encode_2d: LUT builder `let mut lut = [0; N]; let mut i: usize = 0; while i < BOUND {` not found")
    lut2_built = _resolve(m.group(2), src)      # entries i < BOUND are written, the others stay 0
    if not re.search(r"i\s*\+=\s*1;\s*\}\s*lut\s*\}", e2):
        raise Fail("encode_2d: LUT builder does not end with `i += 1; } lut }`")
    m = re.search(r"encode_2d_slow\(zorder,\s*(\d+),\s*config\)", e2)
    if not m:
        raise Fail("encode_2d: LUT construction call encode_2d_slow(zorder, K, config) not found")
    lut2_order = int(m.group(1))
    m = re.search(r"let\s+zorder\s*=\s*\(i\s*&\s*(0x[0-9a-fA-F_]+)\)\s*as\s+u64;\s*let\s+config\s*=\s*i\s*>>\s*(\d+);", e2)
    if not m:
        raise Fail("encode_2d: LUT index split `(i & MASK)` / `i >> BITS` not found")
    lut2_mask, chunk_bits = _int(m.group(1)), int(m.group(2))
    if not re.search(r"lut\[i\]\s*=\s*\(config\s*<<\s*%d\)\s*as\s+u16\s*\|\s*hilbert_order\s+as\s+u16" % chunk_bits, e2):
        raise Fail("encode_2d: LUT entry packing `(config << %d) as u16 | hilbert_order as u16` not found" % chunk_bits)
    m = re.search(r"let\s+mut\s+shift\s*:\s*i64\s*=\s*2\s*\*\s*order\s+as\s+i64\s*-\s*(\d+);", e2)
    if not m or int(m.group(1)) != chunk_bits:
        raise Fail("encode_2d: `let mut shift: i64 = 2 * order as i64 - %d` not found" % chunk_bits)
    if not re.search(r"while\s+shift\s*>\s*0\s*\{\s*config\s*=\s*LUT\[\(\(config\s*&\s*!%s\)\s*\|\s*\(\(zorder\s*>>\s*shift\)\s*&\s*%s\)\s*as\s+u16\)\s*as\s+usize\];"
                     r"\s*hilbert\s*=\s*\(hilbert\s*<<\s*%d\)\s*\|\s*\(config\s*&\s*%s\)\s*as\s+u64;\s*shift\s*-=\s*%d;\s*\}"
                     % (("0xfff", "0xfff", chunk_bits, "0xfff", chunk_bits)), e2):
        raise Fail("encode_2d: chunk loop does not have the modelled shape")
    if lut2_mask != (1 << chunk_bits) - 1 or lut2_mask != 0xfff:
        raise Fail("encode_2d: chunk mask is not 2^bits-1 = 0xfff")
    if not re.search(r"config\s*=\s*LUT\[\(\(config\s*&\s*!0xfff\)\s*\|\s*\(\(zorder\s*<<\s*\(-shift\)\s*as\s+u64\)\s*&\s*0xfff\)\s*as\s+u16\)\s*as\s+usize\];", e2):
        raise Fail("encode_2d: last (partial) chunk lookup does not have the modelled shape")
    tail = e2[e2.rfind("LUT["):]
    tail = re.sub(r"//[^\n]*", "", tail)
    if re.search(r"\(hilbert\s*<<\s*\(%d\s*\+\s*shift\)\)\s*\|\s*\(\(config\s*&\s*0xfff\)\s*as\s+u64\s*>>\s*-shift\)\s*\}\s*$" % chunk_bits, tail):
        final_fixed = True
    elif re.search(r"hilbert\s*=\s*\(hilbert\s*<<\s*%d\)\s*\|\s*\(config\s*&\s*0xfff\)\s*as\s+u64;\s*hilbert\s*>>\s*-shift\s*\}\s*$" % chunk_bits, tail):
        final_fixed = False
    else:
        raise Fail("encode_2d: final expression is neither the repaired nor the pinned form")
    m2 = _masks(e2, 2)
    if [v for v, _, _ in m2] != ["x", "y"]:
        raise Fail("encode_2d: pdep_u64 calls are expected on x then y")

    # ---- encode_3d
    m = re.search(r"const\s+LUT\s*:\s*\[u8;\s*(\d+)\]\s*=\s*\[(.*?)\];", e3, re.S)
    if not m:
        raise Fail("encode_3d: const LUT: [u8; N] not found")
    lut3 = [_int("0b" + v) for v in re.findall(r"0b([01_]+)", re.sub(r"//[^\n]*", "", m.group(2)))]
    if int(m.group(1)) != 96 or len(lut3) != 96:
        raise Fail("encode_3d: LUT is expected to have 96 binary literals, found %d" % len(lut3))
    if not re.search(r"for\s+i\s+in\s+\(0\.\.order\)\.rev\(\)\s*\{\s*config\s*=\s*LUT\[\(config\s*\|\s*\(\(zorder\s*>>\s*\(3\s*\*\s*i\)\)\s*&\s*7\)\)\s*as\s+usize\]\s*as\s+u64;"
                     r"\s*hilbert\s*=\s*\(hilbert\s*<<\s*3\)\s*\|\s*\(config\s*&\s*7\);\s*config\s*&=\s*!7;\s*\}", e3):
        raise Fail("encode_3d: digit loop does not have the modelled shape")
    m3 = _masks(e3, 3)
    if [v for v, _, _ in m3] != ["x", "y", "z"]:
        raise Fail("encode_3d: pdep_u64 calls are expected on x, y, z")

    # ---- order limits
    def max_order(point):
        i = src.find("Partition<(&[%s], W)> for HilbertCurve" % point)
        if i < 0:
            raise Fail("impl Partition<(&[%s], W)> for HilbertCurve not found" % point)
        j = src.find("\nimpl", i + 1)
        block = src[i:j if j > 0 else len(src)]
        g = re.search(r"if\s+self\.order\s*>\s*([\w:]+)\s*\{\s*return\s+Err\(Error::InvalidOrder\s*\{\s*max:\s*([\w:]+),\s*actual:\s*self\.order,?\s*\}\);", block)
        if not g or g.group(1) != g.group(2):
            raise Fail("guard `if self.order > LIMIT { return Err(Error::InvalidOrder { max: LIMIT, actual: self.order }) }` for %s not found" % point)
        # the limit may be a literal, a const of the block, or a const defined elsewhere in the file
        local = re.search(r"\bconst\s+" + re.escape(g.group(1).split("::")[-1]) + r"\s*:\s*\w+\s*=\s*([^;]+);", block)
        return _resolve(local.group(1) if local else g.group(1), src)

    # ---- segment_to_segment: the scaling factor
    seg = fn_body(src, "segment_to_segment")
    if seg is None:
        raise Fail("fn segment_to_segment not found")
    seg_nc = re.sub(r"//[^\n]*", "", seg)
    if re.search(r"let\s+mut\s+f\s*=\s*\(n\s*/\s*width\)\.min\(f64::MAX\);", seg_nc):
        seg_capped = True
    elif re.search(r"let\s+mut\s+f\s*=\s*n\s*/\s*width;", seg_nc):
        seg_capped = False
    else:
        raise Fail("segment_to_segment: initial factor is neither `(n / width).min(f64::MAX)` nor `n / width`")
    if not re.search(r"let\s+width\s*=\s*max\s*-\s*min;\s*let\s+n\s*=\s*\(1_u64\s*<<\s*order\)\s*as\s+f64;", seg_nc):
        raise Fail("segment_to_segment: `width = max - min; n = (1_u64 << order) as f64` not found")
    if not re.search(r"while\s+n\s*<=\s*width\s*\*\s*f\s*\{\s*f\s*=\s*crate::nextafter\(f,\s*0\.0\);\s*\}", seg_nc):
        raise Fail("segment_to_segment: `while n <= width * f { f = crate::nextafter(f, 0.0); }` not found")
    if not re.search(r"\(f\s*\*\s*\(v\s*-\s*min\)\)\s*as\s+u64", seg_nc):
        raise Fail("segment_to_segment: `(f * (v - min)) as u64` not found")

    out = HEADER.format(src=rel)
    out += "From Coq Require Import NArith List.\nImport ListNotations.\nOpen Scope N_scope.\n\n"
    out += "(* encode_2d_slow: BASE_PATTERN[config][quadrant], CONFIGURATION[config][quadrant] *)\n"
    out += "Definition base_pattern : list (list N) :=\n  %s.\n" % _coq_rows(base)
    out += "Definition configuration : list (list N) :=\n  %s.\n\n" % _coq_rows(conf)
    out += "(* encode_2d: LUT of %d entries built from encode_2d_slow at order %d; %d-bit chunks *)\n" % (lut2_len, lut2_order, chunk_bits)
    out += "Definition lut2_len : N := %d.\n" % lut2_len
    out += "(* the builder loop `while i < BOUND` writes the entries below BOUND, the others keep their initial 0 *)\n"
    out += "Definition lut2_built : N := %d.\n" % lut2_built
    out += "Definition lut2_order : nat := %d.\n" % lut2_order
    out += "Definition lut2_chunk_bits : N := %d.\n" % chunk_bits
    out += "(* true: `(hilbert << (12 + shift)) | ((config & 0xfff) >> -shift)`; false: `hilbert = (hilbert << 12) | ..; hilbert >> -shift` *)\n"
    out += "Definition encode_2d_final_fixed : bool := %s.\n" % ("true" if final_fixed else "false")
    out += "(* pdep masks: literal and left shift (the shift wraps in u64) *)\n"
    for v, h, k in m2:
        out += "Definition pdep2_%s : N * N := (%d, %d).\n" % (v, h, k)
    out += "\n(* encode_3d: 96-entry table, entry = next_state * 8 + digit, index = state * 8 + octant *)\n"
    out += "Definition lut3 : list N :=\n  [" + ";\n   ".join(";".join(str(x) for x in lut3[i:i + 8]) for i in range(0, 96, 8)) + "].\n"
    for v, h, k in m3:
        out += "Definition pdep3_%s : N * N := (%d, %d).\n" % (v, h, k)
    out += "\n(* segment_to_segment: true: `let mut f = (n / width).min(f64::MAX)`; false: `let mut f = n / width` *)\n"
    out += "Definition seg_factor_capped : bool := %s.\n" % ("true" if seg_capped else "false")
    out += "\n(* HilbertCurve::partition: `if self.order > MAX_ORDER` *)\n"
    out += "Definition max_order_2d : N := %d.\n" % max_order("Point2D")
    out += "Definition max_order_3d : N := %d.\n" % max_order("Point3D")
    return out


GENERATORS = {"HilbertTables.v": gen_hilbert}


PROP = dict(
    bin="c08",
    run_targets=["Run/RunC08.vo"],
    prop_targets=["Properties/C08.vo"],
    cases=dict(quick=5000, thorough=40000),
    level="proof",
    harness_timeout=2400,
    rule="case kinds: encode_2d / encode_3d on a cell + its parent cell + all its in-grid face neighbours (one cell per order "
         "0..32 / 0..21 first, then random orders with corner / centre / alternating-bit / random coordinates, a high-order "
         "family 29..32 / 18..21, and a correspondence-only family at orders 33..37 beyond MAX_ORDER); STRUCTURED cells that "
         "address the tables systematically: for every order 1..32, every 12-bit chunk position of encode_2d and every "
         "configuration reachable before that chunk (a prefix is searched that puts the state machine there), chunk values "
         "0xfff, 0x000 and (rotating; all of them in the thorough tier) 0xaaa, 0x555, 0xffe, 0x7ff, 0xf0f, 0x0f0, the 12 one-bit "
         "values, with zero / all-ones / random lower levels (family encode_2d_lut_entry, counter structured_2d_lut_cases); for "
         "every (state, octant) entry of the 96-entry 3-D table, a cell whose prefix reaches that state, at 5 orders per entry "
         "(all 21 in the thorough tier) (family encode_3d_lut_entry); the PUBLIC entry point HilbertCurve::partition in 2-D and 3-D "
         "on 8 random points at orders 0, 1, .., the maxima 32 / 21, 33 / 22, .., 65, 2^20, u32::MAX and random ones: accepted iff "
         "order <= 32 / 21, otherwise InvalidOrder{max, actual} (a violation here is a checker rejection); ALL cells of orders 0..4 "
         "in 2-D and 3-D as single cases (model equality per cell + bijection/adjacency/parent checked in Coq on the implementation's "
         "table); encode_2d_slow on random (zorder, order, config); pdep_u64 (BMI2 path when the CPU has it) and "
         "pdep_u64_fallback on 8 mask families x 5 source families; segment_to_segment on 10 interval families (unit, degenerate, "
         "few ulps wide, huge, tiny width, across zero, signed zero, dyadic, random finite bit patterns, factor-overflow) with "
         "~30 sample values each (ends, cell boundaries +-1..2 ulp, random). Exhaustive, on the Rust side only (counters "
         "rust_exhaustive_*): every cell of orders 1..6 (2-D) / 1..4 (3-D) in the quick tier and 1..12 (2-D) / 1..7 (3-D) in the "
         "thorough tier is checked for range, bijectivity, face-adjacency of consecutive indices and the parent recurrence; a failure "
         "there is turned into a case. distinct = distinct inputs; non-trivial = order >= 2 (encoders), non-zero mask and source "
         "(pdep), min < max (segment).",
    class_names={0: "pdep", 1: "encode_2d_slow", 2: "encode_2d cell", 3: "encode_3d cell", 4: "all cells 2-D", 5: "all cells 3-D",
                 6: "segment Ok (factor used as computed)", 7: "segment panic", 8: "segment hang", 9: "encoder panic",
                 10: "segment Ok (nextafter loop entered)", 11: "HilbertCurve::partition order guard"},
    trusted_base=[
        "axioms: none for the curve, pdep and encoder theorems (closed under the global context); the segment_to_segment "
        "theorems (C08_seg_*, C08_bits_are_valid_floats) use Flocq 4.1 and therefore the standard real-number axioms of Coq: "
        "ClassicalDedekindReals.sig_forall_dec, ClassicalDedekindReals.sig_not_dec, "
        "FunctionalExtensionality.functional_extensionality_dep, Classical_Prop.classic",
        "Flocq 4.1 (BinarySingleNaN: Bminus/Bmult/Bdiv/Bleb correctness; PrimFloat: SpecFloat rounding = Flocq rounding)",
        "the x86 PDEP instruction = pdep_u64_fallback (compared on every pdep case; the model is the fallback loop)",
        "modelled, not verified: that the model's fuel constant (200 iterations) suffices for the nextafter loop of "
        "segment_to_segment (C08_seg_terminates proves that a sufficient fuel exists; every generated case returns within 200, "
        "an implementation hang is reported as a violation)",
    ],
    assumptions=[
        "encoders are called with x, y, z < 2^order and order <= MAX_ORDER (32 / 21), as HilbertCurve::partition guarantees",
        "segment_to_segment: finite min <= max, finite values inside [min, max], order < 64",
        "debug profile (debug_assert! and shift-overflow checks on), as built by the harness",
    ],
)

MANIFEST = dict(
    text="Proved in Coq for EVERY order n and EVERY start state, by induction on n over a finite certificate about the tables "
         "(each row a permutation, consecutive quadrants adjacent, child entry/exit corners glue; evaluated by vm_compute on the "
         "4x4 and 12x8 tables the translator re-reads from hilbert_curve.rs on every run): the 2-D and 3-D cell->index maps are "
         "bijections [0,2^n)^D <-> [0,2^(Dn)) with explicit decoders, cells of consecutive indices share a face, and dropping D "
         "index bits gives the parent cell's index. Proved about a line-by-line model of the code (u64 wraps explicit): "
         "pdep_u64_fallback = bit deposit (pdep_spec) and its two interleaving instances; encode_2d_slow, the LUT-driven encode_2d "
         "(12-bit chunks, zero-padded last chunk) and encode_3d return exactly that curve's index for all orders <= 32 / 21 "
         "(the pinned encode_2d is refuted at order 32 by a kept witness); segment_to_segment is monotone and maps "
         "[min,max] into [0,2^order-1] for all finite intervals (Flocq), with the factor shown to be a valid finite non-negative "
         "float and its nextafter loop to terminate; the pinned uncapped factor is shown never to leave its loop on a "
         "subnormal-width interval; the per-cell check applied to implementation outputs is proved to accept every indexing that "
         "has the property. The model is "
         "compared with the implementation on generated inputs each run; exhaustive sweeps (orders <= 12 / 7 in the thorough "
         "tier) check bijectivity, adjacency and the recurrence directly on the implementation.",
    design_ref="DESIGN.md §7 C08",
    note="Trusted: Coq kernel; Flocq 4.1 and the real-number axioms for the float lemmas only; the model<->code tie is the "
         "translator (tables, masks, limits, the shapes of the loops and of the two repaired expressions) plus differential runs "
         "(5k/40k cases); PDEP hardware = fallback is tested, not proved; the nextafter loop is proved to terminate, the "
         "model's concrete fuel bound is checked per case.",
    technique="Coq proof (induction on the order over a finite table certificate; Flocq for the float lemmas) + translator + "
              "model/implementation correspondence + exhaustive sweeps of small orders",
)

"""C09 -- space-filling-curve parts are contiguous runs of the curve (HilbertCurve, ZCurve)."""
import math, os, re, struct, sys
sys.path.insert(0, os.path.dirname(os.path.dirname(os.path.abspath(__file__))))
from translate_lib import read, fn_body, Fail, HEADER, coq_bool


def _f64_bits(text):
    return struct.unpack(">Q", struct.pack(">d", float(text)))[0]


def gen_sfc():
    out = HEADER.format(src="src/algorithms/hilbert_curve.rs, src/algorithms/z_curve.rs")
    out += "From Coq Require Import NArith.\n"
    # ---- hilbert_curve.rs
    src = read("src/algorithms/hilbert_curve.rs")
    wq = fn_body(src, "weighted_quantiles")
    if wq is None:
        raise Fail("fn weighted_quantiles not found")
    m = re.search(r"const\s+SPLIT_TOLERANCE\s*:\s*f64\s*=\s*([0-9.eE+-]+)\s*;", wq)
    if not m:
        raise Fail("SPLIT_TOLERANCE literal not found in weighted_quantiles")
    out += "Definition hilbert_split_tolerance_bits : N := %d%%N.  (* %s *)\n" % (_f64_bits(m.group(1)), m.group(1))
    # the model has one split per part boundary: no `dedup` of the splits (DESIGN §8 #4)
    out += "Definition hilbert_splits_dedup : bool := %s.\n" % coq_bool(re.search(r"\.dedup\w*\s*\(", wq) is not None)
    # the epsilon of the two `abs_diff_eq!` tests of the neighbour scans (fail closed on anything else)
    wqn = re.sub(r"\s+", "", wq)
    n_old = wqn.count("approx::abs_diff_eq!(pw.as_(),expected_left_weight)")
    n_new = wqn.count("approx::abs_diff_eq!(pw.as_(),expected_left_weight,epsilon=f64::EPSILON*f64::min(1.0,total_weight.as_()))")
    n_all = wqn.count("abs_diff_eq!(")
    if n_all != 2 or (n_old, n_new) not in ((2, 0), (0, 2)):
        raise Fail("the two abs_diff_eq! tests of weighted_quantiles are not recognised (default epsilon x2, or "
                   "epsilon = f64::EPSILON * f64::min(1.0, total_weight.as_()) x2)")
    out += "Definition hilbert_eps_scaled : bool := %s.\n" % coq_bool(n_new == 2)
    pi = fn_body(src, "partition_indexed")
    if pi is None:
        raise Fail("fn partition_indexed not found")
    plain = re.search(r"let\s*\(\s*Ok\(part_id\)\s*\|\s*Err\(part_id\)\s*\)\s*=\s*split_positions\s*\.\s*binary_search\(\s*&index\s*\)", pi)
    out += "Definition hilbert_part_is_binary_search_of_index : bool := %s.\n" % coq_bool(plain is not None)
    # MAX_ORDER of the two Partition impls, in source order: Point2D first, Point3D second
    impls = re.findall(r"impl<W>\s+crate::Partition<\(&\[(Point2D|Point3D)\],\s*W\)>\s+for\s+HilbertCurve(.*?)\n}\n", src, re.S)
    got = {}
    for which, body in impls:
        mm = re.search(r"const\s+MAX_ORDER\s*:\s*u32\s*=\s*(\d+)\s*;", body)
        if not mm or not re.search(r"if\s+self\.order\s*>\s*MAX_ORDER", body):
            raise Fail("MAX_ORDER guard not found in the %s impl of HilbertCurve" % which)
        got[which] = int(mm.group(1))
    if set(got) != {"Point2D", "Point3D"}:
        raise Fail("expected Partition impls of HilbertCurve for Point2D and Point3D")
    out += "Definition hilbert_max_order_2d : N := %d%%N.\n" % got["Point2D"]
    out += "Definition hilbert_max_order_3d : N := %d%%N.\n" % got["Point3D"]
    # P::avg for u64 and coupe's never-Equal comparator, as the model transcribes them
    av = read("src/average.rs")
    avg_ok = re.search(r"fn avg\(a: Self, b: Self\) -> Self \{\s*\(a & b\) \+ \(a \^ b\) / 2\s*\}", av) is not None \
        and re.search(r"impl_int!\(u64\);", av) is not None
    out += "Definition average_u64_is_and_plus_half_xor : bool := %s.\n" % coq_bool(avg_ok)
    lib = read("src/lib.rs")
    pc = fn_body(lib, "partial_cmp")
    pc_ok = pc is not None and re.sub(r"\s+", "", pc) == "{ifa<b{Ordering::Less}else{Ordering::Greater}}"
    out += "Definition partial_cmp_is_less_or_greater : bool := %s.\n" % coq_bool(pc_ok)
    wq_search = re.search(r"splits\.binary_search_by\(\|split\| crate::partial_cmp\(&split\.position, p\)\)", wq) is not None
    out += "Definition quantiles_search_by_partial_cmp : bool := %s.\n" % coq_bool(wq_search)
    # ---- z_curve.rs
    z = read("src/algorithms/z_curve.rs")
    zp = fn_body(z, "z_curve_partition")
    if zp is None:
        raise Fail("fn z_curve_partition not found")
    guard = re.search(r"permutation\[threshold_idx\.\.\]\s*\.par_chunks\(\s*usize::max\(\s*1\s*,\s*points_per_partition\s*\)\s*\)", zp)
    bare = re.search(r"permutation\[threshold_idx\.\.\]\s*\.par_chunks\(\s*points_per_partition\s*\)", zp)
    if not guard and not bare:
        raise Fail("second par_chunks call of z_curve_partition not recognised")
    out += "Definition zcurve_chunk_guard : bool := %s.\n" % coq_bool(guard is not None)
    # the recursion is started with the requested order, unchanged (no clamp between the public
    # `order` field and the recursion depth), and descends by exactly one level per call
    zpn = re.sub(r"//[^\n]*", "", zp)
    zpn = re.sub(r"\s+", "", zpn)
    starts = re.findall(r"z_curve_partition_recurse\(([^;]*?)\);", zpn)
    if starts != ["points,order,&obb,&mutpermutation"]:
        raise Fail("z_curve_partition must start the recursion as z_curve_partition_recurse(points, order, &obb, &mut permutation)")
    if re.search(r"order\.(min|max|clamp|saturating_sub|checked_sub)\(|(min|max|clamp)\(order", zpn) or re.search(r"(?<![a-z_])order=[^=]", zpn):
        raise Fail("z_curve_partition modifies `order` before the recursion")
    zr = fn_body(z, "z_curve_partition_recurse")
    zrn = re.sub(r"\s+", "", re.sub(r"//[^\n]*", "", zr or ""))
    if "z_curve_partition_recurse(points,order-1,&mbr.sub_mbr(iasu32),slice)" not in zrn or "iforder==0||permu.len()<=1{return;}" not in zrn:
        raise Fail("z_curve_partition_recurse: stop test / recursive call not recognised")
    zimpl = re.sub(r"\s+", "", z)
    if "z_curve_partition(part_ids,points,self.part_count,self.order);" not in zimpl:
        raise Fail("ZCurve::partition must pass self.order unchanged")
    out += "Definition zcurve_depth_is_order : bool := true.\n"
    for which in ("2d", "3d"):
        if ("letindex_fn=index_fn_%s(points,self.orderasusize);" % which) not in re.sub(r"\s+", "", src):
            raise Fail("HilbertCurve::partition must pass self.order unchanged to index_fn_%s" % which)
    out += "Definition hilbert_order_passed_unchanged : bool := true.\n"
    if not re.search(r"type\s+HashType\s*=\s*u128\s*;", z) or \
       not re.search(r"\(HASH_TYPE_MAX as f64\)\.log\(f64::from\(1 << D\)\) as u32", zp):
        raise Fail("max_order formula of z_curve_partition not recognised")
    # (u128::MAX as f64) = 2^128 after rounding; f64::log(self, base) = self.ln() / base.ln()
    for d in (2, 3):
        mo = int(math.log(float(2 ** 128 - 1)) / math.log(float(1 << d)))
        out += "Definition zcurve_max_order_%dd : nat := %d%%nat.\n" % (d, mo)
    return out


GENERATORS = {"SfcGen.v": gen_sfc}


PROP = dict(
    bin="c09",
    run_targets=["Run/RunC09.vo"],
    prop_targets=["Properties/C09.vo"],
    cases=dict(quick=1600, thorough=8000),
    release_too=True,
    coqc_timeout=3000,          # a shard needs ~20 s of CPU; generous wall-clock limit for a loaded machine
    level="proof",
    rule="three streams: (1) bsearch -- random UNSORTED/sorted/constant u64 arrays (len 0..300) and keys, slice::binary_search and "
         "binary_search_by(never-Equal comparator) against Lib/Sorting.v; (2) HilbertCurve on 2-D/3-D point sets (uniform, clustered, "
         "collinear, coincident, lattice, duplicates, one outlier) x weights (ones, integer, dyadic fractional, zeros, one dominant, "
         "arbitrary fractional; 1/25 tiny totals: j*scale with scale 2^-55..2^-1074 and 1e-16..1e-300) x part_count 1..n+2 x orders 0..MAX+1 x pools 1,2,4,8,16, plus a malformed stream (1/15: weights or ids shorter/longer "
         "than the points; outside the contract, model vs implementation only); (3) ZCurve on the same point families x "
         "part_count 1..n+2 x orders 0..max_order+1 x the same pools, 1/3 of them midline lattices (product grids on a 0.1 / 0.25 lattice, "
         "axes spanning zero with bounds of magnitude 16..32 mostly, points on the midlines of the first levels, orders 2..9) and 1/40 deep-order "
         "clusters (2-D orders 54..64 / 3-D 40..42, points k*2^-e next to a zero of the box frame, shuffled). distinct = distinct (stream, points, weights, part_count, order, "
         "pool); non-trivial = bsearch: len >= 2; curves: at least 3 points, part_count >= 2, an accepted order and matching lengths",
    class_names={0: "Ok", 2: "error (InvalidOrder)", 3: "panic", 4: "hang", 10: "bsearch"},
    trusted_base=[
        "axioms: none, except for C09_f64_add_exact / C09_f64_add_exact_on_integers and the three premise-free schedule theorems "
        "(C09_hilbert_sched_indep_proved, C09_hilbert_sched_is_sequential_proved, C09_histogram_sched_indep_proved) and the exact-sums "
        "groundwork (C09_f64_sub_exact, C09_flt_on_integers, C09_round_sums_exact), which go through "
        "Flocq and therefore use the standard axioms of Coq's classical real numbers: ClassicalDedekindReals.sig_forall_dec, "
        "ClassicalDedekindReals.sig_not_dec, Classical_Prop.classic, FunctionalExtensionality.functional_extensionality_dep; every "
        "other theorem of Properties/C09.v is closed under the global context",
        "slice::binary_search_by = the loop transcribed in coq/Lib/Sorting.v (from rust-src of 1.97.0-nightly; validated against the "
        "linked std on every run by the bsearch stream, unsorted arrays included)",
        "the per-point Hilbert indices (the encoders are C08's subject) and ZCurve's bounding box, rotated coordinates and final permutation "
        "enter as data recorded by the coupe_verif hooks (nalgebra's rotation is not modelled); the quadrant codes are recomputed from box "
        "and rotated coordinates by the modelled box arithmetic (center/contains/region/sub_aabb on f64) and compared with the recorded ones",
        "par_sort_unstable_by_key returns a permutation of its input sorted by the key (tie order arbitrary): sort_contract",
        "f64 additions of the weights are exact for the cases whose split positions are compared bit-for-bit (flag `exact`); for the other "
        "cases the recorded split vector is an input of the comparison (the theorems hold for EVERY split vector)",
    ],
    assumptions=[
        "HilbertCurve: points, weights and part ids have the same length; part_count >= 1; weights finite and non-negative",
        "ZCurve: points and part ids have the same length; part_count >= 1; order <= max_order (64 in 2-D, 42 in 3-D)",
        "schedule independence (C09_hilbert_sched_indep_proved, for C06) covers integer-valued non-negative weights with total <= 2^53; "
        "its former premise f64_add_exact_on_integers is now proved (Proofs/F64AddExact.v, Flocq); dyadic fractional weights are not covered",
        "geometric clause (the Z-order cell of a point contains the point): claimed for points that the top-level box contains, level by "
        "level while the midlines are eps-effective (c - eps < c < c + eps; void from magnitude 32 on, where HEAD's absolute tolerance "
        "10*EPSILON of BoundingBox::contains is below half an ulp)",
        "termination of weighted_quantiles: proved for part_count <= 2 (C09_quantiles_terminate_partial); REFUTED for the comparison with the "
        "absolute default epsilon (C09_quantiles_terminate_refuted, total weight of the order of f64::EPSILON or below; repaired in /repo by a "
        "scale-aware epsilon, flag hilbert_eps_scaled); for the repaired comparison unproved and unrefuted: the model runs on fuel, the "
        "correspondence watches for hangs (tiny-weight family included), "
        "every C09 theorem about HilbertCurve is stated for runs that return",
    ],
)

MANIFEST = dict(
    text="bsearch_mono: the standard library's binary-search loop (transcribed, tied by its own differential stream) is monotone in the "
         "key on EVERY array, sorted or not; hence C09_hilbert_monotone: for every vector of split positions HilbertCurve's part id is a "
         "monotone function of the curve index (each part is one interval of the curve), ids <= number of splits. C09_zcurve_runs: for "
         "every quadrant function and every sort oracle, ZCurve's final permutation is sorted by the depth-`order` Z cell, parts are "
         "consecutive chunks of it whose sizes differ by at most one and sum to n; C09_region_sub_contains: the sub-box of the quadrant chosen "
         "for a point contains the point (f64 box arithmetic, wherever the code's tolerance is effective). Certified checkers judge every implementation output.",
    design_ref="DESIGN.md §7 C09",
    note="Trusted: Coq kernel; model<->code tie = translator (tolerance, order limits, dedup absence, chunk guard) + differential runs with "
         "hook-recorded indices/codes/permutation; termination of weighted_quantiles proved for <= 2 parts, refuted for tiny total weights (machine-checked witness, confirmed on the real code), open for ordinary weights (fuel + watchdog). Axioms: classical reals (via Flocq) only for f64_add_exact and the premise-free schedule theorems.",
    technique="Coq proof (invariant of the library binary-search loop; induction on the quadrant recursion) + translator + "
              "model/implementation correspondence + certified checkers",
)

"""C07 -- FiducciaMattheyses."""
import os, re, sys
sys.path.insert(0, os.path.dirname(os.path.dirname(os.path.abspath(__file__))))
from translate_lib import read, fn_body, Fail, HEADER, coq_bool


def gen_fm():
    """The comparison operators and literals of fiduccia_mattheyses() that decide the property
    (cap test, best-prefix update, rewind point, pass-loop exit, gain update), as booleans that
    Properties/C07.v requires to be `true`: the model transcribes exactly this shape."""
    rel = "src/algorithms/fiduccia_mattheyses.rs"
    src = read(rel)
    body = fn_body(src, "fiduccia_mattheyses")
    if body is None:
        raise Fail("fn fiduccia_mattheyses not found")
    body = re.sub(r"//[^\n]*", "", body)
    b = re.sub(r"\s+", " ", body)

    def has(pat):
        return re.search(pat, b) is not None

    facts = [
        ("fm_cap_test_rejects_above",
         has(r"let target_part_weight = part_weights\[target_part\] \+ weight; if max_part_weight < target_part_weight \{ return None; \}")),
        ("fm_picks_min_target_weight",
         has(r"\.min_by\(\|\(_, max_part_weight0\), \(_, max_part_weight1\)\| \{ crate::partial_cmp\(max_part_weight0, max_part_weight1\) \}\)\?")),
        ("fm_scans_buckets_from_top",
         has(r"gain_to_vertex \.iter\(\) \.rev\(\) \.zip\(\(-max_possible_gain\.\.=max_possible_gain\)\.rev\(\)\) \.find_map")),
        ("fm_bad_move_rule",
         has(r"if move_gain <= 0 \{ if num_bad_move >= max_bad_moves_in_a_row \{ .*? break; \} num_bad_move \+= 1; \} else \{ num_bad_move = 0; \}")),
        ("fm_cut_update",
         has(r"current_edge_cut -= move_gain;") and has(r"if current_edge_cut < best_edge_cut \{ best_edge_cut = current_edge_cut; move_with_best_edge_cut = Some\(move_num\); \}")),
        ("fm_gain_update",
         has(r"let updated_gain = if partition\[neighbor\] == initial_part \{ outdated_gain \+ 2 \* edge_weight \} else \{ outdated_gain - 2 \* edge_weight \};")),
        ("fm_rewind_point",
         has(r"let rewind_to = match move_with_best_edge_cut \{ Some\(v\) => v \+ 1, None => 0, \};")),
        ("fm_pass_exit",
         has(r"if old_edge_cut <= best_edge_cut \{ break; \}")),
        ("fm_cap_formula",
         has(r"let ideal_part_weight = total_weight\.to_f64\(\)\.unwrap\(\) / 2\.0; W::from_f64\(ideal_part_weight \+ max_imbalance \* ideal_part_weight\)\.unwrap\(\)")
         and has(r"None => \*part_weights\.iter\(\)\.max_by\(crate::partial_cmp\)\.unwrap\(\),")),
        # the cap lives in the weight type W and the per-move test is done in W: one untyped
        # binding holding the whole `match` (the W::from_f64 round trip / the heaviest part itself) ...
        ("fm_cap_bound_in_weight_type",
         has(r"let max_part_weight = match max_imbalance \{ Some\(max_imbalance\) => \{ let total_weight: W = part_weights\.iter\(\)\.cloned\(\)\.sum\(\); "
             r"let ideal_part_weight = total_weight\.to_f64\(\)\.unwrap\(\) / 2\.0; "
             r"W::from_f64\(ideal_part_weight \+ max_imbalance \* ideal_part_weight\)\.unwrap\(\) \} "
             r"None => \*part_weights\.iter\(\)\.max_by\(crate::partial_cmp\)\.unwrap\(\), \};")),
        # ... which is never rebound, shadowed or converted (binding + the test = 2 occurrences;
        # target_part_weight: let, test, returned pair = 3), and no float conversion inside the scan
        ("fm_cap_test_in_weight_type",
         len(re.findall(r"\bmax_part_weight\b", b)) == 2
         and len(re.findall(r"\btarget_part_weight\b", b)) == 3
         and (lambda m: m is not None and not re.search(r"to_f64|as f64|as f32|from_f64|to_f32", m.group(0)))(
             re.search(r"\.find_map\(.*?\.min_by\(", b))),
        # weights and part weights are of type W (the caller's i64 / f64), summed by compute_parts_load
        ("fm_part_weights_in_weight_type",
         re.search(r"fn fiduccia_mattheyses<W, T>\(\s*partition: &mut \[usize\],\s*weights: &\[W\],", src) is not None
         and has(r"let mut part_weights = crate::imbalance::compute_parts_load\(partition, 2, weights\.par_iter\(\)\.cloned\(\)\);")
         and has(r"part_weights\[initial_part\] -= weights\[moved_vertex\]; part_weights\[target_part\] \+= weights\[moved_vertex\];")
         and has(r"let weight = weights\[\*vertex\];")),
    ]
    out = HEADER.format(src=rel)
    for name, val in facts:
        out += "Definition %s : bool := %s.\n" % (name, coq_bool(val))
    out += "Definition fm_source_shape : bool :=\n  %s.\n" % " && ".join(n for n, _ in facts)
    return out


GENERATORS = {"FmGen.v": gen_fm}

PROP = dict(
    bin="c07",
    run_targets=["Run/RunC07.vo"],
    prop_targets=["Properties/C07.vo"],
    cases=dict(quick=8000, thorough=60000),
    release_quick=4,      # quick tier: cases/4 more against the release build (no debug_assert!, fm_dbg = false)
    release_too=True,     # thorough tier: cases/2 more against the release build
    level="proof",
    rule="graphs from 9 families (random symmetric at 4 densities, grid, path, star, disconnected, isolated incl. trailing "
         "isolated vertices, complete, cycle, tiny/edgeless/empty) x 3 edge-weight ranges x 7 two-way partition families "
         "(balanced, random, unbalanced, contiguous halves, locally optimal, alternating, one-sided) x 5 vertex-weight "
         "families (ones, random 0..9, half zeros, one dominant, all zero) x max_imbalance in {None, 0, 0.1, 0.25, 0.5, 1, "
         "-0.5, random in [0,2)} x max_passes/max_moves_per_pass in {None,0,1,2,3,4..20} x max_bad_move_in_a_row 0..3; "
         "plus a malformed stream (10%: self-loop, weights/partition length mismatch, part id > 1, negative weight, "
         "NaN/huge/infinite max_imbalance, directed edge) and a heavy-edge family (4%: 2-6 vertices, edges of weight "
         "66000..140000 (thorough: up to 10^6) mixed with light ones so that weighted degrees exceed 2^16, one-sided / "
         "heavy-edge-on-one-side / random partitions, max_bad_move_in_a_row 1..3, several passes: huge negative gains are "
         "booked, moved and followed by good moves) and a huge-weight family (6%: i64 vertex weights with part sums at 2^52..2^62 "
         "+- a few units / half-ulps, pinned by one or two huge vertices per part, plus 1..6 movable vertices of weight "
         "1..5 with positive gains across the cut; cap = heaviest part, max_imbalance 0 / j*2^-52 / 0.1..2 with "
         "(1+mi)*half near the base; every sum < 2^63; four pinned textbook inputs around 2^53). The quick tier runs cases/4 more, the thorough tier cases/2 more, "
         "against the RELEASE build of the harness (no debug_assert!; the model's fm_dbg flag follows the profile recorded "
         "in each case); a watchdog reports a hang or a runaway move loop as IHang (prop_ok = false). Each case carries the implementation's own trace (per pass: "
         "recorded cut, moves (vertex, gain)) which the model replays and checks for admissibility; distinct = distinct "
         "(input, parameters, trace), i.e. distinct executions; non-trivial = contract stream and at least one move made",
    class_names={0: "Ok unchanged", 1: "Ok changed", 2: "panic (in contract)", 3: "hang", 4: "error (in contract)",
                 10: "outside contract: Ok unchanged", 11: "outside contract: Ok changed", 12: "outside contract: panic",
                 13: "outside contract: hang", 14: "outside contract: error"},
    trusted_base=[
        "axioms: none (every theorem of Properties/C07.v is closed under the global context)",
        "the trace hook of /repo/src/verif.rs records the (vertex, gain) the implementation actually moved and the "
        "current_edge_cut at each pass start (add-only, feature coupe_verif)",
        "modelled, not verified: i64 overflow of weight sums and gains (contract: they fit), f64 vertex weights (run with i64 only)",
        "the cap of the checker is the code's own formula (heaviest input part, or trunc(f64(total)/2 + mi*f64(total)/2) in "
        "IEEE double arithmetic), not (1+mi)*total/2 over the reals: above 2^53 the two differ by up to half an ulp of the total",
    ],
    assumptions=[
        "HashSet iteration yields each element of the set exactly once, in an arbitrary order (the model quantifies over the "
        "order through the oracle; min_by then returns some vertex of minimal target part weight among the feasible ones)",
        "vertex weights are i64 >= 0 whose sum fits in i64; edge weights are positive i64 whose row sums fit in i64",
        "num_traits: i64::to_f64 rounds to nearest, W::from_f64 for i64 truncates toward zero and is None outside [-2^63, 2^63) / NaN",
        "the adjacency matrix is a valid sprs CSR matrix (rows sorted by column), symmetric, without self-loops "
        "(self-loops: the gain counts the loop, the cut does not -- the debug assertion fires; malformed stream, prop_ok = true)",
        "each case records whether the harness that produced it was built with debug assertions; the model's fm_dbg follows it",
        "the gain table is modelled as its range check plus the non-empty buckets in descending gain order (an absent gain = an empty HashSet)",
    ],
)

MANIFEST = dict(
    text="Theorems C07_sound (cut out <= cut in; each part <= max(own input weight, cap); Metadata: one entry per pass, <= max_passes "
         "passes, <= max_moves_per_pass moves, rewound <= moves, relabelled vertices <= moves kept), C07_cut_tracked (the "
         "debug_assert current_edge_cut == edge_cut(partition) never fires), C07_gain_invariant / C07_cut_tracked_state / "
         "C07_cap_every_point (invariants of every state reachable in a pass) and C07_terminates proved for ALL symmetric "
         "graphs without self-loops, non-negative weights, two-way inputs, parameters and ALL oracles (bucket iteration "
         "orders) about a line-by-line Gallina model of fiduccia_mattheyses.rs (gain table as explicit buckets, feasibility, "
         "min target weight, bad-move counter, history, best prefix, rewind, pass loop on fuel, f64 cap formula). On every run "
         "the implementation's own choices are replayed through the model, which checks each is one the code may make and "
         "that final partition and Metadata coincide; a checker proved equivalent to the property clauses judges every "
         "implementation output; the operators/literals deciding the property are re-read from the source.",
    design_ref="DESIGN.md §7 C07",
    note="Trusted: Coq kernel; model<->code tie = translator (shape of 12 code fragments) + trace-replay differential runs (8k+2k release / 60k+30k release "
         "executions); SpecFloat = hardware f64 for the cap formula; HashSet yields each member once; i64 sums do not overflow. "
         "No axioms. Self-loops / non-symmetric matrices are outside the contract (the debug assertion fires there).",
    technique="Coq proof (state invariant over all admissible move sequences; cut_flip lemma of Lib/Graph.v) + translator + "
              "oracle-replay correspondence + certified checker",
)

"""C07 -- FiducciaMattheyses."""
GENERATORS = {}

PROP = dict(
    bin="c07",
    run_targets=["Run/RunC07.vo"],
    prop_targets=["Properties/C07.vo"],
    cases=dict(quick=4000, thorough=40000),
    level="proof",
    rule="TODO",
    class_names={0: "Ok unchanged", 1: "Ok changed", 2: "panic (in contract)", 3: "hang", 4: "error (in contract)",
                 10: "outside contract: Ok unchanged", 11: "outside contract: Ok changed", 12: "outside contract: panic",
                 13: "outside contract: hang", 14: "outside contract: error"},
    trusted_base=[],
    assumptions=[],
)
MANIFEST = dict(text="TODO", design_ref="DESIGN.md §7 C07", note="TODO", technique="TODO")

"""C03 -- Rcb/Rib parts are leaves of a recursive axis-aligned bisection."""
import os, re, sys
sys.path.insert(0, os.path.dirname(os.path.dirname(os.path.abspath(__file__))))
from translate_lib import read, fn_body, Fail, HEADER, coq_bool


# ------------------------------------------------- variant of par_rcb_split
def gen_rcb():
    """Which variant of the cut search the source implements (Model/Rcb.v,
    Record variant): read from fn par_rcb_split, comments stripped."""
    rel = "src/algorithms/recursive_bisection.rs"
    body = fn_body(read(rel), "par_rcb_split")
    if body is None:
        raise Fail("fn par_rcb_split not found")
    code = re.sub(r"//[^\n]*", "", body)
    code = re.sub(r"\s+", " ", code)

    def has(pat):
        return pat in code

    old = has("prev_count_left")
    coord_pats = ["*point < split_target", "*point < nearest_coord", "nearest_coord0 < nearest_coord1", "max <= nearest_coord"]
    dist_pats = ["let distance = point - split_target", "distance < 0.0", "distance < nearest_distance",
                 "nearest_distance0 < nearest_distance1", "max <= split_target + nearest_distance"]
    if all(has(p) for p in coord_pats) and not any(has(p) for p in dist_pats):
        by_coord = True
    elif all(has(p) for p in dist_pats) and not any(has(p) for p in coord_pats):
        by_coord = False
    else:
        raise Fail("par_rcb_split: fold/reduce/stop rule compare neither coordinates nor distances consistently")
    if has("let split_target = if exhausted { max } else { middle };") and has("let exhausted = !(min < middle && middle < max);"):
        probe_max, mid_name = True, "middle"
    elif has("let exhausted = !(min < split_target && split_target < max);") or old:
        probe_max, mid_name = False, "split_target"
    else:
        raise Fail("par_rcb_split: definition of split_target / exhausted not recognised")
    if has("let %s = min / 2.0 + max / 2.0;" % mid_name):
        safe_mid = True
    elif has("let %s = (min + max) / 2.0;" % mid_name):
        safe_mid = False
    else:
        raise Fail("par_rcb_split: midpoint expression not recognised")
    if not old:
        for p in ["None if exhausted =>", "max = split_target; continue;", "|| imbalance <= tolerance",
                  "if weight_left < weight_right { min = split_target; } else { max = split_target; }"]:
            if not has(p):
                raise Fail("par_rcb_split: expected `%s`" % p)
    # the three f64 -> f32 casts (coordinates in rcb, the two bounds in rcb_recurse): all plain or all clamped
    src_all = re.sub(r"//[^\n]*", "", read(rel))
    rec = fn_body(src_all, "rcb_recurse")
    top = fn_body(src_all, "rcb")
    if rec is None or top is None:
        raise Fail("fn rcb_recurse / fn rcb not found")
    rec1 = re.sub(r"\s+", " ", rec)
    top1 = re.sub(r"\s+", " ", top)
    plain = ["let min = bb.p_min[coord] as f32;" in rec1, "let max = bb.p_max[coord] as f32;" in rec1,
             ".map(|point| point[coord] as f32)" in top1]
    clamped = ["let min = (bb.p_min[coord] as f32).clamp(f32::MIN, f32::MAX);" in rec1,
               "let max = (bb.p_max[coord] as f32).clamp(f32::MIN, f32::MAX);" in rec1,
               ".map(|point| (point[coord] as f32).clamp(f32::MIN, f32::MAX))" in top1]
    if all(plain) and not any(clamped):
        clamp_cast = False
    elif all(clamped) and not any(plain):
        clamp_cast = True
    else:
        raise Fail("rcb / rcb_recurse: the three `as f32` casts are neither all plain nor all clamped to [f32::MIN, f32::MAX]")
    if (rec1 + top1).count(" as f32") != 3:
        raise Fail("rcb / rcb_recurse: expected exactly three `as f32` casts")
    out = HEADER.format(src=rel)
    out += "Definition rcb_old_rules : bool := %s.\n" % coq_bool(old)
    out += "Definition rcb_by_coord : bool := %s.\n" % coq_bool(by_coord)
    out += "Definition rcb_probe_max : bool := %s.\n" % coq_bool(probe_max)
    out += "Definition rcb_safe_mid : bool := %s.\n" % coq_bool(safe_mid)
    out += "Definition rcb_clamp_cast : bool := %s.\n" % coq_bool(clamp_cast)
    return out


GENERATORS = {"RcbGen.v": gen_rcb}


PROP = dict(
    bin="c03",
    run_targets=["Run/RunC03.vo"],
    prop_targets=["Properties/C03.vo"],
    cases=dict(quick=1500, thorough=9000),
    level="proof",
    harness_timeout=2400,
    coqc_timeout=6000,
    rule="Rcb (3/4) and Rib (1/4, model run on the rotated points recorded by the rib_points hook) on 2-D/3-D point sets "
         "from 10 families (uniform, clustered, collinear, coincident, lattice, one outlier, duplicates, adjacent floats, "
         "near-duplicates far from the rest, huge magnitudes) on a dyadic grid or as arbitrary finite f64, 6 weight families "
         "(unit, zeros, one dominant, skewed, random, almost all zero; i64 or integer-valued f64), iter_count 0..6, tolerance in "
         "[0,0.5], every Rcb case under pools 1,2,3,4,8,16 (Rib: one pool per case), n = 0..40 plus a few inputs with n >= 8192, "
         "plus a malformed stream (length mismatch); distinct = distinct (algorithm, dimension, iter_count, tolerance bits, "
         "points, weights, partition length); non-trivial = well-formed, at least 3 points and iter_count >= 1",
    class_names={0: "Ok", 1: "error", 2: "panic", 3: "hang"},
    trusted_base=[
        "axioms: none for the tree-structure theorems (C03_rcb_bisect_tree, C03_generic, corollaries, reorder spec, checker soundness, "
        "generic termination/totality: closed under the global context); C03_search_terminates, C03_rcb_total and C03_box_ok32_holds (binary32 termination, "
        "totality and the enclosing root box, via Proofs/F32Flocq.v and Proofs/RcbBox.v) use the real-number axioms of Coq's standard library through Flocq 4.1: "
        "ClassicalDedekindReals.sig_forall_dec, ClassicalDedekindReals.sig_not_dec, "
        "FunctionalExtensionality.functional_extensionality_dep, Classical_Prop.classic",
        "Flocq 4.1 (BinarySingleNaN) as the link between Coq's SpecFloat operations and the real numbers",
        "Rib: nalgebra's eigen-decomposition / Householder rotation is not modelled; the rotated points enter as data recorded by the hook",
        "modelled, not verified: i64 overflow of weight sums (contract), AVX-512 reorder_split (feature off), rayon's actual split trees "
        "(the theorems hold for every split tree; the runs use the sequential one)",
    ],
    assumptions=[
        "coordinates are finite f64 (the binary32 image may be infinite: the tree property is still checked; the theorems need it not to be NaN); "
        "weights are non-negative i64 (or integer-valued f64) whose sum does not overflow",
        "the run executes rcb_core with the trie-based stores scatter_fast, proved equal to the sequential stores (scatter_fast_eq, Proofs/RcbProofs.v)",
        "rayon fold/reduce call the closures on a split tree of the index range; join runs both closures",
        "C03_rcb_total holds on the narrow contract (D finite f64 coordinates per point, canonical binary64 values whose binary32 images are "
        "finite); the former premise box_ok32 is proved from it (C03_box_ok32_holds, monotone f64->f32 cast, Flocq) and still evaluated on "
        "every in-contract case by the run glue as a cross-check; its fuel bound 2^33 is a termination bound, not a tight one (the runs use "
        "fuel 2000 and never met OutOfFuel)",
        "C03_rcb_total_finite_f64 / C03_rcb_bisect_tree_finite_f64 cover the whole contract `finite f64 coordinates`, for the clamped cast of the "
        "current source (flag rcb_clamp_cast, read by the translator) and for the plain cast (images +-inf): termination, totality, one id per "
        "point, ids < 2^iter_count, tree structure; fuel bound 2^34 (termination bound, not tight)",
        "the statements and the certified checker speak of the binary32 coordinates clamped to [f32::MIN, f32::MAX] (to32c); on coordinates "
        "whose image is finite this is the plain image (to32)",
        "the C03 theorems require the binary32 image of every coordinate not to be NaN (true of every finite f64; checked per case by the run glue)",
    ],
)

MANIFEST = dict(
    text="Theorem rcb_bisect_tree proved for ALL point sets, weights, tolerances, split trees and float behaviours of the cut search "
         "about a line-by-line Gallina model of recursive_bisection.rs (fold/reduce with its tie rules, stop rules, in-place two-pointer "
         "reordering, recursion with heap numbering, boxes, axis rotation, offset normalisation): the ids with the binary32 coordinates "
         "form a BisectTree; corollaries: one part per point, equal points share a part, ids < 2^iter_count and all written; termination of the cut search and totality (no panic, no OutOfFuel) at binary32 from a rank "
         "embedding (pure) and the closure of finite values under the midpoint (Flocq). The model is "
         "compared with Rcb/Rib on generated inputs (exact ids) and a checker proved sound for BisectTree judges every implementation output.",
    design_ref="DESIGN.md §7 C03",
    note="Trusted: Coq kernel; model<->code tie is the differential run (exact ids, pools 1..16); SpecFloat = hardware binary32; "
         "Rib's rotation enters as recorded data. No axioms except the standard real-number axioms "
         "(through Flocq) under the two binary32 termination/totality theorems.",
    technique="Coq proof (structural induction on iter_count, split lemma for the in-place reordering) + model/implementation correspondence + certified checker",
)

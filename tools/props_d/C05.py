"""C05 -- ArcSwap's accounting and caps under every thread interleaving."""
import os, re, sys
sys.path.insert(0, os.path.dirname(os.path.dirname(os.path.abspath(__file__))))
from translate_lib import read, fn_body, Fail, HEADER, coq_bool


# ------------------------------------------------------------ C05: translator
def _norm(s):
    s = re.sub(r"//[^\n]*", "", s)
    return re.sub(r"\s+", " ", s)


def gen_arcswap():
    """The literals and the statement order the C05 proofs depend on, re-read from the source:
    lock discipline of make_move, the two tests guarding a move, the per-thread share of the
    headroom, the weight merge, the pass-exit test, the chunking."""
    rel = "src/algorithms/arc_swap.rs"
    body = fn_body(read(rel), "arc_swap")
    if body is None:
        raise Fail("fn arc_swap not found")
    b = _norm(body)
    ws = fn_body(read("src/work_share.rs"), "work_share")
    if ws is None:
        raise Fail("fn work_share not found")
    w = _norm(ws)

    def pos(pat, text=b):
        m = re.search(pat, text)
        return m.start() if m else -1

    # the per-thread share: exactly one of the two known forms, else fail closed
    old_share = pos(r"\*max_pw = \*pw \+ W::from_f64\(\(max_part_weight - \*pw\)\.to_f64\(\)\.unwrap\(\) / thread_count as f64\) \.unwrap\(\);") >= 0
    new_share = pos(r"\*max_pw = \*pw \+ \(max_part_weight - \*pw\) / W::from_usize\(thread_count\)\.unwrap\(\);") >= 0
    if old_share == new_share:
        raise Fail("the per-thread share `*max_pw = *pw + ...` is neither the f64 round trip nor the division in W")
    share_form = "W" if new_share else "f64"

    order = [
        pos(r"locks\[vertex\] \.compare_exchange\(false, true,"),
        pos(r"let _lock_guard = defer\("),
        pos(r"\.any\(\|\(neighbor, _edge_weight\)\| locks\[neighbor\]\.load\("),
        pos(r"let initial_part = partition\[vertex\]\.load\("),
        pos(r"if gain <= 0 \{"),
        pos(r"if max_part_weights\[target_part\] < target_part_weight \{"),
        pos(r"partition\[vertex\]\.store\(target_part,"),
        pos(r"break vertex;"),
        pos(r"for \(neighbor, _edge_weight\) in adjacency\.neighbors\(moved_vertex\)"),
    ]
    facts = [
        ("lock_then_check_then_store_then_release", all(x >= 0 for x in order) and order == sorted(order)),
        ("guard_not_dropped_early", "drop(" not in b and "mem::forget" not in b),
        ("unlock_stores_false", pos(r"move \|\| locks\[vertex\]\.store\(false,") >= 0),
        ("locked_vertex_is_skipped", pos(r"if locked \{ metadata\.locked_count \+= 1; continue; \}") >= 0),
        ("raced_vertex_is_skipped", pos(r"if raced \{ metadata\.race_count \+= 1; continue; \}") >= 0),
        ("target_weight_is_local_plus_vertex", pos(r"let target_part_weight = weight \+ part_weights\[target_part\];") >= 0),
        ("move_updates_local_weights", pos(r"part_weights\[initial_part\] -= weight; part_weights\[target_part\] \+= weight;") >= 0),
        ("gain_is_recorded", pos(r"metadata\.move_count \+= 1; metadata\.edge_cut_gain \+= gain;") >= 0),
        ("headroom_divided_by_thread_count", share_form in ("f64", "W")),
        ("merge_subtracts_tc_minus_1_copies", pos(r"\*pw = pw_sum - W::from_usize\(thread_count - 1\)\.unwrap\(\) \* \*pw;") >= 0),
        ("pass_loop_exits_on_zero_gain", pos(r"if pass_metadata\.edge_cut_gain == 0 \{ break; \}") >= 0),
        ("chunks_from_work_share",
         pos(r"work_share\(partition\.len\(\), rayon::current_num_threads\(\)\)") >= 0
         and pos(r"\.par_chunks\(items_per_thread\) \.enumerate\(\)") >= 0),
        ("work_share_formulas",
         pos(r"let max_threads = usize::min\(total_work, max_threads\);", w) >= 0
         and pos(r"let work_per_thread = \(total_work \+ max_threads - 1\) / max_threads;", w) >= 0
         and pos(r"let thread_count = \(total_work \+ work_per_thread - 1\) / work_per_thread;", w) >= 0
         and pos(r"\(work_per_thread, thread_count\)", w) >= 0),
    ]
    out = HEADER.format(src=rel + ", src/work_share.rs")
    out += "From Coq Require Import List Bool.\nImport ListNotations.\n"
    for name, ok in facts:
        out += "Definition arcswap_%s : bool := %s.\n" % (name, coq_bool(ok))
    out += ("(* the per-thread share of a headroom: true = divided in the weight type W\n"
            "   (`(max_part_weight - *pw) / W::from_usize(thread_count).unwrap()`: exact truncating quotient for i64),\n"
            "   false = through f64 (`W::from_f64((max_part_weight - *pw).to_f64().unwrap() / thread_count as f64).unwrap()`) *)\n")
    out += "Definition arcswap_share_in_W : bool := %s.\n" % coq_bool(share_form == "W")
    out += "Definition arcswap_source_shape : list bool :=\n  [%s].\n" % ";\n   ".join("arcswap_" + n for n, _ in facts)
    return out


GENERATORS = {"ArcSwapGen.v": gen_arcswap}


PROP = dict(
    bin="c05",
    run_targets=["Run/RunC05.vo"],
    prop_targets=["Properties/C05.vo"],
    cases=dict(quick=1500, thorough=10000),
    level="proof",
    rule="each case = one complete run of ArcSwap under the controlled scheduler (one SC interleaving, recorded as the global "
         "event trace). First a systematic sweep: for a small base input every single preemption point (thorough: 3 bases, "
         "every pair of points thinned to 1200 per base); then random cases: graph family (path, cycle, clique, star, random "
         "x3 densities, multigraph with parallel edges/unsorted rows, 2-row grid, signed/zero edge weights with self loops) x "
         "3..8 vertices x 2..4 parts (striped, blocks, one-sided, random) x 5 vertex-weight families x max_imbalance (None / 0 / "
         "0.05 / 0.25 / 0.5 / 1 / 3 / 8 / random) x rayon pool 1..4 x scheduling policy (uniform, round-robin, adversarial = "
         "workers frozen inside lock/check/gain windows, bursts, bounded preemption); two cap-sensitive families, one random case in ten each, built by rejection sampling so that the VALUE of the cap "
         "decides (a vertex has a positive gain into a part q with load[q] <= cap < load[q] + w, while a looser cap -- heaviest "
         "input part, or ideal over the loaded parts only -- would leave every worker headroom for it): `weightless_*` (a part "
         "holds no weight: unused id below the maximum or only zero-weight vertices) and `beyondtol_*` (input already beyond "
         "the tolerance: heaviest part above (1+x)*ideal, Some(x) incl. Some(0.0)); `highdeg_*` (one in a hundred): hubs of degree 30..70, mostly exactly 33 and 65, often built so that the hub's last "
         "neighbour decides the sign of its gain; `big_i64` (one in 25): i64 totals 2^53..2^62, a heavy vertex next to a light one, "
         "one worker (a share computed through f64 over-allocates there); `budgetsum_*` (one random case in ten): 5/7/8/10/11 vertices on 2..4 workers with a shorter last chunk, one positive-gain "
         "mover per chunk into the same part, each weighing in (headroom/tc, headroom*ipt/len], cap set by None or Some(x) -- the "
         "SUM of the per-thread budgets decides; one random case in ten (`f64x_*`) runs with f64 weights whose sums are exact (integers x 1, 1/2, 1/4, 1/8) "
         "and is replayed through the f64 instance of the machine; one random case in ten runs with f64 vertex "
         "weights (fractions of the integer ones): no replay, only the weight-independent clauses are checked on its output; distinct = distinct (graph, weights, "
         "partition, pool, cap, recorded schedule); non-trivial = at least two workers and at least one vertex moved",
    class_names={0: "Ok, no move", 1: "Ok, moved", 2: "panic", 3: "hang", 4: "outside the contract", 5: "error",
                 6: "f64 weights (outputs only), no move", 7: "f64 weights (outputs only), moved",
                 8: "f64 exact-sum weights (replayed), no move", 9: "f64 exact-sum weights (replayed), moved"},
    harness_timeout=2400,
    trusted_base=[
        "axioms: none for the machine theorems (mutex, gain exactness, accounting, caps under hr_ok, no panic, termination, "
        "trace link, checker: closed under the global context); the three theorems about the f64 share "
        "(C05_headroom_f64_exact, C05_f64_share_irrelevant, C05_arcswap_safe_f64) go through Flocq 4.1 and use the classical "
        "real-number axioms of Coq's standard library: ClassicalDedekindReals.sig_forall_dec, ClassicalDedekindReals.sig_not_dec, "
        "FunctionalExtensionality.functional_extensionality_dep, Classical_Prop.classic",
        "the coupe_verif hooks of src/verif.rs (every shared access of ArcSwap's workers goes through TracedBool/TracedUsize) and "
        "the controlled scheduler of harness/src/bin/c05.rs: the recorded trace is the run, one access at a time",
        "tools/props_d/C05.py gen_arcswap (regex-level facts about arc_swap.rs / work_share.rs: statement order of make_move, "
        "literals of the share, merge and exit test)",
    ],
    assumptions=[
        "sequential consistency: the runs considered are the interleavings of the per-thread access sequences (the property says so); "
        "the hardware memory model (acquire/release lock, relaxed part ids) is not covered",
        "i64 vertex weights >= 0 and i64 edge weights whose sums do not overflow; for |cap| + total vertex weight < 2^53 the f64 share "
        "of the code is PROVED to be the exact quotient and the f64 machine to run exactly like the exact one (C05_f64_share_irrelevant); "
        "with the share divided in W (the form the translator reads from the repaired source) the strict caps hold for all integer weights "
        "(C05_arcswap_caps_i64_all); for the old f64 round trip the strict clause is REFUTED above 2^53 (model witness + the implementation) "
        "and holds up to cap + |cap|/2^51 (proved)",
        "f64 vertex weights: mutual exclusion, accounting, ids, move_count, no panic, termination are proved for every f64 weight "
        "vector (instance wops_f64); the strict caps clause is REFUTED at magnitude 2^52 (model witness + the implementation; open known "
        "finding arcswap-f64-budget-rounding: f64 weights with 4*tc*max(|cap|,total)+tc >= 2^53) and has "
        "no theorem; model = code for f64 weights is replay on exact-sum weights (integers x 2^-k) only",
        "symmetric adjacency (as sets of neighbours and as summed weights), neighbour ids < n",
        "the cap is trunc(ideal + max_imbalance * ideal) as computed in f64 by the code (cap_of); its relation to the real number is not proved",
    ],
)

MANIFEST = dict(
    text="ArcSwap as a small-step machine at the granularity of its shared accesses (CAS, one neighbour-lock read at a time, part "
         "reads, store, unlock, the unprotected re-evaluation reads; passes chained by the weight merge). Proved in Coq, axiom-free, "
         "for EVERY symmetric integer-weighted graph, number of workers, initial partition and schedule of any length: "
         "C05_arcswap_mutex (no two workers past their neighbour check on equal/adjacent vertices), C05_arcswap_gain_exact (the "
         "gain about to be stored is the cut delta in the current state), C05_arcswap_accounting (cut0 - cut = recorded gains >= 0, "
         "valid ids, move_count >= relabelled), C05_arcswap_caps (every part <= max(input weight, cap), integer weights), "
         "C05_arcswap_no_panic (no stuck or panicking state), C05_arcswap_terminates (no infinite schedule: a lexicographic measure "
         "decreases at every access), C05_headroom_f64_exact / C05_f64_share_irrelevant / C05_arcswap_safe_f64 (Flocq: the IEEE share of the code is the "
         "exact quotient below 2^53, so the caps theorem needs no premise on the share), C05_arcswap_safe / C05_replayed_run_safe (arc_swap's own "
         "configuration; an accepted trace is a schedule). The Rust code is tied to the machine by a translator (statement order and "
         "literals of make_move re-read on every run) and by replaying, event by event, the traces of 1.5k/10k runs under a "
         "controlled scheduler (systematic preemption sweeps + random/adversarial policies); a certified checker judges each output. "
         "The machine is generic in the weight arithmetic: the same theorems except the caps hold for f64 vertex weights "
         "(C05_arcswap_f64w_safe / _runs, replay of exact-sum f64 runs through the f64 instance); for all i64 values the caps hold up "
         "to the f64 rounding slack (C05_arcswap_caps_f64_i64) and the strict clause is refuted above 2^53 (i64) and at 2^52 (f64 weights), "
         "both confirmed on the implementation.",
    design_ref="DESIGN.md §7 C05; docs/C05.md",
    note="Proof level holds for the model under sequentially consistent interleavings; model<->code is correspondence on explored "
         "schedules + translator. Not covered: hardware memory model. Refuted and reported: strict caps above 2^53 (i64) and at 2^52 (f64 weights). Known finding "
         "(reported): unsigned weight types underflow `max_part_weight - pw` (debug panic / release: cap not enforced), stream "
         "gated on known_findings.json class arcswap-unsigned-weights.",
    technique="Coq proof (inductive invariants over schedules) + translator + controlled-scheduler trace replay + certified checker",
)

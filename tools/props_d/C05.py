"""C05 -- ArcSwap's accounting and caps under every thread interleaving."""
import os, re, sys
sys.path.insert(0, os.path.dirname(os.path.dirname(os.path.abspath(__file__))))
from translate_lib import read, fn_body, Fail, HEADER, coq_bool


# ------------------------------------------------------------ C05: translator
def _norm(s):
    s = re.sub(r"//[^\n]*", "", s)
    return re.sub(r"\s+", " ", s)


def gen_arcswap():
    """The literals and the statement order the C05 proofs depend on, re-read from the source:
    lock discipline of make_move, the two tests guarding a move, the per-thread share of the
    headroom, the weight merge, the pass-exit test, the chunking."""
    rel = "src/algorithms/arc_swap.rs"
    body = fn_body(read(rel), "arc_swap")
    if body is None:
        raise Fail("fn arc_swap not found")
    b = _norm(body)
    ws = fn_body(read("src/work_share.rs"), "work_share")
    if ws is None:
        raise Fail("fn work_share not found")
    w = _norm(ws)

    def pos(pat, text=b):
        m = re.search(pat, text)
        return m.start() if m else -1

    order = [
        pos(r"locks\[vertex\] \.compare_exchange\(false, true,"),
        pos(r"let _lock_guard = defer\("),
        pos(r"\.any\(\|\(neighbor, _edge_weight\)\| locks\[neighbor\]\.load\("),
        pos(r"let initial_part = partition\[vertex\]\.load\("),
        pos(r"if gain <= 0 \{"),
        pos(r"if max_part_weights\[target_part\] < target_part_weight \{"),
        pos(r"partition\[vertex\]\.store\(target_part,"),
        pos(r"break vertex;"),
        pos(r"for \(neighbor, _edge_weight\) in adjacency\.neighbors\(moved_vertex\)"),
    ]
    facts = [
        ("lock_then_check_then_store_then_release", all(x >= 0 for x in order) and order == sorted(order)),
        ("guard_not_dropped_early", "drop(" not in b and "mem::forget" not in b),
        ("unlock_stores_false", pos(r"move \|\| locks\[vertex\]\.store\(false,") >= 0),
        ("locked_vertex_is_skipped", pos(r"if locked \{ metadata\.locked_count \+= 1; continue; \}") >= 0),
        ("raced_vertex_is_skipped", pos(r"if raced \{ metadata\.race_count \+= 1; continue; \}") >= 0),
        ("target_weight_is_local_plus_vertex", pos(r"let target_part_weight = weight \+ part_weights\[target_part\];") >= 0),
        ("move_updates_local_weights", pos(r"part_weights\[initial_part\] -= weight; part_weights\[target_part\] \+= weight;") >= 0),
        ("gain_is_recorded", pos(r"metadata\.move_count \+= 1; metadata\.edge_cut_gain \+= gain;") >= 0),
        ("headroom_divided_by_thread_count",
         pos(r"\*max_pw = \*pw \+ W::from_f64\(\(max_part_weight - \*pw\)\.to_f64\(\)\.unwrap\(\) / thread_count as f64\) \.unwrap\(\);") >= 0),
        ("merge_subtracts_tc_minus_1_copies", pos(r"\*pw = pw_sum - W::from_usize\(thread_count - 1\)\.unwrap\(\) \* \*pw;") >= 0),
        ("pass_loop_exits_on_zero_gain", pos(r"if pass_metadata\.edge_cut_gain == 0 \{ break; \}") >= 0),
        ("chunks_from_work_share",
         pos(r"work_share\(partition\.len\(\), rayon::current_num_threads\(\)\)") >= 0
         and pos(r"\.par_chunks\(items_per_thread\) \.enumerate\(\)") >= 0),
        ("work_share_formulas",
         pos(r"let max_threads = usize::min\(total_work, max_threads\);", w) >= 0
         and pos(r"let work_per_thread = \(total_work \+ max_threads - 1\) / max_threads;", w) >= 0
         and pos(r"let thread_count = \(total_work \+ work_per_thread - 1\) / work_per_thread;", w) >= 0
         and pos(r"\(work_per_thread, thread_count\)", w) >= 0),
    ]
    out = HEADER.format(src=rel + ", src/work_share.rs")
    out += "From Coq Require Import List Bool.\nImport ListNotations.\n"
    for name, ok in facts:
        out += "Definition arcswap_%s : bool := %s.\n" % (name, coq_bool(ok))
    out += "Definition arcswap_source_shape : list bool :=\n  [%s].\n" % ";\n   ".join("arcswap_" + n for n, _ in facts)
    return out


GENERATORS = {"ArcSwapGen.v": gen_arcswap}


PROP = dict(
    bin="c05",
    run_targets=["Run/RunC05.vo"],
    prop_targets=["Properties/C05.vo"],
    cases=dict(quick=1500, thorough=10000),
    level="proof",
    rule="each case = one run of ArcSwap under the controlled scheduler: graph family (path, cycle, clique, star, random x3 "
         "densities, multigraph with parallel edges/unsorted rows, 2-row grid, signed/zero edge weights with self loops) x "
         "3..8 vertices x 2..4 parts x vertex-weight family x max_imbalance (None / 0 / 0.05 / 0.25 / 0.5 / 1 / 3 / random) x "
         "rayon pool 1..4 x scheduling policy (uniform, round-robin, adversarial = freeze workers inside lock/check/gain "
         "windows, bursts); distinct = distinct (graph, weights, partition, pool, cap, recorded schedule); non-trivial = at "
         "least two workers and at least one vertex moved",
    class_names={0: "Ok, no move", 1: "Ok, moved", 2: "panic", 3: "hang", 4: "outside the contract", 5: "error"},
    trusted_base=[
        "axioms: none (every theorem of Properties/C05.v is closed under the global context)",
        "the controlled scheduler of harness/src/bin/c05.rs and the coupe_verif hooks of src/verif.rs (every shared access of "
        "ArcSwap's workers goes through TracedBool/TracedUsize); the recorded trace is the run",
    ],
    assumptions=[
        "sequential consistency: the interleavings considered are those of the per-thread access sequences (the property says so)",
        "i64 vertex weights >= 0 and i64 edge weights whose sums do not overflow; f64 vertex weights are not covered",
        "symmetric adjacency (wt u v = wt v u), neighbour ids < n",
    ],
)

MANIFEST = dict(
    text="ArcSwap as a small-step machine over its shared accesses (CAS, neighbour-lock reads, part reads, store, unlock).",
    design_ref="DESIGN.md §7 C05",
    note="Trusted: Coq kernel; hooks + controlled scheduler; SC interleavings only.",
    technique="Coq proof (inductive invariants over schedules) + controlled-scheduler trace replay + certified checker",
)

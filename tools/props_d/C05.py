"""C05 -- ArcSwap's accounting and caps under every thread interleaving."""

PROP = dict(
    bin="c05",
    run_targets=["Run/RunC05.vo"],
    prop_targets=["Properties/C05.vo"],
    cases=dict(quick=1200, thorough=8000),
    level="proof",
    rule="each case = one run of ArcSwap under the controlled scheduler: graph family (path, cycle, clique, star, random x3 "
         "densities, multigraph with parallel edges/unsorted rows, 2-row grid, signed/zero edge weights with self loops) x "
         "3..8 vertices x 2..4 parts x vertex-weight family x max_imbalance (None / 0 / 0.05 / 0.25 / 0.5 / 1 / 3 / random) x "
         "rayon pool 1..4 x scheduling policy (uniform, round-robin, adversarial = freeze workers inside lock/check/gain "
         "windows, bursts); distinct = distinct (graph, weights, partition, pool, cap, recorded schedule); non-trivial = at "
         "least two workers and at least one vertex moved",
    class_names={0: "Ok, no move", 1: "Ok, moved", 2: "panic", 3: "hang", 4: "outside the contract", 5: "error"},
    trusted_base=[
        "axioms: none (every theorem of Properties/C05.v is closed under the global context)",
        "the controlled scheduler of harness/src/bin/c05.rs and the coupe_verif hooks of src/verif.rs (every shared access of "
        "ArcSwap's workers goes through TracedBool/TracedUsize); the recorded trace is the run",
    ],
    assumptions=[
        "sequential consistency: the interleavings considered are those of the per-thread access sequences (the property says so)",
        "i64 vertex weights >= 0 and i64 edge weights whose sums do not overflow; f64 vertex weights are not covered",
        "symmetric adjacency (wt u v = wt v u), neighbour ids < n",
    ],
)

MANIFEST = dict(
    text="ArcSwap as a small-step machine over its shared accesses (CAS, neighbour-lock reads, part reads, store, unlock).",
    design_ref="DESIGN.md §7 C05",
    note="Trusted: Coq kernel; hooks + controlled scheduler; SC interleavings only.",
    technique="Coq proof (inductive invariants over schedules) + controlled-scheduler trace replay + certified checker",
)

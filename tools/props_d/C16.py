"""C16 -- edge cut, lambda cut and imbalance agree with their definitions."""

import os, re, sys
sys.path.insert(0, os.path.dirname(os.path.dirname(os.path.abspath(__file__))))
from translate_lib import read, fn_body, Fail, HEADER

_OPS = {"<": "CLt", "<=": "CLe", ">": "CGt", ">=": "CGe", "==": "CEq", "!=": "CNe"}
_OP = r"(<=|>=|==|!=|<|>)"


def _one(pattern, text, what):
    m = re.findall(pattern, text)
    if len(m) != 1:
        raise Fail("%s: expected exactly one match, found %d" % (what, len(m)))
    return m[0]


def _has(pattern, text):
    return re.search(pattern, text) is not None


def gen_metrics():
    """The comparison operators and expression shapes Model/Metrics.v transcribes, re-read from the source."""
    topo = read("src/topology/mod.rs")
    sprs = read("src/topology/sprs.rs")
    cart = read("src/cartesian/mod.rs")
    imb = read("src/imbalance.rs")
    out = HEADER.format(src="src/topology/mod.rs, src/topology/sprs.rs, src/cartesian/mod.rs, src/imbalance.rs")
    out += "From Coq Require Import List.\nImport ListNotations.\n"
    out += "Inductive cmp_op := CLt | CLe | CGt | CGe | CEq | CNe.\n"

    g = fn_body(topo, "edge_cut")
    if g is None:
        raise Fail("Topology::edge_cut not found")
    ops = _one(r"vertex_part\s*" + _OP + r"\s*partition\[\*neighbor\]\s*&&\s*\*neighbor\s*" + _OP + r"\s*vertex\b", g,
               "generic edge_cut filter")
    out += "Definition generic_cut_part_cmp : cmp_op := %s.\n" % _OPS[ops[0]]
    out += "Definition generic_cut_index_cmp : cmp_op := %s.\n" % _OPS[ops[1]]
    out += "Definition generic_cut_uses_take_while : bool := %s.\n" % ("true" if "take_while" in g else "false")

    s = fn_body(sprs, "edge_cut")
    if s is None:
        raise Fail("sprs edge_cut not found")
    op = _one(r"\.take_while\(\|\(neighbor,\s*_edge_weight\)\|\s*\*\*neighbor\s*" + _OP + r"\s*vertex\)", s, "sprs take_while")
    out += "Definition sprs_take_while_cmp : cmp_op := %s.\n" % _OPS[op]
    op = _one(r"\.filter\(\|\(neighbor,\s*_edge_weight\)\|\s*vertex_part\s*" + _OP + r"\s*partition\[\*\*neighbor\]\)", s, "sprs filter")
    out += "Definition sprs_filter_part_cmp : cmp_op := %s.\n" % _OPS[op]
    # take_while must come before filter (the early stop is on the index, not on the part)
    out += "Definition sprs_take_while_before_filter : bool := %s.\n" % (
        "true" if 0 <= s.find(".take_while(") < s.find(".filter(") else "false")

    n = fn_body(cart, "next")
    if n is None:
        raise Fail("GridNeighbors::next not found")
    shape = [
        _has(r"if\s+i\s*>=\s*2\s*\*\s*D\s*\{\s*return\s+None;", n),
        _has(r"let\s+axis\s*=\s*i\s*/\s*2\s*;", n),
        _has(r"if\s*\(i\s*%\s*2\)\s*==\s*0\s*\{\s*usize::checked_sub\(neighbor\[axis\],\s*1\)\s*\}\s*else\s*\{\s*Some\(neighbor\[axis\]\s*\+\s*1\)", n),
        _has(r"Some\(v\)\s*if\s+v\s*>=\s*usize::from\(self\.grid\.size\[axis\]\)\s*=>\s*continue", n),
        _has(r"None\s*=>\s*continue", n),
        _has(r"self\.grid\.index_of\(neighbor\)", n),
    ]
    out += "Definition grid_iterator_shape : list bool := [%s]%%list.\n" % "; ".join("true" if b else "false" for b in shape)
    po = fn_body(cart, "position_of")
    io = fn_body(cart, "index_of")
    if po is None or io is None:
        raise Fail("position_of / index_of not found")
    shape = [
        _has(r"pos\[0\]\s*=\s*i\s*%\s*width;\s*pos\[1\]\s*=\s*i\s*/\s*width;", po),
        _has(r"pos\[0\]\s*=\s*i\s*%\s*width;\s*pos\[1\]\s*=\s*\(i\s*/\s*width\)\s*%\s*height;\s*pos\[2\]\s*=\s*i\s*/\s*width\s*/\s*height;", po),
        _has(r"x\s*\+\s*width\s*\*\s*y\b", io),
        _has(r"x\s*\+\s*width\s*\*\s*\(y\s*\+\s*height\s*\*\s*z\)", io),
        # generic-D branches (Metrics.position_loop / index_loop; C16_grid_index_bij_generic)
        _has(r"for\s*\(s,\s*p\)\s*in\s*self\.size\.into_iter\(\)\.zip\(&mut\s+pos\)\s*\{\s*\*p\s*=\s*i\s*%\s*s;\s*i\s*=\s*i\s*/\s*s;\s*\}", po),
        _has(r"\.zip\(pos\)\s*\.scan\(1,\s*\|prefix,\s*\(s,\s*p\)\|\s*\{\s*let\s+a\s*=\s*\*prefix\s*\*\s*p;\s*\*prefix\s*\*=\s*usize::from\(s\);\s*Some\(a\)\s*\}\)\s*\.sum\(\)", io),
    ]
    out += "Definition grid_index_shape : list bool := [%s]%%list.\n" % "; ".join("true" if b else "false" for b in shape)

    ib = fn_body(imb, "imbalance")
    mb = fn_body(imb, "max_imbalance")
    tb = fn_body(imb, "imbalance_target")
    cb = fn_body(imb, "compute_parts_load")
    if None in (ib, mb, tb, cb):
        raise Fail("imbalance.rs: a function was not found")
    shape = [
        _has(r"total_weight\.to_f64\(\)\.unwrap\(\)\s*/\s*num_parts\.to_f64\(\)\.unwrap\(\)", ib),
        _has(r"if\s+ideal_part_weight\s*==\s*0\.0\s*\{", ib),
        _has(r"\(part_weight\s*-\s*ideal_part_weight\)\s*/\s*ideal_part_weight", ib),
        _has(r"\.minmax\(\)\s*\.into_option\(\)\s*\.unwrap_or\(\(0\.0,\s*0\.0\)\)\s*\.1", ib),
        _has(r"\.minmax\(\)\s*\.into_option\(\)\s*\.map_or_else\(W::Item::zero,\s*\|m\|\s*\*m\.1\s*-\s*\*m\.0\)", mb),
        _has(r"\.map\(\|\(x,\s*t\)\|\s*\*x\s*-\s*\*t\)\s*\.max_by\(", tb),
        _has(r"acc\[part\]\s*\+=\s*w;", cb),
        _has(r"\*w0\s*\+=\s*w1;", cb),
    ]
    out += "Definition imbalance_shape : list bool := [%s]%%list.\n" % "; ".join("true" if b else "false" for b in shape)
    out += _fingerprints(topo, sprs, cart, imb)
    return out


def _strip_comments(src):
    src = re.sub(r"/\*.*?\*/", " ", src, flags=re.S)
    return re.sub(r"//[^\n]*", " ", src)


_FP_FUNCS = [
    ("topology/mod.rs", "edge_cut"), ("topology/mod.rs", "lambda_cut"),
    ("topology/sprs.rs", "edge_cut"), ("topology/sprs.rs", "lambda_cut"),
    ("cartesian/mod.rs", "position_of"), ("cartesian/mod.rs", "index_of"), ("cartesian/mod.rs", "next"),
    ("imbalance.rs", "compute_parts_load"), ("imbalance.rs", "imbalance"),
    ("imbalance.rs", "imbalance_target"), ("imbalance.rs", "max_imbalance"),
]


def _fingerprint(body):
    """Structure of a function body: [if, else, match, return, for, while|loop, method calls, `;`, container
    mentions, unsafe, macro calls].  A second code path (a branch, an early return, another container, another
    fold/reduce) changes it; reformatting, comments and renamed variables do not."""
    b = _strip_comments(body)
    cnt = lambda pat: len(re.findall(pat, b))
    return [
        cnt(r"\bif\b"), cnt(r"\belse\b"), cnt(r"\bmatch\b"), cnt(r"\breturn\b"), cnt(r"\bfor\b"),
        cnt(r"\b(?:while|loop)\b"), cnt(r"\.\s*[a-z_][a-z0-9_]*\s*(?:::\s*<[^;{}()]*>)?\s*\("), cnt(r";"),
        cnt(r"\b(?:HashMap|HashSet|BTreeMap|BTreeSet|VecDeque|Vec|vec)\b"), cnt(r"\bunsafe\b"),
        cnt(r"\b[a-z_][a-z0-9_]*!"),
    ]


def _fingerprints(topo, sprs, cart, imb):
    srcs = {"topology/mod.rs": topo, "topology/sprs.rs": sprs, "cartesian/mod.rs": cart, "imbalance.rs": imb}
    rows, names = [], []
    for f, fn in _FP_FUNCS:
        body = fn_body(srcs[f], fn)
        if body is None:
            raise Fail("fn %s not found in src/%s" % (fn, f))
        rows.append("[%s]" % "; ".join(str(x) for x in _fingerprint(body)))
        names.append("%s::%s" % (f, fn))
    out = "(* structure fingerprints [if; else; match; return; for; while|loop; method calls; semicolons;\n"
    out += "   containers; unsafe; macros] of, in order: %s *)\n" % ", ".join(names)
    out += "Definition source_fingerprints : list (list nat) := [\n  %s]%%list.\n" % ";\n  ".join(rows)
    return out


GENERATORS = {"MetricsGen.v": gen_metrics}

PROP = dict(
    bin="c16",
    run_targets=["Run/RunC16.vo"],
    prop_targets=["Properties/C16.vo"],
    cases=dict(quick=960, thorough=9600),
    level="proof",
    rule="three kinds of case: (graph) valid sparse matrices from 9 families (unsymmetric, symmetric, symmetric with isolated "
         "vertices, path, star, self-loops, empty rows, triangular-only, tiny/empty) x 5 edge-weight styles, plus adjacency lists "
         "with shuffled rows and duplicate entries for the generic trait only; (grid) every 2D size up to 6x6 (8x8 thorough) and 3D "
         "up to 3x3x4 (4x4x5) with random/striped/checkerboard partitions; (load) 8 weight families (uniform, random, zeros, one "
         "dominant, negative, large, more parts than elements, all zero); a separate documented stream feeds rows in arbitrary order to "
         "the specialisation through CsMatView::new_unchecked (the constructor coupe's C API uses) and is compared with the model only; "
         "LARGE cases, one per shard (every 60th case quick, every 50th thorough): paths, rings, banded random sparse matrices "
         "(symmetric and not), 2D lattices as matrices, coupe::Grid in 2D/3D and weight arrays for the load functions with n in "
         "{1023..1026, 2047..2050, 4095..4100, 5000, random 1500..5200}, partitions that cut edges at and around rows 1022..1025, "
         "2047..2049, 4095, 4096 (alternating, single cut at a boundary, boundary rows only, blocks of 512/1000/1024/1025, random "
         "windows around the boundaries); "
         "MANY-PARTS load cases (about a third of the large slots): num_parts in {1024,1025,1500,2048,3000,4097}, len 2..4 x num_parts, "
         "partitions given as a formula p[i] = (c + a*(i/b)) mod k (round-robin, strides sharing a factor with k so that parts stay empty, "
         "block-wise) or as random runs over a pool of 60 part ids, i64 and integer-valued f64 weights, pools of 1,2,3,8 threads; large "
         "graphs / grids also get one part per vertex, round-robin over 65/129/1025/2048 parts and block-wise many-part partitions; "
         "number of parts in every stream: 60% 1..6, 30% largest id in {7,8,15,16,31,32,33,63,64,65,127,128,129,255,256}, 10% random "
         "7..300 (many empty parts); with many parts the extreme ids k-1, 0, k-2 are forced onto consecutive vertices (they meet "
         "on paths, rings, lattices) or only the top ids are used; one part per vertex on paths/rings with n in {8,9,16,17,32..34,"
         "64..66,128..130,200} and one part per cell on grids; 6 partition shapes, pools of 1..16 threads "
         "(case index mod 16 + 1); a rare separate stream outside the contract (short/long partition or weight arrays, part id out "
         "of range, zero parts); distinct = distinct (kind, graph or sizes, partition, weights); non-trivial = in contract, at "
         "least one edge / two cells / two elements, and at least two parts in use",
    class_names={0: "graph, symmetric", 1: "graph, unsymmetric", 2: "graph, outside contract", 3: "grid", 4: "grid, outside contract",
                 5: "loads/imbalance", 6: "loads/imbalance, outside contract",
                 7: "adjacency list with unsorted/duplicate rows (generic trait only)",
                 8: "unsorted rows via CsMatView::new_unchecked (outside the sparse-matrix contract): specialisation still equals the definition",
                 9: "unsorted rows via CsMatView::new_unchecked (outside the sparse-matrix contract): specialisation differs from the definition, as the model predicts",
                 10: "large sparse matrix (1023..5200 vertices)", 11: "large Grid (1023..5000 cells)",
                 12: "loads/imbalance with 1024..4097 parts"},
    trusted_base=[
        "axioms: none (every theorem of Properties/C16.v is closed under the global context)",
        "modelled, not verified: i64 overflow of sums and of Grid index arithmetic (contract: no overflow); the f64 instantiations are run "
        "with integer-valued weights whose sums stay below 2^53 (exact)",
    ],
    assumptions=[
        "edge and vertex weights are integers (i64, or integer-valued f64 with exact sums); sums do not overflow",
        "HashSet<usize>::len() = number of distinct elements inserted",
        "rayon: map/zip/enumerate preserve order, sum()/fold()/reduce_with() call the closures on a split tree of the index range",
        "a sparse matrix accepted by sprs::CsMat::new has strictly increasing column indices in every row, all below the column count",
        "itertools 0.12 minmax = the loop transcribed in Model/Metrics.v (validated on every load case)",
    ],
)

MANIFEST = dict(
    text="Proved for ALL inputs about a line-by-line Gallina model of topology/mod.rs, topology/sprs.rs, cartesian/mod.rs (Grid "
         "neighbours, position_of, index_of) and imbalance.rs: the sparse-matrix specialisation (take_while) equals the trait's default "
         "edge_cut on every matrix with sorted rows, for every partition array (C16_csr_cut_eq_generic; lambda_cut unconditionally); "
         "edge_cut = sum over the strictly lower triangle for every graph and = sum over the unordered pairs joining different parts for "
         "symmetric graphs (C16_cut_def); lambda_cut = sum over vertices of weight x number of foreign parts among the neighbours "
         "(C16_lambda_cut_def); for 2D and 3D grids index_of/position_of are inverse bijections, neighbors(v) yields exactly the cells at "
         "lattice distance one, symmetrically and without duplicates, hence Grid edge cut = lattice cut (C16_grid_*); compute_parts_load = "
         "per-part sums for EVERY split tree of rayon's fold/reduce (C16_loads_def); max_imbalance = largest - smallest load through "
         "itertools' pairwise minmax loop (C16_minmax_Z, C16_max_imbalance_def); imbalance_target = largest excess; imbalance = one expression "
         "whose f64 instance is the model and whose rational instance equals max_p(load_p*k/total - 1), attained by the heaviest part "
         "(C16_imbalance_real, stated over Q). Every run: the operators/expression shapes are re-read from the source (Gen/MetricsGen.v), the "
         "three implementations (CsMat::new view, a wrapper type running the DEFAULT trait methods, coupe::Grid) plus the imbalance functions "
         "are run on generated inputs under rayon pools of 1..16 threads with i64 and integer-valued f64 weights, compared with the model, and "
         "every returned value is compared with the code-independent definition; the f64 imbalance bit-for-bit with SpecFloat and within "
         "2^-50 relative of the rational closed form.",
    design_ref="DESIGN.md §7 C16",
    note="Trusted: Coq kernel; the model<->code tie is the translator (operators and expression shapes) plus differential runs (960/9600 "
         "cases); SpecFloat = hardware f64 sub/div; integer sums do not overflow and f64 sums of integer-valued weights are exact (contract). "
         "Grid theorems (index bijection, neighbour spec, symmetry, no duplicate, edge cut = lattice cut, lambda cut = definition) are proved for every dimension D (C16_grid_*_generic) as well as in their 2D / 3D forms; only D = 2, 3 can be constructed, so the generic branches of position_of / index_of are tied to the source by translator shapes only, not by runs. No axioms.",
    technique="Coq proof + model/implementation correspondence + definitions evaluated on every implementation output",
)

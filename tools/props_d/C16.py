"""C16 -- edge cut, lambda cut and imbalance agree with their definitions."""

GENERATORS = {}

PROP = dict(
    bin="c16",
    run_targets=["Run/RunC16.vo"],
    prop_targets=["Properties/C16.vo"],
    cases=dict(quick=960, thorough=9600),
    level="proof",
    rule="three kinds of case: (graph) valid sparse matrices from 9 families (unsymmetric, symmetric, symmetric with isolated "
         "vertices, path, star, self-loops, empty rows, triangular-only, tiny/empty) x 5 edge-weight styles, plus adjacency lists "
         "with shuffled rows and duplicate entries for the generic trait only; (grid) every 2D size up to 6x6 (8x8 thorough) and 3D "
         "up to 3x3x4 (4x4x5) with random/striped/checkerboard partitions; (load) 8 weight families (uniform, random, zeros, one "
         "dominant, negative, large, more parts than elements, all zero); 1..6 parts, 6 partition shapes, pools of 1..16 threads "
         "(case index mod 16 + 1); a rare separate stream outside the contract (short/long partition or weight arrays, part id out "
         "of range, zero parts); distinct = distinct (kind, graph or sizes, partition, weights); non-trivial = in contract, at "
         "least one edge / two cells / two elements, and at least two parts in use",
    class_names={0: "graph, symmetric", 1: "graph, unsymmetric", 2: "graph, outside contract", 3: "grid", 4: "grid, outside contract",
                 5: "loads/imbalance", 6: "loads/imbalance, outside contract"},
    trusted_base=[
        "axioms: none (every theorem of Properties/C16.v is closed under the global context)",
        "modelled, not verified: i64 overflow of sums and of Grid index arithmetic (contract: no overflow); the f64 instantiations are run "
        "with integer-valued weights whose sums stay below 2^53 (exact)",
    ],
    assumptions=[
        "edge and vertex weights are integers (i64, or integer-valued f64 with exact sums); sums do not overflow",
        "HashSet<usize>::len() = number of distinct elements inserted",
        "rayon: map/zip/enumerate preserve order, sum()/fold()/reduce_with() call the closures on a split tree of the index range",
        "a sparse matrix accepted by sprs::CsMat::new has strictly increasing column indices in every row, all below the column count",
        "itertools 0.12 minmax = the loop transcribed in Model/Metrics.v (validated on every load case)",
    ],
)

MANIFEST = dict(
    text="(under construction)",
    design_ref="DESIGN.md §7 C16",
    note="(under construction)",
    technique="Coq proof + model/implementation correspondence + definitions evaluated on every implementation output",
)

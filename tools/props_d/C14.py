"""C14 -- VnBest and VnFirst never worsen the load gap."""

GENERATORS = {}

PROP = dict(
    bin="c14",
    run_targets=["Run/RunC14.vo"],
    prop_targets=["Properties/C14.vo"],
    cases=dict(quick=3000, thorough=40000),
    level="proof",
    rule="TODO",
    class_names={0: "Ok, partition unchanged", 5: "Ok, at least one element moved", 1: "InputLenMismatch",
                 2: "NegativeValues", 6: "other error", 3: "panic", 4: "hang"},
    trusted_base=[],
    assumptions=[],
)

MANIFEST = dict(
    text="TODO",
    design_ref="DESIGN.md §7 C14",
    note="TODO",
    technique="Coq proof + model/implementation correspondence + certified checker",
)

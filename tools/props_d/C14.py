"""C14 -- VnBest and VnFirst never worsen the load gap."""
import os, re, sys
sys.path.insert(0, os.path.dirname(os.path.dirname(os.path.abspath(__file__))))
from translate_lib import read, fn_body, Fail, HEADER, coq_bool


def _pos(pat, text, what):
    m = re.search(pat, text)
    if not m:
        raise Fail("pattern not found: " + what)
    return m.start()


def _impl_block(src, header):
    """text of `impl <header> {...}` (brace matched), whitespace removed; None if absent or not unique"""
    ms = list(re.finditer(r"\bimpl\s+" + header + r"\s*\{", src))
    if len(ms) != 1:
        return None
    i = ms[0].end() - 1
    depth = 0
    for j in range(i, len(src)):
        if src[j] == "{":
            depth += 1
        elif src[j] == "}":
            depth -= 1
            if depth == 0:
                return re.sub(r"\s+", "", re.sub(r"//[^\n]*", "", src[i : j + 1]))
    return None


def real_order_exact():
    """src/real.rs: Ord for Real is exactly the order of the inner f64 through partial_cmp (panic on NaN), PartialOrd
    delegates to it, PartialEq is derived on the one-field struct; no tolerance anywhere.  Fails closed."""
    src = read("src/real.rs")
    o = _impl_block(src, r"Ord\s+for\s+Real")
    po = _impl_block(src, r"PartialOrd\s+for\s+Real")
    return (
        o == '{fncmp(&self,other:&Real)->Ordering{self.0.partial_cmp(&other.0).expect("cannotcomparewithNaN")}}'
        and po == "{fnpartial_cmp(&self,other:&Real)->Option<Ordering>{Some(self.cmp(other))}}"
        and re.search(r"#\[derive\(PartialEq,\s*Copy,\s*Clone,\s*Default\)\]\s*pub\s+struct\s+Real\(f64\);", src) is not None
        and re.search(r"impl\s+PartialEq\b[^{]*\bfor\s+Real\b", src) is None
        and _impl_block(src, r"Eq\s+for\s+Real") == "{}"
    )


# ------------------------------------------------- C14: guards and comparison operators of vn/best.rs, vn/first.rs
def gen_vn():
    out = HEADER.format(src="src/algorithms/vn/best.rs, src/algorithms/vn/first.rs, src/imbalance.rs")
    b = fn_body(read("src/algorithms/vn/best.rs"), "vn_best_mono")
    if b is None:
        raise Fail("fn vn_best_mono not found")
    # order of the guards: length mismatch, negative weights, trivial return, first write
    i_len = _pos(r"Err\(Error::InputLenMismatch", b, "best: InputLenMismatch")
    i_neg = _pos(r"Err\(Error::NegativeValues\)", b, "best: NegativeValues")
    i_ok0 = _pos(r"return\s+Ok\(0\)", b, "best: return Ok(0)")
    i_wr = _pos(r"partition\[id\]\s*=\s*underweight_part", b, "best: the move")
    out += "Definition vnbest_guards_in_order : bool := %s.\n" % coq_bool(i_len < i_neg < i_ok0 < i_wr)
    out += "Definition vnbest_negative_test : bool := %s.\n" % coq_bool(
        re.search(r"\.any\(\|\(weight,\s*_weight_id\)\|\s*\*weight\s*<\s*T::zero\(\)\)", b) is not None)
    m = re.search(r"if\s+imbalance\s*(<=|<)\s*nearest_weight\s*\|\|\s*nearest_weight\.is_zero\(\)\s*\{[^}]*break", b)
    if not m:
        raise Fail("best: the stop test `imbalance <= nearest_weight || nearest_weight.is_zero()` not found")
    out += "Definition vnbest_stop_when_not_below : bool := %s.\n" % coq_bool(m.group(1) == "<=")
    # the progress test of fix 98041ea, between the stop test and the move
    i_stop = _pos(r"if\s+imbalance\s*<=\s*nearest_weight", b, "best: stop test")
    mg = re.search(r"let\s+new_overweight_load\s*=\s*part_loads\[overweight_part\]\s*-\s*nearest_weight;\s*"
                   r"let\s+mut\s+new_underweight_load\s*=\s*part_loads\[underweight_part\];\s*"
                   r"new_underweight_load\s*\+=\s*nearest_weight;\s*"
                   r"if\s+new_overweight_load\s*<\s*new_underweight_load\s*&&\s*"
                   r"!\(new_underweight_load\s*-\s*new_overweight_load\s*<\s*imbalance\)\s*\{\s*break;", b)
    out += "Definition vnbest_progress_test : bool := %s.\n" % coq_bool(
        mg is not None and i_stop < mg.start() < i_wr)
    out += "Definition vnbest_move : bool := %s.\n" % coq_bool(
        re.search(r"part_loads\[overweight_part\]\s*=\s*part_loads\[overweight_part\]\s*-\s*nearest_weight", b) is not None
        and re.search(r"part_loads\[underweight_part\]\s*\+=\s*nearest_weight", b) is not None)
    out += "Definition vnbest_source_is_heaviest : bool := %s.\n" % coq_bool(
        len(re.findall(r"partition\[criterion\[\w+\]\.1\]\s*==\s*overweight_part", b)) == 2
        and re.search(r"\.minmax_by_key\(\|&\(_part,\s*load\)\|\s*load\)", b) is not None)
    # compute_parts_load (src/imbalance.rs): ONE fold over all (part, weight) pairs into per-part loads, partial
    # results added element-wise; fails closed on blocked / chunked / row-matrix variants
    cb = fn_body(read("src/imbalance.rs"), "compute_parts_load")
    if cb is None:
        raise Fail("fn compute_parts_load not found")
    cbn = re.sub(r"\s+", "", re.sub(r"//[^\n]*", "", cb))
    single_fold = (
        "partition.par_iter().zip(weights).fold(||vec![W::Item::zero();num_parts],|mutacc,(&part,w)|{acc[part]+=w;acc},)" in cbn
        and ".reduce_with(|mutweights0,weights1|{for(w0,w1)inweights0.iter_mut().zip(weights1){*w0+=w1;}weights0})" in cbn
        and ".unwrap_or_else(||vec![W::Item::zero();num_parts])" in cbn
        and not re.search(r"chunks|BLOCK|for_each|collect\(|return", cb)
        and len(re.findall(r"\.zip\(", cb)) == 2
    )
    out += "Definition parts_load_single_fold : bool := %s.\n" % coq_bool(single_fold)
    # the part loads are computed ONCE (before the sort / the loop) and afterwards only updated incrementally by the
    # moved weight; no periodic or conditional recomputation.  Fails closed.
    def loads_once(body, loop_pat, n_updates, what):
        calls = [m.start() for m in re.finditer(r"compute_parts_load\s*\(", body)]
        lp = re.search(loop_pat, body)
        whole = re.findall(r"\bpart_loads\s*=(?!=)", body)          # `let mut part_loads =` only
        elem = re.findall(r"\bpart_loads\[[^\]]+\]\s*(?:\+=|-=|=(?!=))", body)
        return (len(calls) == 1 and lp is not None and calls[0] < lp.start() and len(whole) == 1
                and re.search(r"let\s+mut\s+part_loads\s*=\s*(?:crate::imbalance::)?compute_parts_load\s*\(", body) is not None
                and len(elem) == n_updates
                and not re.search(r"REFRESH|PERIOD|%\s*[A-Z_0-9]", body))
    out += "Definition vnbest_loads_computed_once : bool := %s.\n" % coq_bool(
        loads_once(b, r"\bloop\s*\{", 2, "best")
        and _pos(r"compute_parts_load\s*\(", b, "best: compute_parts_load") < _pos(r"criterion\.sort_unstable_by", b, "best: sort"))
    f = fn_body(read("src/algorithms/vn/first.rs"), "vn_first")
    if f is None:
        raise Fail("fn vn_first not found")
    out += "Definition vnfirst_loads_computed_once : bool := %s.\n" % coq_bool(
        loads_once(f, r"\bwhile\s+i\s*!=\s*i_last", 4, "first"))
    if f is None:
        raise Fail("fn vn_first not found")
    m = re.search(r"if\s+part_loads\[p\]\s*(<=|<)\s*max_load\s*\{[^}]*continue", f)
    if not m:
        raise Fail("first: the skip test `part_loads[p] < max_load` not found")
    out += "Definition vnfirst_skip_strict : bool := %s.\n" % coq_bool(m.group(1) == "<")
    m = re.search(r"if\s+imbalance\s*(<=|<)\s*new_imbalance\s*\{", f)
    if not m:
        raise Fail("first: the reject test `imbalance < new_imbalance` not found")
    out += "Definition vnfirst_reject_strict : bool := %s.\n" % coq_bool(m.group(1) == "<")
    out += "Definition vnfirst_rollback : bool := %s.\n" % coq_bool(
        re.search(r"part_loads\[p\]\s*\+=\s*weights\[i\];\s*part_loads\[q\]\s*=\s*part_loads\[q\]\s*-\s*weights\[i\];\s*continue", f) is not None)
    out += "Definition vnfirst_stale_p : bool := %s.\n" % coq_bool(
        len(re.findall(r"\bp\s*=(?!=)", f)) == 1 and re.search(r"let\s+p\s*=\s*partition\[i\]", f) is not None)
    out += "Definition vnfirst_stops_after_move : bool := %s.\n" % coq_bool(
        re.search(r"while\s+i\s*!=\s*i_last", f) is not None and re.search(r"i_last\s*=\s*i;", f) is not None)
    # coupe::Real, the Ord float wrapper these algorithms accept as a weight type
    out += "Definition vn_real_order_exact : bool := %s.\n" % coq_bool(real_order_exact())
    return out


GENERATORS = {"VnGen.v": gen_vn}

PROP = dict(
    bin="c14",
    run_targets=["Run/RunC14.vo"],
    prop_targets=["Properties/C14.vo"],
    cases=dict(quick=4000, thorough=40000),
    level="proof",
    rule="each case = algorithm (VnBest | VnFirst) x weight family (small alphabet, random, ties, one dominant, zeros, "
         "all equal, large values up to 2^40, two values, odd values, one negative weight) x initial partition family "
         "(uniform, one-sided, round robin, all in the last part, two heavy parts, single part; 2..8 parts; made valid "
         "-- every id up to the maximum used -- 4 times out of 5) x weight type (i64, or f64 holding the same integers, "
         "1 case in 3) x a malformed stream (partition array shorter/longer/empty); the negative stream has two families: "
         "one negative weight among non-negative ones, and all weights <= 0 with at least one zero and one negative "
         "(maximum exactly 0); plus a REUSE stream (about 30 % of the cases): one VnBest / VnFirst value serves a sequence "
         "of 2-4 calls (its own output again, new weights on that output, another length), each call a case of its own; "
         "plus a SCALE family (1 unit in 8): the integer families times 2^s (subnormal .. 2^900, every value, sum, "
         "difference and half exact) as plain f64 or through coupe::Real, compared with the integer model (flt = true); "
         "plus a MANY-MOVES family (a few cases per quick run): one heavy weight per part, a surplus of small weights in "
         "part 0 and small weights in random parts, 2..4 parts, built so that ONE VnBest run makes 1100..5000 moves (the "
         "harness counts the runs that reach 1024 moves), or 1100..2000 successive VnFirst calls on one value; generator "
         "parameters + output difference, judged by the certified checker on exact loads; "
         "plus a LARGE family (a few cases per quick run, ~100 per thorough run): 4097..9999 weights (4097, 4104, 5000, 8191, "
         "8193, 9000, 9999), 2..8 parts, i64 or integer-valued f64, the last len % 4096 positions holding all the weight of "
         "the last part (made the heaviest) or weights (n-t)/t times larger -- described by generator parameters, output "
         "given as a difference, judged by the certified checker on exact loads only (the model is not run at this size); "
         "plus a GENUINE-f64 stream (1 unit in 5): tenths, small decimals, thirds, mixed magnitudes, random mantissas, ties "
         "between rounded sums, one dominant 1e15, a negative / -0.0 family; bit patterns, run on a rayon pool of ONE thread "
         "(fixed summation order), VnBest in a child process that is killed after 4 s (its loop may not end), compared "
         "bit-for-bit (array and move count) with the binary64 instance of the generic model, judged in exact dyadic "
         "arithmetic with a tolerance of total/2^45; distinct = distinct (algorithm, "
         "weight type, weights, partition); non-trivial = matching lengths, at least 3 weights, at least two parts in "
         "the input, not all weights zero",
    class_names={9: "Ok (large input, thousands of weights: certified checker only)", 0: "Ok, partition unchanged", 5: "Ok, at least one element moved", 1: "InputLenMismatch",
                 2: "NegativeValues", 6: "other error", 3: "panic", 4: "hang",
                 7: "Ok (genuine f64): exact gap not larger", 8: "Ok (genuine f64): exact gap larger, within the rounding tolerance"},
    trusted_base=[
        "axioms: none for every theorem of Properties/C14.v except C14_f64_rounding_facts and C14_vnbest_f64_terminates, which "
        "go through Flocq's real-number semantics of binary64 and depend on the standard axioms of Coq's classical reals "
        "(ClassicalDedekindReals.sig_forall_dec, ClassicalDedekindReals.sig_not_dec, "
        "FunctionalExtensionality.functional_extensionality_dep, Classical_Prop.classic); Flocq 4.1 itself is trusted as a library",
        "modelled, not verified: i64 overflow of part loads; the allocation of 1 + max id loads",
        "itertools minmax_by_key returns the first minimum and the last maximum (its documented contract; source read); "
        "slice::binary_search_by with a comparator that never answers Equal returns Err(partition point) on a sorted slice",
        "rayon fold/reduce of compute_parts_load: integer sums do not depend on the split tree",
        "f64 weights: `imbalance / two` is exact on integers (the model keeps twice the target, so i64 truncation and f64 "
        "halves are both exact); every other operation is +, -, < on integers below 2^53",
    ],
    assumptions=[
        "f64 reading of the property: exact arithmetic on the f64 values, gap(out) <= gap(in) + total/2^45 (accumulated "
        "rounding); the strict exact statement is refuted (C14_vnfirst_f64_exact_gap_refuted: one rounding error, 2^-54). "
        "Termination of VnBest on f64 weights: refuted for the loop before fix 98041ea (C14_vnbest_f64_terminates_refuted, "
        "kept as a regression witness); for the current loop PROVED (C14_vnbest_f64_terminates) for finite non-negative "
        "canonical binary64 weights whose initial part loads are finite: a lexicographic measure under monotonic-rounding "
        "laws (C14_vnbest_terminates_generic), all of which are proved for SpecFloat -- order/rank laws directly, the ten "
        "rounding facts (C14_f64_rounding_facts) through Flocq; -0.0 weights and overflowing sums are outside the theorem; "
        "the f64 stream still treats a hang as a rejection",
        "f64: SpecFloat SFadd/SFsub/SFdiv/SFltb/SFeqb at (53,1024) are the CPU's binary64 operations (validated bit-for-bit "
        "on every genuine-f64 case); rayon's fold/reduce on a 1-thread pool splits the index range once, in the middle",
        "weights are non-negative integers (i64, or f64 holding integers below 2^53) whose sums do not overflow",
        "part ids of the input array are small enough for 1 + max id loads to be allocated (the harness uses 2..8 parts)",
    ],
)

MANIFEST = dict(
    text="Theorems C14_vnbest_gap and C14_vnfirst_gap prove, for ALL weight vectors and initial arrays (any number of parts), "
         "about line-by-line Gallina models of vn/best.rs and vn/first.rs: the returned array has the input's length, no id "
         "above the input's maximum, a heaviest-minus-lightest load gap not larger than the input's and the same total. "
         "VnFirst's model keeps the stale `p` of the inner loop (later targets are evaluated as if the weight had not moved); "
         "the FULL statement is proved despite it (tracked loads never exceed the input maximum, so an accepted target stays "
         "below it). C14_vnbest_negative: a negative weight gives Err NegativeValues; C14_vnbest_terminates: the loop ends "
         "within 1 + sum of squared loads turns; C14_vnbest_no_panic, C14_vnfirst_total: no panic, Ok under the contract. "
         "Models are compared with the implementation on generated inputs (exact partitions and move counts, i64 and f64 "
         "weights; on errors the array must be untouched) and a checker proved equivalent to the property judges every output; "
         "guards and comparison operators the models hard-code are re-read from the source on every run (C14_source_literals). "
         "Both algorithms are also modelled over an abstract weight arithmetic and run on genuine f64 inputs bit-for-bit: the "
         "guards survive (C14_vnbest_negative_generic); with rounding the loop before fix 98041ea need not terminate "
         "(C14_vnbest_f64_terminates_refuted, regression witness: it oscillates for ever on 0.2 0.8 0.9 0.1 0.1 / 1 1 0 1 0); "
         "the progress test of that fix is part of the models, never fires on integers "
         "(C14_vnbest_progress_test_idle_on_integers) and ends the witness at once (C14_vnbest_f64_fixed_example); "
         "VnFirst can raise the exact gap by a rounding error "
         "(C14_vnfirst_f64_exact_gap_refuted); the integer theorems stand as stated for i64 and integer-valued f64.",
    design_ref="DESIGN.md §7 C14",
    note="Trusted: Coq kernel; model<->code tie = translator (15 literals, incl. compute_parts_load and the order of coupe::Real) + differential runs (4k/40k cases); itertools minmax "
         "and binary_search contracts as listed; no axioms.",
    technique="Coq proof (loop invariants; decreasing sum of squares; invariant on tracked vs true loads for VnFirst) + translator "
              "+ model/implementation correspondence + certified checker",
)

"""C12 -- Greedy is LPT scheduling; KarmarkarKarp is the differencing method."""
import os, re, sys
sys.path.insert(0, os.path.dirname(os.path.dirname(os.path.abspath(__file__))))
from translate_lib import read, fn_body, Fail, HEADER, coq_bool


def _num(pat, text, what):
    m = re.search(pat, text)
    if not m:
        raise Fail("pattern not found: " + what)
    return int(m.group(1))


def _impl_block(src, header):
    """text of `impl <header> {...}` (brace matched), whitespace removed; None if absent or not unique"""
    ms = list(re.finditer(r"\bimpl\s+" + header + r"\s*\{", src))
    if len(ms) != 1:
        return None
    i = ms[0].end() - 1
    depth = 0
    for j in range(i, len(src)):
        if src[j] == "{":
            depth += 1
        elif src[j] == "}":
            depth -= 1
            if depth == 0:
                return re.sub(r"\s+", "", re.sub(r"//[^\n]*", "", src[i : j + 1]))
    return None


def real_order_exact():
    """src/real.rs: Ord for Real is exactly the order of the inner f64 through partial_cmp (panic on NaN), PartialOrd
    delegates to it, PartialEq is derived on the one-field struct; no tolerance anywhere.  Fails closed."""
    src = read("src/real.rs")
    o = _impl_block(src, r"Ord\s+for\s+Real")
    po = _impl_block(src, r"PartialOrd\s+for\s+Real")
    return (
        o == '{fncmp(&self,other:&Real)->Ordering{self.0.partial_cmp(&other.0).expect("cannotcomparewithNaN")}}'
        and po == "{fnpartial_cmp(&self,other:&Real)->Option<Ordering>{Some(self.cmp(other))}}"
        and re.search(r"#\[derive\(PartialEq,\s*Copy,\s*Clone,\s*Default\)\]\s*pub\s+struct\s+Real\(f64\);", src) is not None
        and re.search(r"impl\s+PartialEq\b[^{]*\bfor\s+Real\b", src) is None
        and _impl_block(src, r"Eq\s+for\s+Real") == "{}"
    )


# ------------------------------------------------- C12: literals of greedy.rs and kk.rs
def gen_greedy_kk():
    out = HEADER.format(src="src/algorithms/greedy.rs, src/algorithms/kk.rs")
    g = read("src/algorithms/greedy.rs")
    body = fn_body(g, "greedy")
    if body is None:
        raise Fail("fn greedy not found")
    # `if part_count < N { partition.fill(0); return Ok(()) }`
    out += "Definition greedy_trivial_below : nat := %d.\n" % _num(
        r"if\s+part_count\s*<\s*(\d+)\s*\{\s*partition\.fill\(0\)", body, "greedy: part_count < N => fill(0)")
    # the scan runs over the ascending sort in reverse
    out += "Definition greedy_scan_descending : bool := %s.\n" % coq_bool(
        re.search(r"sort_unstable_by\(crate::partial_cmp\)", body) is not None
        and re.search(r"for\s*\(weight,\s*weight_id\)\s*in\s*weights\.into_iter\(\)\.rev\(\)", body) is not None)
    # min_by with the never-Equal comparator (ties go to the later part)
    out += "Definition greedy_min_by_partial_cmp : bool := %s.\n" % coq_bool(
        re.search(r"\.min_by\(\|[^|]*\|\s*\{\s*crate::partial_cmp\(part_weight0,\s*part_weight1\)", body) is not None)
    k = read("src/algorithms/kk.rs")
    m = re.search(r"if\s+self\.part_count\s*<\s*(\d+)\s*\|\|\s*part_ids\.len\(\)\s*<\s*(\d+)\s*\{\s*part_ids\.fill\(0\)", k)
    if not m:
        raise Fail("kk: trivial-partition guard not found")
    out += "Definition kk_trivial_parts_below : nat := %s.\n" % m.group(1)
    out += "Definition kk_trivial_len_below : nat := %s.\n" % m.group(2)
    out += "Definition kk_bipart_when : nat := %d.\n" % _num(
        r"if\s+self\.part_count\s*==\s*(\d+)\s*\{[^}]*kk_bipart\(", k, "kk: part_count == N => kk_bipart")
    b2 = fn_body(k, "kk_bipart")
    bk = fn_body(k, "kk")
    if b2 is None or bk is None:
        raise Fail("fn kk_bipart / fn kk not found")
    out += "Definition kk2_difference : bool := %s.\n" % coq_bool(
        re.search(r"weights\.push\(\(a_weight\s*-\s*b_weight,\s*a_id\)\)", b2) is not None)
    out += "Definition kk2_flip : bool := %s.\n" % coq_bool(
        re.search(r"partition\[b\]\s*=\s*1\s*-\s*partition\[a\]", b2) is not None
        and re.search(r"partition\[last_diff\]\s*=\s*0", b2) is not None)
    out += "Definition kk_pairs_reversed : nat := %d.\n" % len(re.findall(r"\.zip\(b\.iter\(\)\.rev\(\)\)", bk))
    out += "Definition kk_sort_descending : bool := %s.\n" % coq_bool(
        re.search(r"e\.sort_unstable_by\(\|ei,\s*ej\|\s*T::cmp\(&ej\.0,\s*&ei\.0\)\)", bk) is not None)
    out += "Definition kk_subtract_last : bool := %s.\n" % coq_bool(
        re.search(r"let\s+emin\s*=\s*e\[e\.len\(\)\s*-\s*1\]\.0", bk) is not None
        and re.search(r"ei\.0\s*-=\s*emin", bk) is not None)
    out += "Definition kk_copy_part : bool := %s.\n" % coq_bool(
        re.search(r"parts\[b\]\s*=\s*parts\[a\]", bk) is not None
        and re.search(r"parts\[w\.1\]\s*=\s*i", bk) is not None)
    # coupe::Real, the Ord float wrapper these algorithms accept as a weight type
    out += "Definition real_order_exact : bool := %s.\n" % coq_bool(real_order_exact())
    return out


GENERATORS = {"GreedyKkGen.v": gen_greedy_kk}

PROP = dict(
    bin="c12",
    run_targets=["Run/RunC12.vo"],
    prop_targets=["Properties/C12.vo"],
    cases=dict(quick=5000, thorough=30000),
    level="proof",
    rule="each case = algorithm (Greedy | KarmarkarKarp) x weight family (small alphabet, random, ties, one dominant, "
         "zeros, all equal, tiny incl. empty, large values up to 2^40, two values, powers of two, one negative weight) "
         "x part count (mostly 2..8; also 0, 1, 9..12, more parts than elements) + a mid-size family (1 single case in 30: "
         "Greedy 64..300 weights on 2..64 parts, KarmarkarKarp 30..100 weights on 2..12 parts) x a malformed stream (partition array "
         "shorter/longer/empty); half of the Greedy cases are run a second time with f64 weights holding the same "
         "integers; plus a REUSE stream (about a third of the cases): one Greedy / KarmarkarKarp VALUE serves a sequence of "
         "2-4 calls (fewer weights than parts first, then more; other lengths; the previous output, resized with garbage, "
         "as the dirty buffer; i64 or f64 weights), each call being a case judged by the checker and compared with the model "
         "run on that call's input with the ORIGINAL part count; plus a SCALE family (1 unit in 6): the integer families times 2^s, s in {subnormal -1070..-1064, "
         "-1000, -300, -70, -53, -52, -10, 0, 10, 52, 300, 900} -- every value, sum and difference exact, so the integer model "
         "must be matched partition for partition -- through coupe::Real (KarmarkarKarp, Greedy) and plain f64 (Greedy, both "
         "types on every Greedy case); 1 in 8 of them with a scale that is not a power of two (1e-21, 1e-300): Greedy compared "
         "with the binary64 model, KarmarkarKarp judged by the checker only (exact arithmetic, gap <= max + total/2^45); "
         "plus a GENUINE-f64 stream (1 unit in 5, Greedy only): "
         "tenths, thirds, mixed magnitudes 1e-12..1e12, random mantissas, ties between rounded sums (0.1+0.2 vs 0.3), one "
         "dominant 1e15, subnormals, and a negative / -0.0 family (outside the contract), passed as bit patterns and "
         "compared bit-for-bit with the binary64 (SpecFloat) instance of the generic model, judged by replaying LPT in "
         "rounded arithmetic; distinct = distinct (algorithm, weights, part count, "
         "partition length / buffer); non-trivial = matching "
         "lengths, at least 2 parts, at least 3 weights, not all weights zero",
    class_names={0: "Ok (exact partition compared)", 1: "InputLenMismatch", 2: "other error", 3: "panic", 4: "hang",
                 5: "Ok (k-way KK: loads compared; partition also identical)",
                 6: "Ok (k-way KK: loads compared; partition differs)",
                 7: "Ok (k-way KK, more than 20 parts: checker only; partition identical)",
                 8: "Ok (k-way KK, more than 20 parts: checker only; partition differs)",
                 10: "Ok (KarmarkarKarp through coupe::Real, inexactly scaled weights: checker only, exact arithmetic with tolerance)",
                 9: "Ok (Greedy, genuine f64 weights: compared bit-for-bit, LPT replayed in rounded arithmetic)"},
    trusted_base=[
        "axioms: none for every theorem of Properties/C12.v except C12_f64_add_closed, C12_greedy_is_lpt_f64 and "
        "C12_greedy_total_f64, which go through Flocq's real-number semantics of binary64 and depend on the standard axioms "
        "of Coq's classical reals (ClassicalDedekindReals.sig_forall_dec, ClassicalDedekindReals.sig_not_dec, "
        "FunctionalExtensionality.functional_extensionality_dep, Classical_Prop.classic); Flocq 4.1 is trusted as a library",
        "modelled, not verified: i64 overflow of part loads / row sums (contract: sums do not overflow); allocation of "
        "`part_count` loads (Greedy) or `part_count * n` virtual ids (KarmarkarKarp)",
        "std BinaryHeap on pairwise distinct elements of a total order pops in descending order (modelled as a sorted list); "
        "sort_unstable_by(partial_cmp) on (weight, index) pairs with distinct indices returns THE sorted vector",
        "Iterator::min_by = reduce keeping the accumulator unless the comparator answers Greater (std source)",
        "k-way KarmarkarKarp: the tie order of `e.sort_unstable_by` is unspecified; the theorems hold for every weight-descending "
        "permutation, the executed instance is the stable insertion sort (what std runs on slices of at most 20 elements) and "
        "the correspondence compares sorted part loads for 3..20 parts (classes 5/6 record whether the partitions were also "
        "identical); with more than 20 parts ties do come out differently, only the certified checker judges (classes 7/8)",
    ],
    assumptions=[
        "weights are non-negative (i64, or f64: finite, not NaN, not -0.0) and their sums do not overflow; part count >= 1",
        "f64: the Greedy property is read in ROUNDED arithmetic -- the loads are those accumulated by the code's own sequence "
        "of additions (weights in non-increasing order); loads recomputed in another order or exactly may differ in the last bits",
        "f64: Coq's SpecFloat SFadd / SFltb / SFeqb at (53,1024) are the CPU's binary64 +, <, == (validated bit-for-bit on every "
        "genuine-f64 case); the closure law of the f64 theorem -- the rounded sum of two non-negative numbers is a "
        "non-negative number, never NaN, never -0.0, possibly +infinity -- is PROVED for SpecFloat through Flocq "
        "(C12_f64_add_closed), so C12_greedy_is_lpt_f64 has no premise about the arithmetic; -0.0 weights stay outside",
    ],
)

MANIFEST = dict(
    text="Greedy: theorem C12_greedy_is_lpt proves, for ALL weight vectors, part counts >= 2 and initial arrays, that the loads "
         "written by a line-by-line Gallina model of greedy.rs (sort of (weight,index) pairs, descending scan, min_by with the "
         "never-Equal comparator = last lightest part) are an LPT run on the non-increasingly sorted weights and equal, as a "
         "multiset, the result of EVERY LPT run (C12_lpt_choice_independent: the multiset does not depend on which lightest part "
         "is chosen), every id is below the part count, no panic. KarmarkarKarp: C12_kk proves for every weight-descending sort "
         "of the merged rows (tie oracle), all non-negative weights and k >= 1 that the entry point returns Ok with ids < k, "
         "max load - min load <= largest weight (k >= 2) and, for k = 2, |load0 - load1| = the differencing residue "
         "(C12_kk2_residue: signed, any integer weights). Models are compared with the implementation on generated inputs "
         "(exact partitions; sorted loads for k-way KK) and checkers proved equivalent to the property judge every output; "
         "the literals the models hard-code are re-read from the source on every run (C12_source_literals). Greedy is also "
         "modelled over an abstract weight arithmetic (zero, +, <, ==; order laws only, no associativity): "
         "C12_greedy_is_lpt_generic proves the LPT statement for the code's own sequence of rounded additions, instantiated "
         "for Z and for binary64 (order laws and closure of + proved for SpecFloat, the latter through Flocq); genuine f64 inputs are "
         "compared bit-for-bit with the SpecFloat instance.",
    design_ref="DESIGN.md §7 C12",
    note="Trusted: Coq kernel; model<->code tie = translator (13 literals, incl. the order of coupe::Real in src/real.rs) + differential runs (5k/30k cases, i64 and f64); "
         "BinaryHeap/sort/min_by library contracts as listed; no axioms.",
    technique="Coq proof (potential-function invariants over the differencing steps and their back-tracking; permutation "
              "invariance of LPT) + translator + model/implementation correspondence + certified checkers",
)

"""C12 -- Greedy is LPT scheduling; KarmarkarKarp is the differencing method."""

GENERATORS = {}

PROP = dict(
    bin="c12",
    run_targets=["Run/RunC12.vo"],
    prop_targets=["Properties/C12.vo"],
    cases=dict(quick=3000, thorough=40000),
    level="proof",
    rule="TODO",
    class_names={0: "Ok (exact partition compared)", 1: "InputLenMismatch", 2: "other error", 3: "panic", 4: "hang",
                 5: "Ok (k-way KK: loads compared; partition also identical)",
                 6: "Ok (k-way KK: loads compared; partition differs)"},
    trusted_base=[],
    assumptions=[],
)

MANIFEST = dict(
    text="TODO",
    design_ref="DESIGN.md §7 C12",
    note="TODO",
    technique="Coq proof + model/implementation correspondence + certified checker",
)

"""C18 -- the tools' dual graph matches its definition; element counts agree."""
import os, re, sys
sys.path.insert(0, os.path.dirname(os.path.dirname(os.path.abspath(__file__))))
from translate_lib import read, fn_body, Fail, HEADER


# ---------------------------------------------------------------- C18: mesh-io element tables
def _match_arms(body, what):
    """`match self { A | B => 2, C => 3, }` -> {variant: int}; every arm must be a literal."""
    m = re.search(r"match\s+self\s*\{(.*)\}", body, re.S)
    if not m:
        raise Fail("%s: `match self` not found" % what)
    arms = {}
    text = re.sub(r"//[^\n]*", "", m.group(1))
    for arm in re.finditer(r"((?:ElementType::\w+\s*\|?\s*)+)=>\s*([^,}]+)[,}]", text):
        pats = re.findall(r"ElementType::(\w+)", arm.group(1))
        val = arm.group(2).strip()
        if not re.fullmatch(r"\d+", val):
            raise Fail("%s: arm `%s` is not an integer literal (%r)" % (what, "|".join(pats), val))
        for p in pats:
            if p in arms:
                raise Fail("%s: variant %s matched twice" % (what, p))
            arms[p] = int(val)
    if re.search(r"\b_\s*=>", text):
        raise Fail("%s: wildcard arm (the table must be explicit)" % what)
    return arms


def _squish(src):
    """Source text without comments and without any whitespace (rustfmt-insensitive)."""
    src = re.sub(r"/\*.*?\*/", "", src, flags=re.S)
    src = re.sub(r"//[^\n]*", "", src)
    return re.sub(r"\s+", "", src)


def _braced(text, i):
    """text[i] == '{': the text between it and its matching '}', or None."""
    depth = 0
    for j in range(i, len(text)):
        if text[j] == "{":
            depth += 1
        elif text[j] == "}":
            depth -= 1
            if depth == 0:
                return text[i + 1 : j]
    return None


_FILTER = (r"\.filter\(\|e2\|\{e1!=\*e2&&\{lete2_nodes=element_to_nodes\(\*e2\);"
           r"letnodes_in_common=e1_nodes\.iter\(\)\.filter\(\|e1_node\|e2_nodes\.contains\(e1_node\)\)\.count\(\);"
           r"dimension(?:<=|<)nodes_in_common\}\}\)")
_ROW = re.compile(
    r"letmutneighbors(?::Vec<usize>)?="
    # candidates: every element listed under every node of e1, no truncation
    r"e1_nodes\.iter\(\)\.flat_map\(\|node\|&node_to_elements\[\*node\]\)\.(?:cloned|copied)\(\)"
    r"(?P<filter>(?:" + _FILTER + r")?)"
    r"\.collect(?:::<Vec<(?:usize|_)>>)?\(\);"
    r"(?P<post>(?:neighbors\.(?:sort_unstable|sort|dedup)\(\);)*)"
    r"letptr=&indice_locks\[e1\]as\*constVec<usize>as\*mutVec<usize>;"
    r"unsafe\{ptr\.write\(neighbors\);?\};?")
_INDEX = re.compile(
    r"letmutnode_to_elements=vec!\[Vec::new\(\);mesh\.node_count\(\)\];"
    r"for\(e,nodes\)inelements\(\)\{fornodeinnodes\{"
    r"letnode_elements=&mutnode_to_elements\[\*node\];"
    r"(?:ifnode_elements\.is_empty\(\)\{node_elements\.reserve\([\w:]+\);\})?"
    r"ifletErr\(idx\)=node_elements\.binary_search\(&e\)\{node_elements\.insert\(idx,e\);\}"
    r"\}\}")


def row_pipeline(dual_body):
    """The per-element closure of `dual`, fingerprinted: candidates = flat_map over
    `node_to_elements[*node]` for the nodes of e1 (nothing bounded: no buffer, no zip, no take),
    then the steps filter / sort / dedup in the order they are written.  Returns the list of steps;
    anything else in the closure is unrecognised -> Fail."""
    sq = _squish(dual_body)
    if not _INDEX.search(sq):
        raise Fail("dual: the loop building node_to_elements (binary_search + insert per node of each element) was not recognised")
    k = sq.find(".for_each(|(e1_nodes,e1)|{")
    if k < 0:
        raise Fail("dual: the per-element closure `.for_each(|(e1_nodes, e1)| {..})` was not found")
    body = _braced(sq, sq.index("{", k))
    if body is None:
        raise Fail("dual: unbalanced braces in the per-element closure")
    m = _ROW.fullmatch(body)
    if not m:
        raise Fail("dual: the neighbour pipeline of the per-element closure was not recognised (expected: "
                   "e1_nodes.iter().flat_map(|node| &node_to_elements[*node]).cloned()[.filter(e1 != e2 && shared-node test)]"
                   ".collect(); then neighbors.sort_unstable()/dedup() statements; then the write into indice_locks[e1]) -- "
                   "found: %s" % body[:160])
    steps = ["RFilter"] if m.group("filter") else []
    for st in re.findall(r"neighbors\.(\w+)\(\);", m.group("post")):
        steps.append("RDedup" if st == "dedup" else "RSort")
    return steps


def gen_mesh_tables():
    rel = "tools/mesh-io/src/lib.rs"
    src = read(rel)
    m = re.search(r"pub\s+enum\s+ElementType\s*\{([^}]*)\}", src)
    if not m:
        raise Fail("enum ElementType not found")
    variants = [v for v in re.findall(r"\b([A-Z]\w*)\b", re.sub(r"//[^\n]*", "", m.group(1)))]
    if not variants or len(set(variants)) != len(variants):
        raise Fail("cannot read the variants of ElementType")
    if "(" in m.group(1) or "{" in m.group(1):
        raise Fail("ElementType has a non-unit variant")
    tables = {}
    for fn in ("dimension", "node_count"):
        # the first `fn dimension` / `fn node_count` after `impl ElementType {`
        i = src.find("impl ElementType")
        if i < 0:
            raise Fail("impl ElementType not found")
        body = fn_body(src[i:], fn)
        if body is None:
            raise Fail("fn ElementType::%s not found" % fn)
        arms = _match_arms(body, fn)
        if set(arms) != set(variants):
            raise Fail("%s: arms %s do not cover the variants %s exactly" % (fn, sorted(arms), sorted(variants)))
        tables[fn] = arms
    if "Edge" not in variants:
        raise Fail("variant Edge not found (dual/barycentres test `el_type == ElementType::Edge`)")

    # MEDIT binary codes: medit/mod.rs `mod code { pub const X: i64 = n; }`, serializer's `fn code`
    medit = {}
    try:
        mod = read("tools/mesh-io/src/medit/mod.rs")
        consts = {k: int(v) for k, v in re.findall(r"pub\s+const\s+(\w+)\s*:\s*i64\s*=\s*(\d+)\s*;", mod)}
        ser = read("tools/mesh-io/src/medit/serializer.rs")
        cbody = fn_body(ser, "code")
        if cbody is None:
            raise Fail("serializer: fn ElementType::code not found")
        for arm in re.finditer(r"((?:ElementType::\w+\s*\|?\s*)+)=>\s*code::(\w+)", cbody):
            for p in re.findall(r"ElementType::(\w+)", arm.group(1)):
                medit[p] = consts[arm.group(2)]
    except (OSError, KeyError):
        medit = {}
    if set(medit) != set(variants):
        raise Fail("MEDIT codes: serializer arms %s do not cover the variants %s" % (sorted(medit), sorted(variants)))

    # which clause tools/src/lib.rs uses to drop elements (dual and barycentres): read, not assumed
    tools = read("tools/src/lib.rs")
    dual = fn_body(tools, "dual")
    bary = fn_body(tools, "barycentres")
    used = fn_body(tools, "used_element_count")
    if dual is None or bary is None or used is None:
        raise Fail("fn dual / barycentres / used_element_count not found in tools/src/lib.rs")
    sq = lambda s: re.sub(r"\s+", "", s)
    dual_edge = "el_type.dimension()!=dimension||el_type==ElementType::Edge" in sq(dual)
    bary_edge = "element_type.dimension()!=element_dim||element_type==ElementType::Edge" in sq(bary)
    used_edge = "ElementType::Edge" in used
    if "el_type.dimension()!=dimension" not in sq(dual):
        raise Fail("dual: the `ignored_element` clause was not recognised")
    if "element_type.dimension()!=element_dim" not in sq(bary):
        raise Fail("barycentres: the filter clause was not recognised")
    if "element_type.dimension()==element_dim" not in sq(used):
        raise Fail("used_element_count: the filter clause was not recognised")
    mcmp = re.search(r"(\w+)\s*(<=|<|>=|>|==)\s*nodes_in_common", dual)
    if not mcmp or mcmp.group(1) != "dimension":
        raise Fail("dual: the comparison `dimension <= nodes_in_common` was not recognised")
    cmp_le = mcmp.group(2) == "<="
    steps = row_pipeline(dual)

    out = HEADER.format(src=rel + ", tools/mesh-io/src/medit/{mod,serializer}.rs, tools/src/lib.rs")
    out += "Inductive etype : Set := %s.\n" % " | ".join(variants)
    out += "Definition all_etypes : list etype := (%s :: nil)%%list.\n" % " :: ".join(variants)
    for fn, name in (("dimension", "et_dimension"), ("node_count", "et_node_count")):
        out += "Definition %s (t : etype) : nat :=\n  match t with\n" % name
        for v in variants:
            out += "  | %s => %d\n" % (v, tables[fn][v])
        out += "  end.\n"
    out += "Definition et_medit_code (t : etype) : nat :=\n  match t with\n"
    for v in variants:
        out += "  | %s => %d\n" % (v, medit[v])
    out += "  end.\n"
    out += "Definition etype_eqb (a b : etype) : bool :=\n  match a, b with\n"
    for v in variants:
        out += "  | %s, %s => true\n" % (v, v)
    out += "  | _, _ => false\n  end.\n"
    out += "(* clauses of tools/src/lib.rs as they read now *)\n"
    out += "Definition dual_drops_edges : bool := %s.\n" % ("true" if dual_edge else "false")
    out += "Definition barycentres_drops_edges : bool := %s.\n" % ("true" if bary_edge else "false")
    out += "Definition used_count_drops_edges : bool := %s.\n" % ("true" if used_edge else "false")
    out += "Definition dual_threshold_is_le : bool := %s.\n" % ("true" if cmp_le else "false")
    out += "(* the per-element closure of `dual`: candidates = flat_map of node_to_elements over the nodes of e1\n"
    out += "   (recognised, nothing bounded), then these steps in this order *)\n"
    out += "Inductive row_step : Set := RFilter | RSort | RDedup.\n"
    out += "Definition dual_row_steps : list row_step := (%s)%%list.\n" % " :: ".join(steps + ["nil"])
    return out


GENERATORS = {"MeshTables.v": gen_mesh_tables}


PROP = dict(
    bin="c18",
    run_targets=["Run/RunC18.vo"],
    prop_targets=["Properties/C18.vo"],
    cases=dict(quick=1500, thorough=12000),
    level="proof",
    release_too=True,
    rule="meshes drawn from 13 families (high-valence meshes -- closed/open fans of 130..300 triangles around a hub node, wheels of 130..200 tetrahedra around an axis edge, hub first/last/anywhere in the node lists, several hubs, mixed with ordinary and lower-dimensional elements: about 1 case in 100 --, random elements over a small node pool, conforming 2-D quad/triangle grids, non-conforming 2-D grids with hanging nodes, conforming 3-D "
         "hexahedron/tetrahedron grids with boundary faces and edges, pairs built to share exactly dim-1/dim/dim+1/all nodes, repeated "
         "node sets, highest dimension 0/1 or no block, an element with a repeated node, a node id out of range, an empty "
         "highest-dimensional block, random mix of all seven element types); blocks in random order, one type possibly split over "
         "several blocks, empty blocks inserted; rayon pool of 1..16 threads per case; distinct = distinct (node count, blocks); "
         "non-trivial = inside the contract (highest dimension 2 or 3, node ids in range, pairwise-distinct nodes in every "
         "highest-dimensional element) with at least 3 such elements and at least 2 blocks",
    class_names={0: "in contract (2-D/3-D, distinct nodes)", 1: "highest dimension 1 (outside the quantifier)",
                 2: "highest dimension 0 or no block (outside)", 3: "node id out of range (outside)",
                 4: "repeated node inside an element (outside)"},
    trusted_base=[
        "axioms: none (every theorem of Properties/C18.v is closed under the global context)",
        "for meshes of the contract with more than 64 highest-dimensional elements the run glue takes the certified checker's verdict as the "
        "correspondence instead of re-running the model (C18_checker_implies_model + C18_model_passes_checker: the two are equivalent there)",
        "modelled, not verified: the unsafe raw-pointer writes `indice_locks[e1] = neighbors` and `copy_nonoverlapping` into "
        "`indices[start..end]` are functional updates at pairwise-distinct indices / consecutive ranges (memory safety is outside this technique)",
    ],
    assumptions=[
        "a Mesh is built by Mesh::from_raw_parts or a parser, so every block's node array is a multiple of its type's node_count (asserted there)",
        "node ids are below the mesh's node count and the nodes of each highest-dimensional element are pairwise distinct (theorem hypotheses; checked per case)",
        "slice::binary_search on a strictly sorted Vec<usize> follows its documented contract (the vectors are proved sorted at every step)",
        "sort_unstable + dedup on usize = the strictly increasing list of the distinct values",
        "rayon's par_iter/par_chunks_exact/zip/for_each call the closure once per (chunk, index) pair; par_iter().chain().collect() preserves order",
        "usize arithmetic does not overflow (element and node counts far below 2^64)",
        "KNOWN, outside the quantifier (recorded, no alarm): for a mesh whose highest dimension is 1, used_element_count counts the edges while "
        "dual and barycentres drop them (harness counters highest_dimension_1 / highest_dimension_1_counts_disagree)",
    ],
)

MANIFEST = dict(
    text="Theorems C18_* proved for ALL meshes whose highest element dimension is 2 or 3 with in-range, pairwise-distinct element nodes, "
         "about a line-by-line Gallina model of tools' dual (block filter, start offsets, element_to_nodes, node->elements index, "
         "candidate/shared-count filter, sort+dedup, per-row writes in any order, CSR assembly, CsMat::new's check), barycentres (count) "
         "and used_element_count: the rows are exactly the brute-force definition, symmetric, irreflexive, strictly sorted, one vertex per "
         "highest-dimensional element, the three counts agree, no panic (in particular no underflow in element_to_nodes). The element tables "
         "(dimension, node_count, MEDIT codes), the filter clauses and the per-element neighbour pipeline (candidates = flat_map of node_to_elements over the nodes of e1 with nothing bounded, then filter/sort/dedup in the written order; the node-index loop) are re-read / fingerprinted from the source on every run, anything unrecognised breaks the obligations; the model is compared with the "
         "implementation (CSR triple exactly, pools 1..16) and a checker proved equivalent to the definition judges every implementation output.",
    design_ref="DESIGN.md §7 C18",
    note="Trusted: Coq kernel; model<->code tie = translator (element tables, filter clauses, threshold comparison, fingerprint of the neighbour pipeline and of the node-index loop) + differential runs "
         "(1.5k / 12k debug + 6k release-profile meshes); unsafe pointer writes modelled as functional updates. No axioms.",
    technique="Coq proof (invariants over the block scan and the node index) + translator + model/implementation correspondence + certified checker",
)

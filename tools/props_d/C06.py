"""C06 -- deterministic partitioners give the same partition for every thread count."""
PROP = dict(
    bin="c06",
    run_targets=["Run/RunC06.vo", "Run/RunKM.vo"],
    extra_bins=[dict(bin="c06km", cases=dict(quick=640, thorough=2000))],
    prop_targets=["Properties/C06.vo"],
    cases=dict(quick=440, thorough=6000),
    level="proof",
    harness_timeout=3000,
    rule="11 entry points in rotation (Rcb/Rib 2D+3D, Hilbert 2D+3D, ZCurve 2D+3D, KMeans, MultiJagged, the tools' dual graph), each "
         "case run under rayon pools 1,2,3,4,8,16 twice (12 runs) on integer-valued coordinates and weights (7 point families, 6 "
         "weight families, random mixed meshes); 3/4 of the inputs of the OBB-based algorithms have a power-of-two point count "
         "(the exact_obb premise); 1/6 of the Rcb/Rib inputs (1/60 of the others) have 8192..20000 points, 2/3 of them with pairwise distinct first coordinates in random order, so that rayon splits Rcb's fold into 2 resp. 4 chunks (large outputs are sent to Coq as differences from the first run); all 12 outputs are "
         "compared in Coq (MultiJagged up to renaming); distinct = distinct case index; non-trivial = at least 4 elements. "
         "K-MEANS MODEL CASES (second binary c06km, 640 / 2000 cases, the cases of c02km): KMeans 2D/3D, every case under pools "
         "1,2,3,4,8,16 twice; on integer-valued inputs the twelve partitions must be identical (this clause) and, when the rotation "
         "matrix is validated and erode is off, equal to the partition of the binary64 model, whose checked run also evaluates the "
         "exactness premise of C06_kmeans_sched_indep (class 102 = no flag)",
    class_names={0: "rcb2", 1: "rcb3", 2: "rib2", 3: "rib3", 4: "hilbert2", 5: "hilbert3", 6: "zcurve2", 7: "zcurve3",
                 8: "kmeans2", 9: "multijagged2", 10: "dual",
                 100: "k-means model cases: not compared with the model (fractional / large / erode / rotation not validated)",
                 101: "k-means model cases: model = implementation, schedule-sensitivity flag raised",
                 102: "k-means model cases: model = implementation, no flag (every schedule of the model gives this partition)"},
    trusted_base=[
        "axioms: C06_hilbert_sched_indep_proved (through C09's f64_add_exact) and the k-means theorems C06_kmeans_sched_indep, "
        "C06_kmeans_sched_indep_int_inputs, C06_kmeans_checked_run, C06_kmeans_f64_sums_exact use Flocq's "
        "Bplus_correct (f64 + is exact on integers below 2^53) and therefore the axioms of Coq's classical real numbers "
        "(ClassicalDedekindReals.sig_forall_dec, ClassicalDedekindReals.sig_not_dec, "
        "FunctionalExtensionality.functional_extensionality_dep, Classical_Prop.classic); every other theorem of Properties/C06.v "
        "is closed under the global context",
        "Flocq 4.1 (through Proofs/KMeansF64Sum.v for the k-means theorems, through C09's SfcFloat proofs for C06_hilbert_sched_indep_proved)",
        "KMeans: whole-algorithm schedule independence of the concrete binary64 model (Model/KMeans.v), given the rotation matrix "
        "(input of the model) and under the exactness flag of the checked run: sums over integers whose absolute values add up "
        "to at most 2^53, max_by / min_by over lists without NaN and without both zeros, bounding box over values other than NaN "
        "and -0.0; the flag is a dynamic premise (evaluated on every correspondence case), erode's HashMap order is the same on "
        "both sides; model = code on final partitions of the sampled runs",
        "rayon: fold/reduce/collect preserve index order and call the closures on the pieces of SOME recursive split of the index "
        "range (the split-tree model of Lib/Rayon.v); par_sort_unstable takes no timing-dependent decision",
        "named float assumption f64_add_exact_on_integers (f64 `+` is exact on non-negative integers with sum <= 2^53; DESIGN §6): "
        "a PREMISE of C06_hilbert_sched_indep (kept, axiom-free) and PROVED in C06_hilbert_sched_indep_proved (C09, Flocq)",
        "the theorems are about the parallel skeletons and about the algorithm models of C18 (dual graph), C16 (part loads), "
        "C03 (Rcb / Rib, whole algorithm), C11 (MultiJagged), C09 (HilbertCurve given the curve indices, ZCurve), derived from "
        "those files' property theorems by name, for every split tree / write order / block decomposition / leaf order; what "
        "real work stealing does over repeated runs is only SAMPLED by this check (partial on 'schedules')",
        "NOT proved: ZCurve beyond 'every sort oracle yields runs of the same cell codes'; MultiJagged in binary64 beyond the "
        "leaf order (whole-algorithm independence is proved at exact arithmetic only) and on inputs with coincident "
        "coordinates its result depends on the sort's tie order (a witness is C11_sort_ties_can_change_the_partition; "
        "rayon's sort being a function of the slice is trusted); KMeans without the dynamic exactness flag (no static "
        "sufficient condition on the input is proved) and with erode; the OBB step (rotation, curve indices, quadrants) of "
        "Rib / HilbertCurve / ZCurve, which is data to the models; Rcb's weights are modelled as exact integers",
        "the harness decides the exactness premise (integer inputs; power-of-two point count for the OBB-based algorithms)",
    ],
    assumptions=[
        "all arithmetic exact: integer-valued coordinates and weights with sums below 2^53",
        "for Rib, HilbertCurve, ZCurve, KMeans additionally a power-of-two number of points (exact centroid); other inputs of these "
        "algorithms fall in the known-finding class obb-inexact-sums",
    ],
)

MANIFEST = dict(
    text="Schedule independence proved for every split tree of the parallel skeletons the partitioners are made of (fold+reduce "
         "with a homomorphic fold, exact integer sums, per-part histograms, min/max, writes to pairwise distinct indices), in "
         "Lib/Rayon.v, and at algorithm level (collected in Properties/C06.v from the property theorems of C18, C16, C11, C09 by name, glue in Proofs/C06Collect.v): the tools' dual "
         "graph is the same for any two orders of its row writes and copies; compute_parts_load / imbalance / sum() for any two "
         "split trees; Rcb / Rib (given the rotated points): the "
         "whole algorithm returns the same ids for any two schedules (exact integer weights); HilbertCurve given the curve "
         "indices: the same result for any two families of split trees when the weights are non-negative integers with total "
         "<= 2^53 (named assumption: f64 + exact on such integers); MultiJagged at exact arithmetic: any two block "
         "decompositions and leaf orders give the same partition up to renaming (whole algorithm), for every arithmetic any "
         "two leaf orders do, and the sort's tie order is irrelevant when no two points share a coordinate (with ties it can "
         "change the partition); ZCurve: every sort oracle yields runs of the same cell codes (partial); KMeans (concrete binary64 model of k_means.rs, "
         "whole algorithm, given the rotation matrix): any two families of split trees give the same partition whenever the checked run "
         "raises no exactness flag (sums of integers below 2^53, comparisons without NaN / mixed zeros), the flag being evaluated on every "
         "case next to the comparison of the model with the implementation's twelve outputs. Each case of the harness runs the real entry point under six pool sizes twice and the exact all-equal "
         "checker (up to renaming for MultiJagged) compares the twelve outputs. Pool-size dependence of the OBB-based algorithms on "
         "inputs whose point count is not a power of two is a known finding (inexact inertia sums).",
    design_ref="DESIGN.md §7 C06",
    note="PARTIAL by construction: theorems quantify over split trees of the model; real work-stealing schedules are sampled "
         "(12 runs per case). Whole-algorithm equality is proved for the dual graph, the load / imbalance functions, Rcb / Rib, "
         "HilbertCurve (given indices), MultiJagged at exact arithmetic and KMeans (binary64, given the rotation, under a dynamic exactness "
         "flag); ZCurve and MultiJagged in binary64 remain partial (named _partial).",
    technique="Coq proof (split-tree skeleton theorems) + all-equal checker on implementation runs across pool sizes and repetitions",
)

"""C06 -- deterministic partitioners give the same partition for every thread count."""
PROP = dict(
    bin="c06",
    run_targets=["Run/RunC06.vo"],
    prop_targets=["Properties/C06.vo"],
    cases=dict(quick=440, thorough=6000),
    level="proof",
    harness_timeout=3000,
    rule="11 entry points in rotation (Rcb/Rib 2D+3D, Hilbert 2D+3D, ZCurve 2D+3D, KMeans, MultiJagged, the tools' dual graph), each "
         "case run under rayon pools 1,2,3,4,8,16 twice (12 runs) on integer-valued coordinates and weights (7 point families, 6 "
         "weight families, random mixed meshes); 3/4 of the inputs of the OBB-based algorithms have a power-of-two point count "
         "(the exact_obb premise); 1/6 of the Rcb/Rib inputs (1/60 of the others) have 8192..20000 points, 2/3 of them with pairwise distinct first coordinates in random order, so that rayon splits Rcb's fold into 2 resp. 4 chunks (large outputs are sent to Coq as differences from the first run); all 12 outputs are "
         "compared in Coq (MultiJagged up to renaming); distinct = distinct case index; non-trivial = at least 4 elements",
    class_names={0: "rcb2", 1: "rcb3", 2: "rib2", 3: "rib3", 4: "hilbert2", 5: "hilbert3", 6: "zcurve2", 7: "zcurve3",
                 8: "kmeans2", 9: "multijagged2", 10: "dual"},
    trusted_base=[
        "axioms: none (every theorem of Properties/C06.v is closed under the global context)",
        "rayon: fold/reduce/collect preserve index order and call the closures on the pieces of SOME recursive split of the index "
        "range (the split-tree model of Lib/Rayon.v); par_sort_unstable takes no timing-dependent decision",
        "the theorems are about the parallel skeletons and about the algorithm models of C18 (dual graph), C16 (part loads), "
        "C11 (MultiJagged), C04 (Rcb's split fold), C09 (ZCurve, HilbertCurve), for every split tree / write order / sort "
        "oracle; what real work stealing does over repeated runs is only SAMPLED by this check (partial on 'schedules')",
        "NOT proved: `forall s1 s2, alg s1 x = alg s2 x` for the whole of Rcb, Rib, HilbertCurve, ZCurve, KMeans, MultiJagged "
        "(the _partial theorems of Properties/C06.v say which construct of each they cover); Rcb's weights are modelled as "
        "exact integers; MultiJagged's block independence is proved at exact arithmetic for one call of "
        "compute_split_positions; ZCurve's quadrant function and Hilbert's curve indices are data",
        "the harness decides the exactness premise (integer inputs; power-of-two point count for the OBB-based algorithms)",
    ],
    assumptions=[
        "all arithmetic exact: integer-valued coordinates and weights with sums below 2^53",
        "for Rib, HilbertCurve, ZCurve, KMeans additionally a power-of-two number of points (exact centroid); other inputs of these "
        "algorithms fall in the known-finding class obb-inexact-sums",
    ],
)

MANIFEST = dict(
    text="Schedule independence proved for every split tree of the parallel skeletons the partitioners are made of (fold+reduce "
         "with a homomorphic fold, exact integer sums, per-part histograms, min/max, writes to pairwise distinct indices), in "
         "Lib/Rayon.v, and at algorithm level (collected in Properties/C06.v from the property theorems of C18, C16, C11, C09 by name, glue in Proofs/C06Collect.v): the tools' dual "
         "graph is the same for any two orders of its row writes and copies; compute_parts_load / imbalance / sum() for any two "
         "split trees; MultiJagged: any two leaf orders give the same partition up to renaming, block decomposition of the scan "
         "irrelevant at exact arithmetic (partial); Rcb/Rib: for any two split trees the split fold returns the exact left "
         "weight and a pivot of minimal coordinate on the right, so the pivot value and the split sets do not depend on the tree "
         "(partial: not lifted to the whole recursion; a place is reserved for the rcb_sched_indep theorem announced by the C03/C04 development); ZCurve: every sort oracle yields runs of the same cell codes (partial); "
         "HilbertCurve: ids total and monotone for every split vector (partial). Each case of the harness runs the real entry point under six pool sizes twice and the exact all-equal "
         "checker (up to renaming for MultiJagged) compares the twelve outputs. Pool-size dependence of the OBB-based algorithms on "
         "inputs whose point count is not a power of two is a known finding (inexact inertia sums).",
    design_ref="DESIGN.md §7 C06",
    note="PARTIAL by construction: theorems quantify over split trees of the model; real work-stealing schedules are sampled "
         "(12 runs per case). Whole-algorithm equality `alg s1 x = alg s2 x` is proved only for the dual graph and the load / "
         "imbalance functions; for the partitioners the collected theorems are partial (named _partial).",
    technique="Coq proof (split-tree skeleton theorems) + all-equal checker on implementation runs across pool sizes and repetitions",
)

"""C02 -- partition-improving algorithms keep a valid partition valid."""
PROP = dict(
    bin="c02",
    run_targets=["Run/RunC02.vo"],
    prop_targets=["Properties/C02.vo"],
    cases=dict(quick=3500, thorough=40000),
    level="proof",
    rule="7 entry points in rotation (VnBest, VnFirst, KMeans 2D/3D, FiducciaMattheyses, KernighanLin, ArcSwap) x valid initial "
         "partitions with 1..8 parts (two-way algorithms: 1..2; one-sided and unbalanced included) x 6 weight families x 8 point "
         "families x 6 graph families (random, grid, path, star, disconnected, cycle) x parameter choices (pass/move limits incl. "
         "0 and None, imbalance caps, k-means iteration limits) x rayon pool in {1,2,3,4,8,16}; distinct = distinct (algorithm, "
         "pool, parameters, input); non-trivial = at least 3 elements and 2 parts",
    class_names={0: "vnbest", 1: "vnfirst", 2: "kmeans2", 3: "kmeans3", 4: "fm", 5: "kl", 6: "arcswap"},
    trusted_base=[
        "axioms: none",
        "KMeans: only an ABSTRACT model (the numeric core is an oracle); its arithmetic is not verified",
        "the per-algorithm theorems for VnBest/VnFirst/FM/KL/ArcSwap are about the models of C14/C07/C15/C05 and are tied to the code by "
        "those checks; this check itself runs the implementation only (panic / hang / length / id bound)",
        "the harness generates valid input partitions (every id from 0 to the maximum used) and computes the id bound",
        "hang = no answer within the 90 s watchdog",
    ],
    assumptions=[
        "usage contract as stated in the property: valid input partition, matching lengths, non-negative weights, symmetric graphs "
        "with positive integer edge weights",
        "rayon pool sizes sampled from {1,2,3,4,8,16}",
    ],
)

MANIFEST = dict(
    text="Validity theorems per improving algorithm, proved about the Gallina models (collected in Properties/C02.v; k-means only "
         "through an abstract model whose numeric core is an arbitrary oracle: for EVERY oracle the output keeps its length and uses "
         "only ids of the input), plus a run of all six algorithms on valid partitions under six pool sizes with overflow checks and "
         "debug assertions on, every output judged by the exact validity checker; panics and hangs are violations. KernighanLin on more "
         "than two parts is a known finding (unimplemented!).",
    design_ref="DESIGN.md §7 C02",
    note="PARTIAL for KMeans (oracle model). This check does not evaluate a model per case; the models are compared in C05/C07/C14/C15.",
    technique="Coq proof (per-algorithm validity theorems; abstract oracle model for k-means) + certified validity checker on implementation runs",
)

"""C02 -- partition-improving algorithms keep a valid partition valid."""
PROP = dict(
    bin="c02",
    run_targets=["Run/RunC02.vo", "Run/RunKM.vo"],
    extra_bins=[dict(bin="c02km", cases=dict(quick=640, thorough=3200))],
    prop_targets=["Properties/C02.vo"],
    cases=dict(quick=3500, thorough=40000),
    level="proof",
    release_quick=3,
    rule="7 entry points in rotation (VnBest, VnFirst, KMeans 2D/3D, FiducciaMattheyses, KernighanLin, ArcSwap) x valid initial "
         "partitions with 1..8 parts (two-way algorithms: 1..2; one-sided and unbalanced included) x 6 weight families x 8 point "
         "families x 6 graph families (random, grid, path, star, disconnected, cycle) x parameter choices (pass/move limits incl. "
         "0 and None, imbalance caps, k-means iteration limits) x rayon pool in {1,2,3,4,8,16}; distinct = distinct (algorithm, "
         "pool, parameters, input); non-trivial = at least 3 elements and 2 parts",
    class_names={0: "vnbest", 1: "vnfirst", 2: "kmeans2", 3: "kmeans3", 4: "fm", 5: "kl", 6: "arcswap"},
    trusted_base=[
        "axioms: C02_arcswap_partial (ArcSwap with the f64 share the code computes) imports C05's Flocq-based theorem that the "
        "f64 share is the exact quotient below 2^53 and therefore uses the axioms of Coq's classical real numbers "
        "(ClassicalDedekindReals.sig_forall_dec, ClassicalDedekindReals.sig_not_dec, "
        "FunctionalExtensionality.functional_extensionality_dep, Classical_Prop.classic); every other theorem of "
        "Properties/C02.v, C02_arcswap_exact_share_partial included, is closed under the global context",
        "Flocq 4.1 (through Proofs/ArcSwapShare.v, for C02_arcswap_partial only)",
        "KMeans: only an ABSTRACT model (the numeric core is an oracle); its arithmetic is not verified",
        "the per-algorithm theorems for VnBest/VnFirst/FM/KL/ArcSwap are derived from the property theorems of Properties/C14, C07, C15, C05 "
        "(by name; Proofs/C02Collect.v; KL at the flags of Gen/KlGen.v, for either edge_cut function) and are tied to the code by those checks; this check itself runs the implementation only (panic / hang / "
        "length / id bound)",
        "ArcSwap: the machine of Model/ArcSwap.v interleaves single shared-memory accesses (sequential consistency: the "
        "schedules the property quantifies over); no-panic / no-deadlock / termination / completion are proved for the share "
        "the code computes in f64 when |cap| + total vertex weight < 2^53 (C02_arcswap_partial) and for the exact share "
        "without bound (C02_arcswap_exact_share_partial); integer i64 weights",
        "FM: every theorem quantifies over all oracles (iteration order of the gain buckets); the weight cap must convert to i64",
        "NOT proved: KernighanLin on three or more part ids (the code reaches unimplemented!: open known finding, the theorem "
        "C02_kl_two_parts_partial covers at most two ids); ArcSwap on a one-part input is only bounded by id <= 1",
        "the harness generates valid input partitions (every id from 0 to the maximum used) and computes the id bound",
        "hang = no answer within the 90 s watchdog",
    ],
    assumptions=[
        "usage contract as stated in the property: valid input partition, matching lengths, non-negative weights, symmetric graphs "
        "with positive integer edge weights",
        "rayon pool sizes sampled from {1,2,3,4,8,16}",
    ],
)

MANIFEST = dict(
    text="One theorem per improving algorithm, about that algorithm's Gallina model, collected in Properties/C02.v from the property "
         "theorems of C14, C07, C15, C05 (by name; glue in Proofs/C02Collect.v): under the contract the model returns Ok (no panic, no fuel exhaustion), the "
         "array keeps its length and no id exceeds the input's maximum -- VnBest, VnFirst (full), FiducciaMattheyses (every "
         "bucket-order oracle: no panic, terminates within initial cut + 2 passes, completed runs stay in {0,1}; an accepted "
         "oracle exists), KernighanLin (PARTIAL: at most two part ids; labels only permuted), ArcSwap (every reachable state "
         "under every schedule: length kept, ids below part_count; PARTIAL no-panic / no-deadlock / well-founded stepping / "
         "completion for the f64 share of the code when |cap| + total weight < 2^53 -- classical-reals axioms -- and for the "
         "exact share without bound); k-means only through an abstract model whose "
         "numeric core is an arbitrary oracle (for EVERY oracle the output keeps its length and uses only ids of the input). "
         "Plus a run of all six algorithms on valid partitions under six pool sizes with overflow checks and debug assertions "
         "on, every output judged by the exact validity checker; panics and hangs are violations. KernighanLin on more than "
         "two parts is a known finding (unimplemented!).",
    design_ref="DESIGN.md §7 C02",
    note="PARTIAL for KMeans (oracle model), KernighanLin (two part ids) and ArcSwap's no-hang clause (weights below 2^53 for the code's f64 share). This "
         "check does not evaluate a model per case; the models are compared in C05/C07/C14/C15.",
    technique="Coq proof (per-algorithm validity theorems; abstract oracle model for k-means) + certified validity checker on implementation runs",
)

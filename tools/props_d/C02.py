"""C02 -- partition-improving algorithms keep a valid partition valid."""
import os, re, struct, sys
sys.path.insert(0, os.path.dirname(os.path.dirname(os.path.abspath(__file__))))
from translate_lib import read, fn_body, Fail, HEADER, coq_bool


def _bits(x):
    return struct.unpack("<Q", struct.pack("<d", x))[0]


def _norm(t):
    """comments removed, runs of white space collapsed"""
    t = re.sub(r"//[^\n]*", "", t)
    return re.sub(r"\s+", " ", t)


def _need(text, frag, what):
    if _norm(frag) not in text:
        raise Fail("k_means: fragment not recognised: " + what)


def _op(text, pat, what):
    m = re.search(pat, text)
    if not m:
        raise Fail("k_means: guard not recognised: " + what)
    return m.group(1)


# ------------------------------------------------- k-means: literals, operators and guard shapes of
# src/algorithms/k_means.rs and of the helpers of src/geometry.rs it calls (Model/KMeans.v mirrors them)
def gen_kmeans():
    out = HEADER.format(src="src/algorithms/k_means.rs, src/geometry.rs")
    out += "From Coq Require Import NArith List.\nImport ListNotations.\n"
    km = read("src/algorithms/k_means.rs")
    geo = read("src/geometry.rs")
    fns = {}
    for name in ("imbalance", "balanced_k_means_with_initial_partition", "balanced_k_means_iter", "assign_and_balance",
                 "relax_bounds", "best_values", "erosion", "max_distance", "partition"):
        b = fn_body(km, name)
        if b is None:
            raise Fail("k_means.rs: fn %s not found" % name)
        fns[name] = _norm(b)
    gfn = {}
    for name in ("from_points", "center", "contains", "distance_to_point"):
        b = fn_body(geo, name)
        if b is None:
            raise Fail("geometry.rs: fn %s not found" % name)
        gfn[name] = _norm(b)
    # `fn center` occurs twice in geometry.rs (BoundingBox::center first); the free function is the last one
    i = geo.rfind("fn center<const D: usize>(points: &[PointND<D>])")
    if i < 0:
        raise Fail("geometry.rs: pub(crate) fn center(points) not found")
    gcenter = _norm(fn_body(geo[i:], "center"))

    # ---- literals (they flow into the binary64 instance of the model)
    bv = fns["best_values"]
    _need(bv, "let mut best_value = std::f64::MAX;", "best_value starts at f64::MAX")
    _need(bv, "let mut snd_best_value = std::f64::MAX;", "snd_best_value starts at f64::MAX")
    init = fns["balanced_k_means_with_initial_partition"]
    _need(init, "points.par_iter().map(|_| std::f64::MAX).collect()", "ubs start at f64::MAX")
    _need(init, "points.par_iter().map(|_| 0.).collect()", "lbs start at 0.")
    _need(init, "centers.par_iter().map(|_| 1.).collect()", "influences start at 1.")
    _need(gfn["from_points"], "PointND::<D>::from_element(std::f64::MAX), PointND::<D>::from_element(std::f64::MIN),",
          "bounding box fold starts at (MAX, MIN)")
    fmax = float.fromhex("0x1.fffffffffffffp+1023")
    out += "Definition km_fmax_bits : N := %d%%N.\n" % _bits(fmax)
    out += "Definition km_fmin_bits : N := %d%%N.\n" % _bits(-fmax)
    m = re.search(r"let eps = ([0-9.]+) \* std::f64::EPSILON;", gfn["contains"])
    if not m:
        raise Fail("geometry.rs contains: `let eps = <literal> * std::f64::EPSILON` not found")
    out += "Definition km_eps_bits : N := %d%%N.\n" % _bits(float(m.group(1)) * 2.0 ** -52)
    m = re.search(r"let max_diff = ([0-9.]+) \* \*influence;", fns["assign_and_balance"])
    if not m:
        raise Fail("assign_and_balance: `let max_diff = <literal> * *influence` not found")
    out += "Definition km_step_bits : N := %d%%N.\n" % _bits(float(m.group(1)))

    # ---- operators and guard shapes: true = as modelled
    flags = []

    def flag(name, val):
        flags.append(name)
        return "Definition %s : bool := %s.\n" % (name, coq_bool(val))

    ab = fns["assign_and_balance"]
    out += flag("km_lb_lt_ub", _op(ab, r"if lb (<=|<|>=|>) ub \{", "if lb < ub") == "<")
    out += flag("km_best_strict", _op(bv, r"if effective_distance (<=|<|>=|>) best_value \{ assignment = Some\(\*id\); "
                r"snd_best_value = best_value; best_value = effective_distance; \}", "best update") == "<")
    out += flag("km_snd_strict", _op(bv, r"else if effective_distance (<=|<|>=|>) snd_best_value \{ snd_best_value = effective_distance; \}",
                "second best update") == "<")
    out += flag("km_early_break", _op(bv, r"if \*distance_to_mbr (<=|<|>=|>) snd_best_value && settings\.mbr_early_break \{ break; \}",
                "early break") == ">")
    out += flag("km_effective_distance", "let effective_distance = (center - point).norm() * influence;" in bv)
    out += flag("km_best_result", bv.rstrip(" }").endswith("(snd_best_value, best_value, assignment)"))
    out += flag("km_tol_strict", _op(ab, r"if imbalance\(&new_weights\) (<=|<|>=|>) settings\.imbalance_tol \{ return; \}",
                "imbalance test") == "<")
    out += flag("km_balance_loop", "for _ in 0..settings.max_balance_iter {" in ab)
    out += flag("km_target_weight", "let target_weight = weights.par_iter().sum::<f64>() / (centers.len() as f64);" in ab)
    out += flag("km_influence_update", _norm(
        "let ratio = target_weight / weight; let max_diff = 0.05 * *influence; "
        "let new_influence = *influence / ratio.sqrt(); "
        "if (*influence - new_influence).abs() < max_diff { *influence = new_influence; } "
        "else if new_influence > *influence { *influence += max_diff; } else { *influence -= max_diff; }").replace("0.05", m.group(1)) in ab)
    out += flag("km_mbr_sort", "par_sort_by(|(_, d1), (_, d2)| d1.partial_cmp(d2).unwrap_or(Ordering::Equal))" in ab
                and "obb.distance_to_point(center) * influence" in ab)
    out += flag("km_write", "if let Some(new_assignment) = new_assignment {" in ab
                and "std::ptr::write(ptr.add(*idx), new_assignment);" in ab and "*lb = new_lb; *ub = new_ub;" in ab)
    it = fns["balanced_k_means_iter"]
    keep = "if points.is_empty() { return *old_center; } geometry::center(&points)"
    out += flag("km_keep_empty_center", keep in ab and keep in it)
    mstop = re.search(r"if !\(\*delta_max (<=|<|>=|>) settings\.delta_threshold \|\| current_iter == 0\) \{ relax_bounds\(", it)
    if not mstop:
        raise Fail("balanced_k_means_iter: the stop test `!(*delta_max < settings.delta_threshold || current_iter == 0)` not found")
    out += flag("km_stop_test", mstop.group(1) == "<" and "current_iter - 1," in it)
    out += flag("km_delta_max", ".max_by(|d1, d2| d1.partial_cmp(d2).unwrap_or(Ordering::Equal)) .unwrap();" in it
                and ".map(|(c1, c2)| (c1 - c2).norm())" in it)
    rb = fns["relax_bounds"]
    out += flag("km_relax_bounds", "*ub += distance * influence;" in rb and "*lb -= max_distance_influence_ratio;" in rb
                and ".map(|(distance, influence)| distance * influence)" in rb and ".unwrap_or(0.);" in rb)
    out += flag("km_imbalance", "(Some(min), Some(max)) => max - min, _ => 0.," in fns["imbalance"])
    out += flag("km_erosion", "2. / (1. + (-distance_moved / average_cluster_diameter).min(0.).exp()) - 1." in fns["erosion"]
                and "*influence = influence.log(10.) * (1. - erosion(*distance, average_diameters)).exp()" in it)
    out += flag("km_unsound_panic", "if current_num_parts != expected_num_parts { panic!(" in init
                and ".iter() .cloned() .unique() .collect::<Vec<_>>();" in init)
    pt = fns["partition"]
    out += flag("km_part_count", "let num_partitions = 1 + *part_ids.par_iter().max().unwrap_or(&0); if num_partitions < 2 { return Ok(()); }" in pt)
    # the `hilbert` setting is copied into the settings and never read
    nc = re.sub(r"//[^\n]*", "", km)
    out += flag("km_hilbert_unused", "settings.hilbert" not in nc and nc.count(".hilbert") == 1 and "hilbert: self.hilbert," in nc)
    out += flag("km_geometry_center", "assert!(!points.is_empty()); let total = points.len() as f64; "
                "points.par_iter().sum::<PointND<D>>() / total" in gcenter)
    out += flag("km_bbox_fold", "if *val < *min { *min = *val; } if *max < *val { *max = *val; }" in gfn["from_points"]
                and ".map(|(left, right)| left.min(*right))" in gfn["from_points"]
                and ".map(|(left, right)| left.max(*right))" in gfn["from_points"])
    out += flag("km_bbox_contains", ".all(|((min, max), point)| *point < *max + eps && *point > *min - eps)" in gfn["contains"])
    dp = gfn["distance_to_point"]
    out += flag("km_bbox_distance", "if point > max { *max } else if point < min { *min } else { *point }" in dp
                and "if point > center { (max - point).abs() } else { (min - point).abs() }" in dp
                and ".max_by(|a, b| a.partial_cmp(b).unwrap()) .unwrap()" in dp and "clamped.norm()" in dp)
    out += flag("km_obb", "let obb_to_aabb = aabb_to_obb.try_inverse().unwrap();" in _norm(geo)
                and "let mapped = points.par_iter().map(|p| obb_to_aabb * p); let aabb = BoundingBox::from_points(mapped)?;" in _norm(geo)
                and "self.aabb.distance_to_point(&(self.obb_to_aabb * point))" in _norm(geo)
                and "let obb = OrientedBoundingBox::from_points(points).unwrap();" in ab)
    out += "Definition km_source_shape : list bool :=\n  [%s].\n" % "; ".join(flags)
    return out


GENERATORS = {"KMeansGen.v": gen_kmeans}

PROP = dict(
    bin="c02",
    run_targets=["Run/RunC02.vo", "Run/RunKM.vo"],
    extra_bins=[dict(bin="c02km", cases=dict(quick=640, thorough=3200))],
    prop_targets=["Properties/C02.vo"],
    cases=dict(quick=3500, thorough=40000),
    level="proof",
    release_quick=3,
    rule="7 entry points in rotation (VnBest, VnFirst, KMeans 2D/3D, FiducciaMattheyses, KernighanLin, ArcSwap) x valid initial "
         "partitions with 1..8 parts (two-way algorithms: 1..2; one-sided and unbalanced included) x 6 weight families x 8 point "
         "families x 6 graph families (random, grid, path, star, disconnected, cycle) + a HUB family (harness/src/hub.rs: star / wheel / complete "
         "bipartite hub with 9..40 spokes, every spoke or every second spoke alone in its own part, 10..41 parts; 1 ArcSwap case in 12, "
         "and the same many-part partitions for 1 VnBest / VnFirst / KMeans case in 40) x parameter choices (pass/move limits incl. "
         "0 and None, imbalance caps, k-means iteration limits) x rayon pool in {1,2,3,4,8,16}; distinct = distinct (algorithm, "
         "pool, parameters, input); non-trivial = at least 3 elements and 2 parts. "
         "K-MEANS MODEL CASES (second binary c02km, 640 / 3200 cases): KMeans 2D/3D on four streams -- exact (integer coordinates "
         "and weights, 3/5 with a power-of-two point count), fractional (C02 clauses only), large (100..3000 points, implementation "
         "only), outside the contract (gap in the ids, fewer points or fewer weights than ids; compared with the model, not judged) "
         "-- x 7 point families x 6 weight families x initial partitions (random valid, one-sided, blocks, round robin) x max_iter "
         "in {0,1,2,3,5,8} x max_balance_iter in {0..4} x imbalance_tol in {0,0.01,1,5,50,1e9} x delta_threshold in {0,0.01,1,100} x "
         "erode / hilbert / mbr_early_break flags; EVERY case runs under pools 1,2,3,4,8,16 twice; the model (binary64, vm_compute) "
         "is compared with all twelve final partitions and, through runs with max_iter = 0..max_iter-1, with the assignments after "
         "every outer iteration, when the input is integer valued, erode is off and the rotation matrix "
         "recomputed by the harness equals the implementation's own box under every pool (ZCurve hook); non-trivial additionally "
         "needs max_iter >= 1 and max_balance_iter >= 1",
    class_names={0: "vnbest", 1: "vnfirst", 2: "kmeans2", 3: "kmeans3", 4: "fm", 5: "kl", 6: "arcswap",
                 100: "k-means model cases: not compared with the model (fractional / large / erode / rotation not validated)",
                 101: "k-means model cases: model = implementation, schedule-sensitivity flag raised",
                 102: "k-means model cases: model = implementation, no flag (every schedule of the model gives this partition)"},
    trusted_base=[
        "axioms: C02_arcswap_partial (ArcSwap with the f64 share the code computes) imports C05's Flocq-based theorem that the "
        "f64 share is the exact quotient below 2^53 and therefore uses the axioms of Coq's classical real numbers "
        "(ClassicalDedekindReals.sig_forall_dec, ClassicalDedekindReals.sig_not_dec, "
        "FunctionalExtensionality.functional_extensionality_dep, Classical_Prop.classic); every other theorem of "
        "Properties/C02.v, C02_arcswap_exact_share_partial included, is closed under the global context",
        "Flocq 4.1 (through Proofs/ArcSwapShare.v, for C02_arcswap_partial only)",
        "KMeans: CONCRETE model Model/KMeans.v (k_means.rs and the geometry.rs helpers line by line, generic over the arithmetic, "
        "binary64 instance on Coq's SpecFloat with the literals read by the translator); C02_kmeans (binary64, every schedule, "
        "every setting, any weights: Ok, length kept, ids of the input) is axiom-free; the rotation matrix obb_to_aabb "
        "(nalgebra symmetric_eigen + Householder + try_inverse) is an INPUT of the model (any matrix with at least one row; "
        "`try_inverse() = None` is a panic site outside the theorem), recomputed by the harness with the same nalgebra calls and "
        "validated per case against the box the implementation builds (ZCurve hook); f64::log / exp (erode) are arbitrary "
        "functions in the theorems and not compared in the runs; model = code is checked on the assignments after every outer "
        "iteration (runs with smaller max_iter) and on the final partitions; influences / bounds / assignments of every "
        "assignment step are compared bit for bit only when /repo carries the kmeans_assign / kmeans_bounds / kmeans_influences "
        "records (detected at run time), translator: 4 literals + 26 guard / operator shapes (C02_kmeans_source_shape)",
        "k-means runs: usize overflow of `1 + max id` and more than 20 clusters (rayon's par_sort_by switches from insertion to "
        "merge sort: same result unless a distance is NaN) are not modelled",
        "the per-algorithm theorems for VnBest/VnFirst/FM/KL/ArcSwap are derived from the property theorems of Properties/C14, C07, C15, C05 "
        "(by name; Proofs/C02Collect.v; KL at the flags of Gen/KlGen.v, for either edge_cut function) and are tied to the code by those checks; this check itself runs the implementation only (panic / hang / "
        "length / id bound)",
        "ArcSwap: the machine of Model/ArcSwap.v interleaves single shared-memory accesses (sequential consistency: the "
        "schedules the property quantifies over); no-panic / no-deadlock / termination / completion are proved for the share "
        "the code computes in f64 when |cap| + total vertex weight < 2^53 (C02_arcswap_partial) and for the exact share "
        "without bound (C02_arcswap_exact_share_partial); integer i64 weights",
        "FM: every theorem quantifies over all oracles (iteration order of the gain buckets); the weight cap must convert to i64",
        "NOT proved: KernighanLin on three or more part ids (the code reaches unimplemented!: open known finding, the theorem "
        "C02_kl_two_parts_partial covers at most two ids); ArcSwap on a one-part input is only bounded by id <= 1",
        "the harness generates valid input partitions (every id from 0 to the maximum used) and computes the id bound",
        "hang = no answer within the 90 s watchdog",
    ],
    assumptions=[
        "usage contract as stated in the property: valid input partition, matching lengths, non-negative weights, symmetric graphs "
        "with positive integer edge weights",
        "rayon pool sizes sampled from {1,2,3,4,8,16}",
    ],
)

MANIFEST = dict(
    text="One theorem per improving algorithm, about that algorithm's Gallina model, collected in Properties/C02.v from the property "
         "theorems of C14, C07, C15, C05 (by name; glue in Proofs/C02Collect.v): under the contract the model returns Ok (no panic, no fuel exhaustion), the "
         "array keeps its length and no id exceeds the input's maximum -- VnBest, VnFirst (full), FiducciaMattheyses (every "
         "bucket-order oracle: no panic, terminates within initial cut + 2 passes, completed runs stay in {0,1}; an accepted "
         "oracle exists), KernighanLin (PARTIAL: at most two part ids; labels only permuted), ArcSwap (every reachable state "
         "under every schedule: length kept, ids below part_count; no-panic / no-deadlock / well-founded stepping / "
         "completion FULL for i64 weights at the share the translator reads from the source -- divided in the weight type since "
         "fix 71662c8, C02_arcswap_i64, axiom-free; the former f64 round trip is kept as a PARTIAL theorem for |cap| + total "
         "weight < 2^53, classical-reals axioms); KMeans (FULL, concrete binary64 model mirroring k_means.rs, every family of split trees, every "
         "setting, any weights, rotation matrix as input: a valid partition with as many points as ids gives Ok, same length, ids of "
         "the input only; the model is compared bit for bit with the implementation's final partition under six pools twice). "
         "Plus a run of all six algorithms on valid partitions under six pool sizes with overflow checks and debug assertions "
         "on, every output judged by the exact validity checker; panics and hangs are violations. KernighanLin on more than "
         "two parts is a known finding (unimplemented!).",
    design_ref="DESIGN.md §7 C02",
    note="PARTIAL for KernighanLin (two part ids) and ArcSwap's no-hang clause (weights below 2^53 for the code's f64 share); KMeans is "
         "proved for its concrete model with the rotation matrix as an input (nalgebra's eigen-decomposition is not modelled). The main "
         "binary does not evaluate a model per case (the models of the other algorithms are compared in C05/C07/C14/C15); the k-means "
         "binary c02km evaluates Model/KMeans.v on every integer-valued case.",
    technique="Coq proof (per-algorithm validity theorems; concrete executable k-means model compared with the implementation) + certified validity checker on implementation runs",
)

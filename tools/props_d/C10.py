"""C10 -- Grid::rcb yields balanced boxes and terminates for any thread count."""
import os, re, struct, sys
sys.path.insert(0, os.path.dirname(os.path.dirname(os.path.abspath(__file__))))
from translate_lib import read, fn_body, Fail, HEADER


def _strip_comments(s):
    s = re.sub(r"//[^\n]*", "", s)
    return re.sub(r"/\*.*?\*/", "", s, flags=re.S)


def _usize_lit(txt, what):
    m = re.fullmatch(r"\s*(\d[\d_]*)(?:_?usize)?\s*", txt)
    if not m:
        raise Fail("%s: expected an unsigned integer literal, found `%s`" % (what, txt.strip()))
    return int(m.group(1).replace("_", ""))


NUM_THREADS = r"rayon\s*::\s*current_num_threads\s*\(\s*\)"


def _fingerprint(body):
    """sha256 of a function body with comments and ALL whitespace removed; in weighted_median the two
    statements whose literals are extracted separately (chunk_count, chunk_size) are masked."""
    import hashlib
    b = re.sub(r"let\s+chunk_count\s*=\s*[^;]+;", "let chunk_count=#;", body)
    b = re.sub(r"let\s+chunk_size\s*=\s*[^;]+;", "let chunk_size=#;", b)
    b = re.sub(r"\s+", "", b)
    return hashlib.sha256(b.encode()).hexdigest()[:16]


# The Gallina model mirrors these function bodies statement by statement (Model/GridRcb.v).  Any
# change of their text -- a secondary search path with its own prefix sum, another return, a
# different loop -- must be re-modelled: the translator fails closed until the model and the
# fingerprint are updated together.  (Literals the proofs depend on are extracted separately.)
EXPECTED_BODY = {
    "part_of": "b248e76363bf43f6",
    "weighted_median": "811ff79dac8853b8",
    "recurse_2d": "fb8fe6f1a50e8cfd",
    "recurse_3d": "3ef5f1492018491a",
}
EXPECTED_MOD_BODY = {
    "into_subgrid": "0963cd1d5e6c2721",
    "position_of": "9f84f4ed8344c030",
    "index_of": "dff5f48b5767fa82",
    "axis": "56d0fd32007d9e95",
    "split_at": "2a9e569898b681a5",
}
# every fn of rcb.rs outside `mod tests`: a new helper (e.g. a sequential scan) is a new code path
EXPECTED_FNS = ["part_of", "weighted_median", "recurse_2d", "recurse_3d"]


def gen_gridrcb():
    rel = "src/cartesian/rcb.rs"
    src = _strip_comments(read(rel))
    # --- TOLERANCE
    m = re.findall(r"\bconst\s+TOLERANCE\s*:\s*f64\s*=\s*([^;]+);", src)
    if len(m) != 1:
        raise Fail("expected exactly one `const TOLERANCE: f64 = ...;`, found %d" % len(m))
    lit = m[0].strip().replace("_", "")
    if not re.fullmatch(r"\d+\.\d*(?:[eE][+-]?\d+)?(?:f64)?|\d+[eE][+-]?\d+(?:f64)?", lit):
        raise Fail("TOLERANCE is not a plain f64 literal: `%s`" % lit)
    tol = float(lit.replace("f64", ""))
    tol_bits = struct.unpack(">Q", struct.pack(">d", tol))[0]
    body = fn_body(src, "weighted_median")
    if body is None:
        raise Fail("fn weighted_median not found")
    # --- structure: the functions of the file and the text of the modelled bodies
    main_src = src.split("#[cfg(test)]")[0]
    fns = re.findall(r"\bfn\s+(\w+)", main_src)
    if fns != EXPECTED_FNS:
        raise Fail("functions of rcb.rs are %s, the model covers %s (a new helper is a new code path: model it)" % (fns, EXPECTED_FNS))
    for name in EXPECTED_FNS:
        b = fn_body(main_src, name)
        if b is None:
            raise Fail("fn %s not found" % name)
        fp = _fingerprint(b)
        if fp != EXPECTED_BODY[name]:
            raise Fail("the body of fn %s changed (fingerprint %s, the model mirrors %s): re-model it in "
                       "coq/Model/GridRcb.v and update EXPECTED_BODY" % (name, fp, EXPECTED_BODY[name]))
    if len(re.findall(r"\bloop\s*\{", body)) != 1 or len(re.findall(r"\breturn\b", body)) != 2:
        raise Fail("weighted_median is expected to be ONE `loop` with exactly two `return`s (band hit, window of one slab)")
    # --- thresholds: ideal = total/2.0, min = ideal*(1.0-TOLERANCE), max = ideal*(1.0+TOLERANCE)
    if not re.search(r"let\s+ideal_part_weight\s*:\s*f64\s*=\s*total_weight\s*\.\s*as_\s*\(\s*\)\s*/\s*2\.0\s*;", body):
        raise Fail("`let ideal_part_weight: f64 = total_weight.as_() / 2.0;` not found")
    if not re.search(r"let\s+min_part_weight\s*:\s*W\s*=\s*\(\s*ideal_part_weight\s*\*\s*\(\s*1\.0\s*-\s*TOLERANCE\s*\)\s*\)\s*\.\s*as_\s*\(\s*\)\s*;", body):
        raise Fail("`let min_part_weight: W = (ideal_part_weight * (1.0 - TOLERANCE)).as_();` not found")
    if not re.search(r"let\s+max_part_weight\s*:\s*W\s*=\s*\(\s*ideal_part_weight\s*\*\s*\(\s*1\.0\s*\+\s*TOLERANCE\s*\)\s*\)\s*\.\s*as_\s*\(\s*\)\s*;", body):
        raise Fail("`let max_part_weight: W = (ideal_part_weight * (1.0 + TOLERANCE)).as_();` not found")
    # --- chunk count: the least number of chunks whatever the pool size
    m = re.findall(r"let\s+chunk_count\s*=\s*([^;]+);", body)
    if len(m) != 1:
        raise Fail("expected exactly one `let chunk_count = ...;` in weighted_median, found %d" % len(m))
    e = m[0].strip()
    mm = (re.fullmatch(r"(?:usize\s*::\s*|std\s*::\s*cmp\s*::\s*)max\s*\(\s*([^,]+),\s*" + NUM_THREADS + r"\s*,?\s*\)", e)
          or re.fullmatch(r"(?:usize\s*::\s*|std\s*::\s*cmp\s*::\s*)max\s*\(\s*" + NUM_THREADS + r"\s*,\s*([^,)]+),?\s*\)", e)
          or re.fullmatch(NUM_THREADS + r"\s*\.\s*max\s*\(\s*([^)]+)\)", e))
    if mm:
        min_chunks = _usize_lit(mm.group(1), "minimum chunk count")
    elif re.fullmatch(NUM_THREADS, e):
        min_chunks = 1          # chunk_count = pool size (>= 1): no lower bound of its own
    else:
        raise Fail("chunk_count is neither `usize::max(N, rayon::current_num_threads())` nor `rayon::current_num_threads()`: `%s`" % e)
    # --- chunk size: max(S, (max - min) / chunk_count)
    m = re.findall(r"let\s+chunk_size\s*=\s*([^;]+);", body)
    if len(m) != 1:
        raise Fail("expected exactly one `let chunk_size = ...;` in weighted_median, found %d" % len(m))
    mm = re.fullmatch(r"(?:usize\s*::\s*|std\s*::\s*cmp\s*::\s*)max\s*\(\s*([^,]+),\s*\(\s*max\s*-\s*min\s*\)\s*/\s*chunk_count\s*,?\s*\)", m[0].strip())
    if not mm:
        raise Fail("chunk_size is not `usize::max(S, (max - min) / chunk_count)`: `%s`" % m[0].strip())
    min_chunk_size = _usize_lit(mm.group(1), "minimum chunk size")
    # --- loop exit
    if not re.search(r"if\s+min\s*\+\s*1\s*>=\s*max\s*\{", body):
        raise Fail("loop exit `if min + 1 >= max {` not found")
    # --- entry points: starting axis of the recursion and of the id lookup
    msrc = _strip_comments(read("src/cartesian/mod.rs"))
    starts = []
    for d in ("2d", "3d"):
        mm = re.findall(r"rcb\s*::\s*recurse_%s\s*\(\s*self\s*,\s*self\s*\.\s*into_subgrid\s*\(\s*\)\s*,\s*weights\s*,\s*total_weight\s*,\s*iter_count\s*,\s*(\d+)\s*,?\s*\)" % d, msrc)
        if len(mm) != 1:
            raise Fail("call of rcb::recurse_%s(self, self.into_subgrid(), weights, total_weight, iter_count, <axis>) not found" % d)
        starts.append(int(mm[0]))
    for name in EXPECTED_MOD_BODY:
        b = fn_body(msrc, name)
        if b is None:
            raise Fail("fn %s not found in mod.rs" % name)
        fp = _fingerprint(b)
        if fp != EXPECTED_MOD_BODY[name]:
            raise Fail("the body of fn %s (mod.rs) changed (fingerprint %s, the model mirrors %s): re-model it in "
                       "coq/Model/GridRcb.v and update EXPECTED_MOD_BODY" % (name, fp, EXPECTED_MOD_BODY[name]))
    po = re.findall(r"iters\s*\.\s*part_of\s*\(\s*pos\s*,\s*(\d+)\s*\)", msrc)
    if len(po) != 2:
        raise Fail("expected two `iters.part_of(pos, <axis>)` calls in mod.rs, found %d" % len(po))
    out = HEADER.format(src=rel + ", src/cartesian/mod.rs")
    out += "From Coq Require Import NArith.\n"
    out += "(* const TOLERANCE: f64 = %s; as IEEE-754 binary64 bits *)\n" % lit
    out += "Definition gridrcb_tolerance_bits : N := %d%%N.\n" % tol_bits
    out += "(* `let chunk_count = %s;`: least chunk count for any pool size *)\n" % " ".join(e.split())
    out += "Definition gridrcb_min_chunks : nat := %d.\n" % min_chunks
    out += "Definition gridrcb_min_chunk_size : nat := %d.\n" % min_chunk_size
    out += "(* starting axis passed to recurse_2d / recurse_3d and to part_of (2-D, 3-D) *)\n"
    out += "Definition gridrcb_start_recurse_2d : nat := %d.\n" % starts[0]
    out += "Definition gridrcb_start_recurse_3d : nat := %d.\n" % starts[1]
    out += "Definition gridrcb_start_part_of_2d : nat := %d.\n" % int(po[0])
    out += "Definition gridrcb_start_part_of_3d : nat := %d.\n" % int(po[1])
    return out


GENERATORS = {"GridRcbGen.v": gen_gridrcb}


PROP = dict(
    bin="c10",
    run_targets=["Run/RunC10.vo"],
    prop_targets=["Properties/C10.vo"],
    cases=dict(quick=1800, thorough=14400),
    level="proof",
    harness_timeout=2400,
    coqc_timeout=3000,      # per shard; ~10 s of CPU, but the machine is shared

    rule="inputs drawn from 2-D and 3-D grids (sides 1..12, incl. 1 x n, n x 1, 1 x 1 x n, cubes, long thin 2-D grids up "
         "to 8 x 100, and a few grids with MORE THAN 1024 slabs on one axis (1xN, 2xN, Nx1, 1x1xN, N in 1025..6000); at most 600 cells in the quick tier, 1728 in the thorough tier), iter_count 0..6, three weight streams: "
         "(a) i64 -- 11 families (uniform, sparse, skewed, all-zero, one dominant, random, gradient, two clusters, large < 2^46, "
         "huge <= 2^52, giant <= 2^61) plus band-edge inputs (totals 2^57..2^62 whose chunk boundary sits exactly on the accepted band's edge; the first group of every run is the fixed witness of the known finding); every i64 input with total >= 2^46 is run twice: tagged with the known-finding class and judged by the LITERAL clause, then as an untagged twin judged by the proved clause; (b) f64 multiples of 2^-k, whose sums are exact whatever rayon's association -- the "
         "integer families at k = 0 and 7 fractional families (uniform in [0,1) on a 2^-k grid, normalised to sum exactly 1, "
         "tiny ~1e-6, mixed magnitudes 2^-45..2^-5, sparse, all equal 2^-j); (c) arbitrary f64 fractions with full mantissas "
         "(uniform, normalised to sum ~1, tiny, mixed) -- checker only. Every input is run under the rayon pools 1,2,3,4,8,16 "
         "(quick) / 1..16 (thorough) in consecutive cases; for (a),(b) the model is run with the same T and the ids are compared "
         "exactly and the certified checker (i64: 1% + one unit; f64: 1% with no unit, relative allowance 2^-40) judges the ids "
         "inside the range of the theorems (i64 total < 2^63 with the clause 1% + 1 unit below 2^46 and 1%*(1+2^-40) + 1 unit from 2^46 on, f64 total z < 2^53); for (c) the checker judges the ids against the "
         "exact weights z * 2^-k (no unit, allowance 2^-30). distinct = distinct (dims, weights, weight type, scale, iter_count, T); "
         "non-trivial = at least 4 cells, iter_count >= 1 and a non-zero total weight",
    class_names={0: "Ok (model compared)", 3: "panic", 4: "hang", 5: "Ok (arbitrary f64 fractions: checker only)",
                 6: "Ok; outside the LITERAL 1% + 1 unit (i64 total >= 2^46), inside the proved 1%*(1+2^-40) + 1 unit"},
    trusted_base=[
        "axioms: C10_thresholds and C10_gridrcb_boxes_all use the axioms of Coq's classical real numbers through Flocq "
        "(ClassicalDedekindReals.sig_forall_dec, sig_not_dec, FunctionalExtensionality.functional_extensionality_dep, "
        "Classical_Prop.classic); every other theorem of Properties/C10.v is closed under the global context",
        "Flocq 4.1 (BinarySingleNaN correctness theorems, PrimFloat.binary_round_aux_equiv linking Coq's SpecFloat to Flocq)",
        "modelled, not verified: i64 overflow of the weight sums (contract: total < 2^63); f64 weights are modelled when they are multiples of one 2^-k with total z < 2^53 (every f64 sum the code "
        "forms is then exact, whatever the association, and the Z model applies to the integers z); arbitrary f64 weights are "
        "not modelled (rounded sums, pool-dependent association of the par_iter total): validated only, by the checker on the "
        "exact weights; "
        "rayon: fold_chunks(n) = sums of consecutive chunks of n elements, par_iter/collect preserve order, "
        "current_num_threads() = size of the installed pool",
    ],
    assumptions=[
        "sides >= 1 (NonZeroUsize), weights.len() = partition.len() = number of cells",
        "weights are non-negative; i64 with total below 2^63 (the literal '1% + 1 unit' below 2^46; from 2^46 on it is false of the code -- C10_strict_band_refuted -- and 1%*(1+2^-40) + 1 unit is proved), or f64 multiples of 2^-k (k <= 1000) with total z below 2^53 "
        "(balance clause; termination, boxes and ids hold for any non-negative weights given the threshold facts)",
        "balance clause for f64 weights: within 1% of half with NO unit slack; the relative allowance 2^-40 (2^-30 on the "
        "arbitrary-fraction stream) only covers the rounding of the code's own thresholds ideal*fl(1-+TOLERANCE) (and, on that "
        "stream, of its prefix sums)",
        "Rust `f64 as i64` = truncation toward zero, saturating; `i64 as f64` = round to nearest even",
        "fuel: every median search is given more than log2(axis length) iterations (the model takes the fuel explicitly; "
        "C10_median_terminates shows log2(len)+1 suffice for every pool size)",
    ],
)

MANIFEST = dict(
    text="Theorems about a line-by-line Gallina model of Grid::rcb (index_of/position_of, slab sums, the chunked weighted-median "
         "search with the pool size T as a parameter, f64 thresholds via SpecFloat, recurse_2d/3d, part_of), proved for ALL 2-D/3-D "
         "grids with sides >= 1, all non-negative weights -- i64 with total < 2^63, or f64 multiples of 2^-k with total z < 2^53 "
         "(fractional loads included; sums exact) --, all iter_count and ALL pool sizes T: the median search returns within log2(len)+1 iterations (C10_median_terminates; needs the generated "
         "minimum chunk count >= 2, and C10_median_T1_refuted / C10_gridrcb_T1_refuted show the old chunk count = T loops for ever at "
         "T = 1); Grid::rcb never panics or hangs, every cell gets an id < 2^iter_count, the ids are the path codes of a recursive "
         "axis-aligned bisection of depth <= iter_count whose non-empty leaves are at depth iter_count, and at every cut the low side "
         "is within 1% of half the box weight (i64: +1 unit, and a relative 2^-40 more for totals >= 2^46 where the literal clause is refuted; f64: no unit, relative 2^-40 for the rounding of the two thresholds) "
         "or the slab just above the cut contains the half-weight mark "
         "(C10_gridrcb_boxes_all; the f64 facts about trunc(ideal*0.99), trunc(ideal*1.01) are proved with Flocq, C10_thresholds_i64 / _f64). Arbitrary f64 fractions are validated only (checker on exact weights). "
         "TOLERANCE, the minimum chunk count / chunk size and the starting axes are re-read from rcb.rs / mod.rs on every run; the "
         "model is compared with the implementation under rayon pools 1..16 (exact ids), and a checker proved equivalent to the "
         "statement (C10_checker_sound, C10_checker_complete) judges every implementation output.",
    design_ref="DESIGN.md §7 C10",
    note="Trusted: Coq kernel; classical-reals axioms (two theorems, via Flocq); the model<->code tie is the translator (TOLERANCE, "
         "min chunk count, min chunk size, start axes, threshold expressions) plus differential runs (1.8k/14.4k cases x pool sizes, "
         "watchdog for hangs); SpecFloat = hardware f64; i64 totals < 2^63 (literal clause below 2^46, refuted and loosened by 2^-40 above), exact-dyadic f64 totals < 2^53.",
    technique="Coq proof (loop invariant + interval-halving measure, induction on iter_count, Flocq for the thresholds) + translator "
              "+ model/implementation correspondence under pools 1..16 + certified checker",
)

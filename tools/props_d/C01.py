"""C01 -- every partitioner gives every element a part id below the requested count."""
PROP = dict(
    bin="c01",
    run_targets=["Run/RunC01.vo"],
    prop_targets=["Properties/C01.vo"],
    cases=dict(quick=3000, thorough=40000),
    level="proof",
    release_quick=3,
    rule="15 algorithms in rotation (Rcb/Rib 2D+3D, Hilbert 2D+3D, ZCurve 2D+3D, MultiJagged, Greedy, KarmarkarKarp, "
         "CompleteKarmarkarKarp, Grid::rcb 2D+3D, Random) x 8 point families (uniform, clustered, collinear, coincident, lattice, "
         "one outlier, duplicates, arbitrary f64) x 6 weight families (uniform, random, zeros, one heavy, skewed, ties) x part "
         "counts incl. more parts than elements x orders incl. 0 and the maximum x rayon pool in {1,2,3,4,8,16}; i64 and f64 "
         "weights; distinct = distinct (algorithm, pool, parameters, input); non-trivial = at least 2 elements and 2 parts",
    class_names={0: "rcb2", 1: "rcb3", 2: "rib2", 3: "rib3", 4: "hilbert2", 5: "hilbert3", 6: "zcurve2", 7: "zcurve3",
                 8: "multijagged2", 9: "greedy", 10: "kk", 11: "ckk", 12: "grid2", 13: "grid3", 14: "random"},
    trusted_base=[
        "axioms: C01_rcb_partial, C01_rib_partial (through C03's Flocq-based discharge of the cut search's float hypotheses and of "
        "the box premise) and C01_grid_rcb_2d_partial, C01_grid_rcb_3d_partial, C01_grid_rcb_2d_i64, C01_grid_rcb_3d_i64 (through "
        "C10's Flocq-based threshold theorems) use the axioms of Coq's classical real numbers "
        "(ClassicalDedekindReals.sig_forall_dec, ClassicalDedekindReals.sig_not_dec, "
        "FunctionalExtensionality.functional_extensionality_dep, Classical_Prop.classic); every other theorem of "
        "Properties/C01.v -- C01_rcb_range and C01_grid_rcb_partial (threshold facts as a premise) included -- is closed under "
        "the global context",
        "Flocq 4.1 (through Proofs/F32Flocq.v, Proofs/RcbBox.v and Proofs/GridRcbFloat.v, for the six theorems above only)",
        "the per-algorithm theorems are derived from the property theorems of Properties/C03, C09, C10, C11, C12, C13 (by "
        "name; Proofs/C01Collect.v) about the models instantiated there with the generated constants, and are only as tied to "
        "the code as those checks' correspondence runs make them; this check itself runs the implementation only (panic / "
        "hang / range)",
        "NOT proved (theorems named _partial, premises stated in Properties/C01.v): Rcb for f64 weights (i64 weights and EVERY finite f64 "
        "coordinate set: C01_rcb_finite_f64, full since the clamp fix dcc53e7); Rib given the rotated points only; HilbertCurve's quantile search is "
        "shown to terminate only for part_count <= 2; MultiJagged in binary64 returns Ok given the named premise mono_cuts "
        "(split positions of every call non-decreasing), not proved for binary64 -- for every arithmetic only panic sites 4 "
        "and 5 are reachable, and exact arithmetic is total; Grid::rcb with f64 weights only for exact dyadic weights with "
        "integer total below 2^53 (i64 weights: the whole contract, C01_grid_rcb_2d_i64 / _3d_i64); Rib's rotation, ZCurve's "
        "quadrant function, Hilbert's curve index and MultiJagged's powf root are data / oracles",
        "the harness decides what is inside the usage contract (it generates only in-contract inputs) and the requested part count",
        "hang = no answer within the 90 s watchdog",
    ],
    assumptions=[
        "usage contract as stated in the property: matching lengths, finite coordinates, finite non-negative weights with positive total",
        "rayon pool sizes sampled from {1,2,3,4,8,16}; work-stealing schedules are whatever the runs produce",
    ],
)

MANIFEST = dict(
    text="One theorem per partition-creating algorithm, about that algorithm's Gallina model at the generated constants, of the "
         "shape `contract -> Ok ids /\\ length ids = n /\\ every id < parts` (Ok excludes panic and fuel exhaustion), collected "
         "in Properties/C01.v from the property theorems of the per-algorithm developments (by name; glue in Proofs/C01Collect.v). Full: ZCurve 2D/3D "
         "(every quadrant function and sort oracle), Greedy, KarmarkarKarp (every tie order), CompleteKarmarkarKarp (Ok or "
         "NotFound), Random, the exact range checker, Grid::rcb 2D/3D with i64 weights (every pool "
         "size, every total below 2^63; classical-reals axioms). Partial, named _partial: Rcb and Rib (Ok for every schedule "
         "on coordinates with a finite binary32 image -- float hypotheses and box premise discharged with Flocq in C03; finite "
         "f64 coordinates beyond the binary32 range not covered), HilbertCurve 2D/3D (no panic and range for every part count, "
         "termination only for part_count <= 2), MultiJagged (range for every arithmetic if it returns; only panic sites 4 and "
         "5 reachable; binary64 Ok given monotone cuts; Ok at exact arithmetic), Grid::rcb with exact dyadic f64 weights or "
         "the threshold facts as a premise. Plus a run of all 15 entry points on adversarial "
         "in-contract inputs under six pool sizes with overflow checks and debug assertions on, every output judged by the "
         "certified range checker; panics and hangs are violations.",
    design_ref="DESIGN.md §7 C01",
    note="This check does not evaluate a model per case (the models are compared in the per-algorithm checks); it is the "
         "place where the implementation is run over the full C01 quantifier. Hang detection is a 90 s watchdog.",
    technique="Coq proof (per-algorithm range theorems) + certified range checker on implementation runs across pool sizes",
)

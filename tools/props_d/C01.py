"""C01 -- every partitioner gives every element a part id below the requested count."""
PROP = dict(
    bin="c01",
    run_targets=["Run/RunC01.vo"],
    prop_targets=["Properties/C01.vo"],
    cases=dict(quick=3000, thorough=40000),
    level="proof",
    rule="15 algorithms in rotation (Rcb/Rib 2D+3D, Hilbert 2D+3D, ZCurve 2D+3D, MultiJagged, Greedy, KarmarkarKarp, "
         "CompleteKarmarkarKarp, Grid::rcb 2D+3D, Random) x 8 point families (uniform, clustered, collinear, coincident, lattice, "
         "one outlier, duplicates, arbitrary f64) x 6 weight families (uniform, random, zeros, one heavy, skewed, ties) x part "
         "counts incl. more parts than elements x orders incl. 0 and the maximum x rayon pool in {1,2,3,4,8,16}; i64 and f64 "
         "weights; distinct = distinct (algorithm, pool, parameters, input); non-trivial = at least 2 elements and 2 parts",
    class_names={0: "rcb2", 1: "rcb3", 2: "rib2", 3: "rib3", 4: "hilbert2", 5: "hilbert3", 6: "zcurve2", 7: "zcurve3",
                 8: "multijagged2", 9: "greedy", 10: "kk", 11: "ckk", 12: "grid2", 13: "grid3", 14: "random"},
    trusted_base=[
        "axioms: none",
        "the per-algorithm range theorems are about the models of C03/C09/C10/C11/C12/C13 and are only as tied to the code as "
        "those checks' correspondence runs make them; this check itself runs the implementation only (panic / hang / range)",
        "the harness decides what is inside the usage contract (it generates only in-contract inputs) and the requested part count",
        "hang = no answer within the 90 s watchdog",
    ],
    assumptions=[
        "usage contract as stated in the property: matching lengths, finite coordinates, finite non-negative weights with positive total",
        "rayon pool sizes sampled from {1,2,3,4,8,16}; work-stealing schedules are whatever the runs produce",
    ],
)

MANIFEST = dict(
    text="Range/no-panic/no-hang theorems per algorithm, proved about the Gallina models of the individual algorithms and "
         "collected in Properties/C01.v (so far: Random, CompleteKarmarkarKarp, the exact range checker; the others are added as "
         "their models land), plus a run of all 15 entry points on adversarial in-contract inputs under six pool sizes with "
         "overflow checks and debug assertions on, every output judged by the certified range checker; panics and hangs are "
         "violations.",
    design_ref="DESIGN.md §7 C01",
    note="This check does not evaluate a model per case (the models are compared in the per-algorithm checks); it is the "
         "place where the implementation is run over the full C01 quantifier. Hang detection is a 90 s watchdog.",
    technique="Coq proof (per-algorithm range theorems) + certified range checker on implementation runs across pool sizes",
)
